"""Expansion of the fixture corpus by the REAL proc-macros of /repo (rule R9): cargo rustc -- -Zunpretty=expanded."""
import os
import subprocess

from .rustsrc import ExtractError

VERIF = os.path.dirname(os.path.dirname(os.path.abspath(__file__)))
_cache = {}


def expand_fixtures():
    if 'text' in _cache:
        return _cache['text']
    env = dict(os.environ, RUSTC_BOOTSTRAP='1', CARGO_NET_OFFLINE='true', CARGO_TARGET_DIR=os.path.join(VERIF, '.work', 'fixtures-target'))
    fx = os.path.join(VERIF, 'fixtures')
    repo = os.environ.get('VERIF_REPO', '/repo')
    if repo != '/repo':
        raise ExtractError('fixture expansion is wired to /repo path dependencies')
    lock = os.path.join(repo, 'Cargo.lock')
    if os.path.exists(lock) and not os.path.exists(os.path.join(fx, 'Cargo.lock')):
        open(os.path.join(fx, 'Cargo.lock'), 'w').write(open(lock).read())
    p = subprocess.run(['cargo', 'rustc', '--offline', '--lib', '--', '-Zunpretty=expanded'], cwd=fx, env=env, capture_output=True, text=True)
    if p.returncode != 0:
        raise ExtractError('fixture corpus does not expand/compile against the current /repo tree: ' + p.stderr[-1500:])
    out = os.path.join(VERIF, '.work', 'fixtures.expanded.rs')
    os.makedirs(os.path.dirname(out), exist_ok=True)
    open(out, 'w').write(p.stdout)
    _cache['text'] = p.stdout
    return p.stdout
