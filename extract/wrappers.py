"""Rule R9: wrapper functions are taken from what the REAL proc-macros emit for the fixture corpus
(/verif/fixtures, expanded on every run), not from the quote! templates.

For every fixture the extractor takes, from the branch selected by the emitted `__scope` constant:
  * the arguments of the `...Cache::new(..)` statement  -> `requires` equating the cache's config fields with them
  * the tail from `let __key =` to the end (minus the `let __cache = ..new(..)` statement) -> body of a Verus fn
    `w_<fixture>(__cache: &mut Engine<Ret>, <params>, fx: &mut Fx) -> Ret`
and rewrites only:  (|| BLOCK)() / (async BLOCK).await -> { fx_body(fx); BLOCK }   (the body ran: effect log)
                    format!("{:?}", x) as expanded      -> debug_fmt(&x)
                    V.join("|")                         -> vec_join(&V, "|")
                    PRED(&__key, &v)                    -> PRED(&__key, &v, fx)     (predicate consultations are logged)
                    `self` -> `self_`
The contract of each wrapper is generated from the fixture's ATTRIBUTES (what the user asked for)."""
import os
import re

from . import rustsrc
from .rustsrc import ExtractError
from .rules import R, Rule, tokpat, _short

VERIF = os.path.dirname(os.path.dirname(os.path.abspath(__file__)))


def parse_attrs():
    """Attributes of every fixture, from /verif/fixtures/src/lib.rs."""
    src = open(os.path.join(VERIF, 'fixtures', 'src', 'lib.rs')).read()
    res = {}
    for m in re.finditer(r'#\[(cache_async|cache)(?:\((.*?)\))?\]\s*pub\s+(async\s+)?fn\s+(\w+)\s*\((.*?)\)\s*->\s*([^{]+)\{', src, re.S):
        macro, args, is_async, name, params, ret = m.groups()
        a = dict(macro=macro, name=name, ret=' '.join(ret.split()), has_self='self' in params.split(',')[0])
        args = args or ''
        for key in ('limit', 'ttl'):
            mm = re.search(r'\b%s\s*=\s*(\d+)' % key, args)
            a[key] = int(mm.group(1)) if mm else None
        mm = re.search(r'\bfrequency_weight\s*=\s*([0-9.]+)', args)
        a['frequency_weight'] = mm.group(1) if mm else None
        for key in ('policy', 'scope', 'max_memory', 'name'):
            mm = re.search(r'\b%s\s*=\s*"([^"]*)"' % key, args)
            a[key] = mm.group(1) if mm else None
        mm = re.search(r'\bmax_memory\s*=\s*(\d+)\b', args)
        if mm:
            a['max_memory'] = mm.group(1)
        for key in ('cache_if', 'invalidate_on'):
            mm = re.search(r'\b%s\s*=\s*(\w+)' % key, args)
            a[key] = mm.group(1) if mm else None
        for key in ('tags', 'events', 'dependencies'):
            mm = re.search(r'\b%s\s*=\s*\[(.*?)\]' % key, args)
            a[key] = re.findall(r'"([^"]*)"', mm.group(1)) if mm else []
        ps, pats = [], {}
        plist = split_args(params)
        a['has_self'] = bool(plist) and plist[0].replace(' ', '') in ('&self', 'self', '&mutself')
        for p in plist:
            p = p.strip()
            if not p or p.replace(' ', '') in ('&self', 'self', '&mutself'):
                continue
            n, t = split_colon(p)
            if not re.fullmatch(r'\w+', n):
                # destructuring pattern: the wrapper takes a plain parameter and the first statement re-binds the pattern
                pn = 'p%d' % len(ps)
                pats[pn] = n
                n = pn
            ps.append((n, t))
        a['patterns'] = pats
        a['params'] = ps
        a['is_result'] = a['ret'].replace(' ', '').startswith(('Result<', 'std::result::Result<'))
        res[name] = a
    return res


def find_fixture_fn(exp, name):
    m = re.search(r'(?m)^\s*pub\s+(async\s+)?fn\s+%s\s*\(' % re.escape(name), exp)
    if not m:
        raise ExtractError('fixture %s not found in the expansion' % name)
    f = rustsrc.find_fn(exp, name, m.start(), len(exp))
    return f


def split_colon(p):
    """pattern: type  ->  (pattern, type), splitting at the first ':' outside brackets"""
    depth = 0
    for i, ch in enumerate(p):
        if ch in '([{<':
            depth += 1
        elif ch in ')]}>':
            depth -= 1
        elif ch == ':' and depth == 0:
            return p[:i].strip(), p[i + 1:].strip()
    raise ExtractError('parameter %r has no type' % p)


def split_args(s):
    args, depth, cur = [], 0, ''
    for ch in s:
        if ch in '([{<':
            depth += 1
        elif ch in ')]}>':
            depth -= 1
        if ch == ',' and depth == 0:
            args.append(cur.strip())
            cur = ''
        else:
            cur += ch
    if cur.strip():
        args.append(cur.strip())
    return args


def extract(exp, name, attrs):
    """Returns dict(engine, ret_type, ctor_args, tail, tail_line, callbacks, registrations, pre_await_ops)."""
    f = find_fixture_fn(exp, name)
    body = exp[f['body_open']:f['body_close'] + 1]
    base = f['body_open']
    info = dict(name=name)
    if attrs['macro'] == 'cache':
        ms = re.search(r'let\s+__scope\s*=\s*cachelito_core\s*::\s*CacheScope\s*::\s*(\w+)\s*;', body)
        if not ms:
            raise ExtractError('%s: emitted scope constant not found' % name)
        scope = ms.group(1)
        mi = re.search(r'if\s+__scope\s*==\s*cachelito_core\s*::\s*CacheScope\s*::\s*ThreadLocal\s*\{', body)
        if not mi:
            raise ExtractError('%s: scope dispatch not found' % name)
        ob = mi.end() - 1
        cb = rustsrc.match_close(body, ob)
        me = re.match(r'\s*else\s*\{', body[cb + 1:])
        if not me:
            raise ExtractError('%s: else branch of the scope dispatch not found' % name)
        ob2 = cb + 1 + me.end() - 1
        cb2 = rustsrc.match_close(body, ob2)
        if scope == 'ThreadLocal':
            blk, off = body[ob:cb + 1], ob
        else:
            blk, off = body[ob2:cb2 + 1], ob2
        info['scope'] = 'thread' if scope == 'ThreadLocal' else 'global'
    else:
        blk, off = body, 0
        info['scope'] = 'async'
    # constructor statement
    mc = re.search(r'let\s+__cache\s*=\s*((?:cachelito_core\s*::\s*)?(ThreadLocalCache|GlobalCache|AsyncGlobalCache)\s*(?:::\s*<(.*?)>\s*)?::\s*new\s*)\(', blk, re.S)
    if not mc:
        raise ExtractError('%s: cache constructor statement not found' % name)
    op = mc.end() - 1
    cl = rustsrc.match_close(blk, op)
    semi = blk.index(';', cl)
    info['engine'] = mc.group(2)
    info['ctor_args'] = split_args(blk[op + 1:cl])
    ctor_span = (mc.start(), semi + 1)
    # tail: from `let __key =` (which may precede the constructor in the async expansion) to the end of the block
    mk = re.search(r'let\s+__key\s*=', blk)
    if not mk:
        raise ExtractError('%s: key statement not found' % name)
    start = min(mk.start(), ctor_span[0])
    tail = blk[start:ctor_span[0]] + ' ' * 0 + blk[ctor_span[1]:len(blk) - 1] if start < ctor_span[0] else blk[ctor_span[1]:len(blk) - 1]
    if start < ctor_span[0]:
        tail = blk[start:ctor_span[0]] + blk[ctor_span[1]:len(blk) - 1]
    info['tail'] = tail
    info['tail_line'] = rustsrc.line_of(exp, base + off + start)
    # registrations and callbacks (anywhere in the chosen block before the tail)
    head = blk[:start]
    cbs = {}
    for m in re.finditer(r'register_(invalidation_)?callback\s*\(', head):
        o2 = m.end() - 1
        c2 = rustsrc.match_close(head, o2)
        closure = head[o2 + 1:c2]
        nm = re.search(r'"([^"]+)"', closure)
        bo = closure.index('{', closure.index('|', closure.index('|') + 1) if m.group(1) else closure.index('||'))
        bc = rustsrc.match_close(closure, bo)
        cbs['check' if m.group(1) else 'clear'] = dict(name=nm.group(1) if nm else None, body=closure[bo:bc + 1],
                                                        line=rustsrc.line_of(exp, base + off + o2 + 1 + bo))
    info['callbacks'] = cbs
    regs = {}
    m = re.search(r'stats_registry\s*::\s*register\s*\(\s*"([^"]+)"', head)
    regs['stats_name'] = m.group(1) if m else None
    # `InvalidationRegistry::global().register("name", ..)` or the same call through a local bound to the registry
    m = re.search(r'\.\s*register\s*\(\s*"([^"]+)"', head)
    regs['inval_name'] = m.group(1) if m else None
    mm = re.search(r'InvalidationMetadata\s*::\s*new\s*\(', head)
    if mm:
        o3 = mm.end() - 1
        c3 = rustsrc.match_close(head, o3)
        vecs = split_args(head[o3 + 1:c3])
        regs['metadata'] = [re.findall(r'"([^"]*)"\s*\.\s*to_string', v) for v in vecs]
    info['registrations'] = regs
    # statics are local items of the function ("one static store per decorated function")
    info['local_statics'] = len(re.findall(r'\bstatic\s+(?:GLOBAL_OR_THREAD_|__)(?:CACHE|ORDER|STATS)_\w+\s*:', blk)) + len(re.findall(r'\bconst\s+GLOBAL_OR_THREAD_(?:CACHE|ORDER)_\w+\s*:', blk))
    return info


def tail_rules(attrs, await_interference=False, cache_static=None, stats_static=None):
    rules = [
        Rule('R9.body_closure', tokpat(r'\( \| \| (\{.*?\}) \) \( \)') , None, 'closure call around the user body -> the block itself, preceded by the effect-log call fx_body(fx)', re.S),
        Rule('R9.body_async', tokpat(r'\( async (\{.*?\}) \) \. await'), None, 'async block + .await around the user body -> the block itself, preceded by fx_body(fx) (suspension: see the await obligations)', re.S),
        R('R9.debug_fmt', r':: alloc :: __export :: must_use \( \{ :: alloc :: fmt :: format \( format_args ! \( "\{0:\?\}" , (.*?) \) \) \} \)', r'debug_fmt(&\1)',
          'expanded format!("{:?}", x) -> debug_fmt(&x) (Debug rendering, assumed contract on std)', re.S),
        R('R4.join', r'(@ID@) \. join \( "(.*?)" \)', r'vec_join(&\1, "\2")', 'Vec<String>::join(sep) -> vec_join (assumed contract: the separator-joined concatenation)'),
        R('R9.self', r'\bself\b', 'self_', 'receiver renamed (the wrapper is a free function)'),
        R('R0.path', r'\bcachelito_core :: ', '', 'crate path prefix'),
        R('R9.opt_none', r'Option :: < \w+ > :: None', 'None', 'typed None'),
    ]
    if attrs.get('macro') == 'cache':
        # sync flavours: a direct use of the store static in the wrapper (the static handed to ...Cache::new and the store field
        # of __cache are the same object; lock acquisition erased as in R1 -- its order is judged by the lock obligations)
        rules.append(R('R9.static_alias_sync_read', r'\bGLOBAL_OR_THREAD_CACHE_\w+ \. read \( \)', '(&__cache.STORE_FIELD)', 'store static .read() -> & borrow of the store field of __cache'))
        rules.append(R('R9.static_alias_sync_write', r'\bGLOBAL_OR_THREAD_CACHE_\w+ \. write \( \)', '(&mut __cache.STORE_FIELD)', 'store static .write() -> &mut borrow of the store field of __cache'))
    if cache_static:
        # the store static handed to ...Cache::new(&STATIC, ..) and the `cache` field of __cache are the same object
        rules.append(R('R9.static_alias', r'\b%s \. ' % cache_static, '__cache.cache.', 'direct use of the store static -> the `cache` field of __cache (same object: first constructor argument)'))
    if stats_static:
        rules.append(R('R9.static_alias_stats', r'\b%s \. ' % stats_static, '__cache.stats.', 'direct use of the statistics static -> the `stats` field of __cache (same object: last constructor argument)'))
    for key in ('cache_if', 'invalidate_on'):
        if attrs.get(key):
            rules.append(R('R9.pred:' + attrs[key], r'\b%s \( (& __key , & \w+) \)' % attrs[key], r'%s(\1, fx)' % attrs[key],
                           'user predicate call gets the effect log (consultations are recorded)'))
    return rules


def apply_tail_rules(tail, attrs, log, base_line, qual, await_interference=False, cache_static=None, stats_static=None):
    store_field = 'cache' if attrs.get('scope') == 'thread' else 'map'
    for r in tail_rules(attrs, await_interference, cache_static, stats_static):
        if isinstance(r.repl, str) and 'STORE_FIELD' in r.repl:
            r.repl = r.repl.replace('STORE_FIELD', store_field)
        if r.repl is None:
            if await_interference:
                def repl(m):
                    # other threads / tasks run while the body runs (no lock held): arbitrary interference (await_point) before the call goes on
                    return '{ fx_body(fx); let __awaited = ' + m.group(1) + '; await_point(__cache); __awaited }'
            else:
                def repl(m):
                    blk = m.group(1)
                    return '{ fx_body(fx); ' + blk[1:]
            r.repl = repl
        before = len(log)
        tail = r.apply(tail, log, base_line)
        for e in log[before:]:
            e['item'] = qual
    return tail
