"""Minimal Rust source handling for the extractor: comment stripping (line structure kept),
string/char-literal aware brace matching, item lookup. No parsing beyond that: the extractor
copies text and applies logged, purely syntactic rewrite rules (DESIGN.md section 3)."""
import re


class ExtractError(Exception):
    """Lost anchor / unsupported construct: exit 2, never an alarm."""


def strip_comments(text):
    """Replace // and /* */ comments by spaces, keep newlines and string literals."""
    out = []
    i, n = 0, len(text)
    while i < n:
        c = text[i]
        if c == '/' and i + 1 < n and text[i + 1] == '/':
            while i < n and text[i] != '\n':
                out.append(' ')
                i += 1
        elif c == '/' and i + 1 < n and text[i + 1] == '*':
            depth = 0
            while i < n:
                if text.startswith('/*', i):
                    depth += 1
                    out.append('  ')
                    i += 2
                elif text.startswith('*/', i):
                    depth -= 1
                    out.append('  ')
                    i += 2
                    if depth == 0:
                        break
                else:
                    out.append('\n' if text[i] == '\n' else ' ')
                    i += 1
        elif c == '"':
            j = _skip_string(text, i)
            out.append(text[i:j])
            i = j
        elif c == 'r' and re.match(r'r#*"', text[i:i + 8]) and (i == 0 or not (text[i - 1].isalnum() or text[i - 1] == '_')):
            j = _skip_raw_string(text, i)
            out.append(text[i:j])
            i = j
        elif c == "'":
            j = _skip_char_or_lifetime(text, i)
            out.append(text[i:j])
            i = j
        else:
            out.append(c)
            i += 1
    return ''.join(out)


def _skip_string(text, i):
    j = i + 1
    while j < len(text):
        if text[j] == '\\':
            j += 2
        elif text[j] == '"':
            return j + 1
        else:
            j += 1
    return j


def _skip_raw_string(text, i):
    m = re.match(r'r(#*)"', text[i:])
    hashes = m.group(1)
    end = text.find('"' + hashes, i + len(m.group(0)))
    return len(text) if end < 0 else end + 1 + len(hashes)


def _skip_char_or_lifetime(text, i):
    # 'a' / '\n' / '\u{1F600}' are char literals; 'a (no closing quote right after) is a lifetime
    m = re.match(r"'(\\.[^']*|[^'\\])'", text[i:])
    if m:
        return i + len(m.group(0))
    return i + 1


def match_close(text, open_idx):
    """Index of the bracket matching text[open_idx] (one of ( [ {), literal-aware."""
    pairs = {'(': ')', '[': ']', '{': '}'}
    op = text[open_idx]
    cl = pairs[op]
    depth = 0
    i = open_idx
    n = len(text)
    while i < n:
        c = text[i]
        if c == '"':
            i = _skip_string(text, i)
            continue
        if c == "'":
            i = _skip_char_or_lifetime(text, i)
            continue
        if c == op:
            depth += 1
        elif c == cl:
            depth -= 1
            if depth == 0:
                return i
        i += 1
    raise ExtractError('unbalanced bracket at offset %d' % open_idx)


def line_of(text, idx):
    return text.count('\n', 0, idx) + 1


def find_impl(text, impl_re, nth=0):
    """Return (start, open_brace, close_brace) of the nth impl block whose header matches impl_re."""
    k = 0
    for m in re.finditer(r'(?m)^impl\b[^{;]*\{', text):
        header = re.sub(r'\s+', ' ', m.group(0)[:-1]).strip()
        if re.search(impl_re, header):
            if k == nth:
                ob = m.end() - 1
                return m.start(), ob, match_close(text, ob)
            k += 1
    raise ExtractError('impl block matching %r (#%d) not found' % (impl_re, nth))


def find_fn(text, name, lo=0, hi=None, nth=0):
    """Find `fn name` within text[lo:hi]. Returns dict(sig_start, name_end, body_open, body_close).
    sig_start is the start of the `pub fn`/`fn` keyword sequence (attributes excluded)."""
    hi = len(text) if hi is None else hi
    k = 0
    for m in re.finditer(r'(?:\bpub(?:\s*\([^)]*\))?\s+)?(?:\bconst\s+)?(?:\basync\s+)?\bfn\s+%s\b' % re.escape(name), text[lo:hi]):
        start = lo + m.start()
        # skip matches inside string literals: cheap check that we are at brace depth of an item
        i = lo + m.end()
        # find body open brace: first '{' at paren/angle depth 0 after the signature
        j = i
        depth = 0
        while j < hi:
            c = text[j]
            if c in '([':
                j = match_close(text, j) + 1
                continue
            if c == '{' :
                break
            if c == ';':
                j = -1
                break
            j += 1
        if j < 0 or j >= hi:
            continue
        if k == nth:
            return dict(sig_start=start, name_end=i, body_open=j, body_close=match_close(text, j))
        k += 1
    raise ExtractError('fn %s (#%d) not found' % (name, nth))


def preceding_attrs(text, sig_start):
    """Return the attribute lines (#[...]) immediately preceding sig_start, as a list of strings."""
    attrs = []
    i = sig_start
    while True:
        j = i - 1
        while j >= 0 and text[j] in ' \t\n':
            j -= 1
        if j >= 0 and text[j] == ']':
            # find matching '#['
            k = text.rfind('#[', 0, j)
            if k < 0:
                break
            try:
                if match_close(text, k + 1) != j:
                    break
            except ExtractError:
                break
            attrs.insert(0, text[k:j + 1])
            i = k
        else:
            break
    return attrs


def find_struct(text, name):
    m = re.search(r'(?m)^(?:pub\s+)?struct\s+%s\b[^{;]*\{' % re.escape(name), text)
    if not m:
        raise ExtractError('struct %s not found' % name)
    ob = m.end() - 1
    return m.start(), ob, match_close(text, ob)


def find_enum(text, name):
    m = re.search(r'(?m)^(?:pub\s+)?enum\s+%s\b[^{;]*\{' % re.escape(name), text)
    if not m:
        raise ExtractError('enum %s not found' % name)
    ob = m.end() - 1
    return m.start(), ob, match_close(text, ob)
