"""Guard-liveness analysis on the ORIGINAL source text (DESIGN.md 6.9, 6.10, 6.14).

The sequential projection (rule R1) erases locks, so everything about lock order, RefCell re-borrows and guards
held across `.await` is decided here, on the text of /repo itself (and on the real macro expansions), by
per-acquisition-site obligations:

* rank  (C17): every lock already held by this thread at an acquisition has a strictly smaller rank, and no lock is
               acquired twice;  ranks: stats registry 5 < invalidation registry tables 10.. < queue Mutex 20 <
               store RwLock 30 < DashMap shard 40.
* cell  (C16): a RefCell is never borrowed mutably while any borrow of it is live, nor borrowed while a mutable
               borrow is live (thread-local engine);
* await (C20): no guard is live at an `.await` (async expansions).

Guards live from their `let` to the end of the enclosing block (Rust drop semantics) or an explicit drop();
temporaries live to the end of the enclosing statement, or of the whole `if let` / `while let` / `match`
when they occur in its scrutinee. Calls made while a guard is live are checked against the callee's
`acquires` summary (its contract), not its body. Obligations are emitted as Verus proof fns over integer
constants so that the same back end discharges and counts them."""
import os
import re

from . import rustsrc

RANK = {'stats_registry': 5, 'registry': 10, 'order': 20, 'map': 30, 'shard': 40}


class Site:
    def __init__(self, fn, line, lock, mode, how):
        self.fn, self.line, self.lock, self.mode, self.how = fn, line, lock, mode, how


def lock_rank(lock):
    kind = lock.split(':')[0]
    if kind == 'registry':
        return RANK['registry'] + REG_TABLES.get(lock.split(':')[1], 0)
    return RANK[kind]


REG_TABLES = {'tag_to_caches': 0, 'event_to_caches': 1, 'dependency_to_caches': 2, 'cache_metadata': 3,
              'clear_callbacks': 4, 'invalidation_check_callbacks': 5}


# ---------------------------------------------------------------------------------------------
# acquisition patterns: (regex, lock-name function, mode, returns_guard)
def acq_patterns(flavour):
    pats = []
    if flavour in ('global',):
        pats += [(r'\bself\s*\.\s*map\s*\.\s*(read|write)\s*\(\s*\)', lambda m: 'map', None, True),
                 (r'\bself\s*\.\s*order\s*\.\s*lock\s*\(\s*\)', lambda m: 'order', 'x', True)]
    if flavour == 'async':
        pats += [(r'\bself\s*\.\s*order\s*\.\s*lock\s*\(\s*\)', lambda m: 'order', 'x', True),
                 (r'\bself\s*\.\s*cache\s*\.\s*(get_mut|get|iter|iter_mut|entry)\s*\(', lambda m: 'shard', 'x', True),
                 (r'\bself\s*\.\s*cache\s*\.\s*(contains_key|remove|insert|len|clear|is_empty|retain)\s*\(', lambda m: 'shard', 'x', False)]
    if flavour == 'registry':
        pats += [(r'\bself\s*\.\s*(%s)\s*\.\s*(read|write)\s*\(\s*\)' % '|'.join(REG_TABLES), lambda m: 'registry:' + m.group(1), None, True)]
    if flavour == 'stats_registry':
        pats += [(r'\bSTATS_REGISTRY\s*\.\s*(read|write)\s*\(\s*\)', lambda m: 'stats_registry', None, True)]
    if flavour == 'expansion':
        pats += [(r'\b(GLOBAL_OR_THREAD_CACHE_\w+)\s*\.\s*(read|write)\s*\(\s*\)', lambda m: 'map', None, True),
                 (r'\b(GLOBAL_OR_THREAD_ORDER_\w+|__ORDER_\w+)\s*\.\s*lock\s*\(\s*\)', lambda m: 'order', 'x', True),
                 (r'\b(__CACHE_\w+)\s*\.\s*(get_mut|get|iter|iter_mut|entry)\s*\(', lambda m: 'shard', 'x', True),
                 (r'\b(__CACHE_\w+)\s*\.\s*(contains_key|remove|insert|len|clear|is_empty|retain)\s*\(', lambda m: 'shard', 'x', False)]
    return [(re.compile(p), f, mode, g) for (p, f, mode, g) in pats]


def mode_of(m, mode):
    if mode:
        return mode
    return 's' if m.group(m.lastindex) == 'read' else 'x'


# ---------------------------------------------------------------------------------------------
class FnInfo:
    def __init__(self, name, body, line0, file):
        self.name, self.body, self.line0, self.file = name, body, line0, file
        self.acquires = set()      # locks acquired directly
        self.calls = set()         # self.<method> calls
        self.events = []


def block_structure(body):
    """For every offset, the list of enclosing block open offsets (innermost last)."""
    stack = []
    enclosing = {}
    i, n = 0, len(body)
    opens = {}
    while i < n:
        c = body[i]
        if c == '"':
            i = rustsrc._skip_string(body, i)
            continue
        if c == "'":
            i = rustsrc._skip_char_or_lifetime(body, i)
            continue
        if c == '{':
            stack.append(i)
        elif c == '}':
            if stack:
                opens[stack[-1]] = i
                stack.pop()
        i += 1
    return opens


def stmt_end(body, pos):
    """End offset of the statement containing pos: the next ';' at the same bracket depth, or the end of the
    block construct (if/while/match with a scrutinee) that contains pos in its header."""
    depth = 0
    i = pos
    n = len(body)
    while i < n:
        c = body[i]
        if c == '"':
            i = rustsrc._skip_string(body, i)
            continue
        if c == "'":
            i = rustsrc._skip_char_or_lifetime(body, i)
            continue
        if c in '([':
            depth += 1
        elif c in ')]':
            depth -= 1
            if depth < 0:
                return i
        elif c == '{':
            if depth <= 0:
                # a block starts before the statement ended: the acquisition is in a scrutinee / header;
                # the temporary lives to the end of the whole construct (incl. else branches)
                close = rustsrc.match_close(body, i)
                j = close + 1
                while True:
                    m = re.match(r'\s*else\s*(if\b[^{]*)?\{', body[j:])
                    if not m:
                        break
                    ob = j + m.end() - 1
                    j = rustsrc.match_close(body, ob) + 1
                return j
            i = rustsrc.match_close(body, i)
        elif c == ';' and depth <= 0:
            return i
        elif c == '}' and depth <= 0:
            return i
        i += 1
    return n


def header_is_scrutinee(body, pos):
    """True when pos lies in the header of an `if let` / `while let` / `match` / `for` (before its block)."""
    # walk back to the start of the statement
    j = pos
    depth = 0
    while j > 0:
        c = body[j - 1]
        if c in ')]':
            depth += 1
        elif c in '([':
            depth -= 1
            if depth < 0:
                break
        elif c in ';{}' and depth == 0:
            break
        j -= 1
    head = body[j:pos]
    return bool(re.search(r'\b(if\s+let|while\s+let|match|for)\b', head))


def analyse_fn(info, flavour, summaries, with_cells=False, callbacks_acquire=None):
    """Returns list of obligations: dict(kind, fn, line, held, lock, ok, text)."""
    body = info.body
    pats = acq_patterns(flavour)
    events = []  # (pos, kind, data)
    for rx, lockf, mode, guard in pats:
        for m in rx.finditer(body):
            events.append((m.start(), 'acq', dict(lock=lockf(m), mode=mode_of(m, mode), guard=guard, end=m.end(), text=m.group(0))))
    # RefCell borrows inside LocalKey::with closures (thread-local engine)
    if with_cells:
        for m in re.finditer(r'\bself\s*\.\s*(\w+)\s*\.\s*with\s*\(\s*\|\s*(\w+)\s*\|', body):
            cell, param = m.group(1), m.group(2)
            op = body.index('(', body.index('with', m.start()))
            cl = rustsrc.match_close(body, op)
            for b in re.finditer(r'\b%s\s*\.\s*(borrow_mut|borrow)\s*\(\s*\)' % re.escape(param), body[m.end():cl]):
                # innermost binding of param: skip if a nested with rebinds the same name before this use
                events.append((m.end() + b.start(), 'acq', dict(lock='cell:' + cell, mode='x' if b.group(1) == 'borrow_mut' else 's', guard=True,
                                                                end=m.end() + b.end(), text='%s.%s()' % (cell, b.group(1)))))
    for m in re.finditer(r'\bself\s*\.\s*(\w+)\s*\(', body):
        if m.group(1) in summaries:
            events.append((m.start(), 'call', dict(callee=m.group(1), text=m.group(0))))
    for m in re.finditer(r'\bSelf\s*::\s*(\w+)\s*\(', body):
        if m.group(1) in summaries:
            events.append((m.start(), 'call', dict(callee=m.group(1), text=m.group(0))))
    if callbacks_acquire is not None:
        for m in re.finditer(r'\bcallback\s*\(', body):
            events.append((m.start(), 'callback', dict(text='callback(..)')))
    for m in re.finditer(r'\bdrop\s*\(\s*(\w+)\s*\)', body):
        events.append((m.start(), 'drop', dict(name=m.group(1))))
    for m in re.finditer(r'\.\s*await\b', body):
        events.append((m.start(), 'await', dict(text='.await')))
    events.sort(key=lambda e: e[0])
    opens = block_structure(body)

    def enclosing_block_end(pos):
        best = None
        for ob, cb in opens.items():
            if ob < pos <= cb:
                if best is None or ob > best[0]:
                    best = (ob, cb)
        return best[1] if best else len(body)

    live = []  # dict(lock, mode, from, to, name)
    obligations = []
    for pos, kind, d in events:
        held = [g for g in live if g['from'] <= pos < g['to'] and not any(a <= pos < b for (a, b) in g.get('dead', []))]
        line = info.line0 + body.count('\n', 0, pos)
        if kind == 'acq':
            for g in held:
                if g['lock'].startswith('cell:') or d['lock'].startswith('cell:'):
                    if g['lock'] == d['lock'] and (g['mode'] == 'x' or d['mode'] == 'x'):
                        obligations.append(dict(kind='cell', fn=info.name, line=line, file=info.file, held=g['lock'], lock=d['lock'], ok=False,
                                                text='%s while %s (%s, line %d) is live' % (d['text'], g['text'], 'mut' if g['mode'] == 'x' else 'shared', g['line'])))
                    continue
                ok = lock_rank(g['lock']) < lock_rank(d['lock'])
                obligations.append(dict(kind='rank', fn=info.name, line=line, file=info.file, held=g['lock'], lock=d['lock'], ok=ok,
                                        held_rank=lock_rank(g['lock']), lock_rank=lock_rank(d['lock']),
                                        text='%s (rank %d) acquired while %s (rank %d, line %d) is held' % (d['lock'], lock_rank(d['lock']), g['lock'], lock_rank(g['lock']), g['line'])))
            if not held:
                obligations.append(dict(kind='rank' if not d['lock'].startswith('cell:') else 'cell', fn=info.name, line=line, file=info.file, held=None, lock=d['lock'], ok=True,
                                        held_rank=0, lock_rank=lock_rank(d['lock']) if not d['lock'].startswith('cell:') else 1,
                                        text='%s acquired with nothing held' % d['lock']))
            if d['guard']:
                # how long does the guard live?
                m = re.search(r'let\s+(?:mut\s+)?(\w+)\s*(?::[^=;]+)?=\s*$', body[:pos])
                call_end = d['end']
                if body[d['end'] - 1] == '(':
                    # pattern ended at the opening parenthesis of the call: skip its arguments
                    call_end = rustsrc.match_close(body, d['end'] - 1) + 1
                rest = body[call_end:]
                if m and re.match(r'\s*;', rest):
                    to = enclosing_block_end(pos)
                    name = m.group(1)
                elif re.search(r'if\s+let\s+[^=]*=\s*$|while\s+let\s+[^=]*=\s*$|match\s+$', body[max(0, pos - 200):pos]) or header_is_scrutinee(body, pos):
                    to = stmt_end(body, call_end)
                    name = None
                else:
                    m2 = re.search(r'let\s+(?:mut\s+)?(\w+)\s*(?::[^=;]+)?=\s*$', body[:pos])
                    to = stmt_end(body, call_end)
                    name = None
                    # (a chain that consumes the guard -- iter().map().sum(), .collect() -- ends with the statement)
                live.append(dict(lock=d['lock'], mode=d['mode'], **{'from': d['end'], 'to': to}, name=name, text=d['text'], line=line))
                # if-let binding that holds the guard: `if let Some(mut entry_ref) = self.cache.get_mut(key) {`
                mb = re.search(r'(?:if|while)\s+let\s+\w+\s*\(\s*(?:mut\s+)?(\w+)\s*\)\s*=\s*$', body[max(0, pos - 120):pos])
                if mb:
                    live[-1]['name'] = mb.group(1)
        elif kind == 'drop':
            # an explicit drop ends the guard for the rest of the block the drop stands in; after a nested
            # (conditional / diverging) block the guard may still be held on the other path, so it counts as live again
            for g in live:
                if g['name'] == d['name'] and g['from'] <= pos < g['to']:
                    g.setdefault('dead', []).append((pos, min(enclosing_block_end(pos), g['to'])))
        elif kind == 'call':
            callee = summaries[d['callee']]
            for g in held:
                for l in sorted(callee):
                    if g['lock'].startswith('cell:') or l.startswith('cell:'):
                        if g['lock'] == l.split('/')[0] and (g['mode'] == 'x' or l.endswith('/x')):
                            obligations.append(dict(kind='cell', fn=info.name, line=line, file=info.file, held=g['lock'], lock=l, ok=False,
                                                    text='call self.%s() borrows %s while %s (line %d) is live' % (d['callee'], l, g['text'], g['line'])))
                        continue
                    lk = l.split('/')[0]
                    ok = lock_rank(g['lock']) < lock_rank(lk)
                    obligations.append(dict(kind='rank', fn=info.name, line=line, file=info.file, held=g['lock'], lock=lk, ok=ok,
                                            held_rank=lock_rank(g['lock']), lock_rank=lock_rank(lk),
                                            text='call self.%s() acquires %s (rank %d) while %s (rank %d, line %d) is held' % (d['callee'], lk, lock_rank(lk), g['lock'], lock_rank(g['lock']), g['line'])))
        elif kind == 'callback':
            for g in held:
                for lk in sorted(callbacks_acquire):
                    ok = lock_rank(g['lock']) < lock_rank(lk)
                    obligations.append(dict(kind='rank', fn=info.name, line=line, file=info.file, held=g['lock'], lock=lk, ok=ok,
                                            held_rank=lock_rank(g['lock']), lock_rank=lock_rank(lk),
                                            text='registered callback acquires %s (rank %d) while %s (rank %d, line %d) is held' % (lk, lock_rank(lk), g['lock'], lock_rank(g['lock']), g['line'])))
        elif kind == 'await':
            for g in held:
                obligations.append(dict(kind='await', fn=info.name, line=line, file=info.file, held=g['lock'], lock=None, ok=False,
                                        text='%s guard (line %d) is live across .await' % (g['lock'], g['line'])))
            if not held:
                obligations.append(dict(kind='await', fn=info.name, line=line, file=info.file, held=None, lock=None, ok=True, text='no guard live at .await'))
    return obligations


def direct_acquires(info, flavour, with_cells=False):
    res = set()
    for rx, lockf, mode, guard in acq_patterns(flavour):
        for m in rx.finditer(info.body):
            res.add(lockf(m) + '/' + mode_of(m, mode))
    if with_cells:
        for m in re.finditer(r'\bself\s*\.\s*(\w+)\s*\.\s*with\s*\(\s*\|\s*(\w+)\s*\|', info.body):
            cell, param = m.group(1), m.group(2)
            op = info.body.index('(', info.body.index('with', m.start()))
            cl = rustsrc.match_close(info.body, op)
            for b in re.finditer(r'\b%s\s*\.\s*(borrow_mut|borrow)\s*\(\s*\)' % re.escape(param), info.body[m.end():cl]):
                res.add('cell:%s/%s' % (cell, 'x' if b.group(1) == 'borrow_mut' else 's'))
    return res


def impl_fns(stripped, file, type_name):
    """All fns of all `impl ... Type<..>` blocks (non-test part)."""
    cut = stripped.find('#[cfg(test)]')
    text = stripped if cut < 0 else stripped[:cut]
    fns = []
    for m in re.finditer(r'(?m)^impl\b[^{;]*\b%s\b[^{;]*\{' % re.escape(type_name), text):
        ob = m.end() - 1
        cb = rustsrc.match_close(text, ob)
        for f in re.finditer(r'\bfn\s+(\w+)\s*(?:<[^>]*>)?\s*\(', text[ob:cb]):
            try:
                fi = rustsrc.find_fn(text, f.group(1), ob + f.start() - 5 if ob + f.start() - 5 > ob else ob, cb)
            except rustsrc.ExtractError:
                continue
            if fi['sig_start'] > ob + f.start() + 10:
                continue
            body = text[fi['body_open']:fi['body_close'] + 1]
            fns.append(FnInfo(f.group(1), body, rustsrc.line_of(text, fi['body_open']), file))
    # de-duplicate by (name, line0)
    seen, out = set(), []
    for fi in fns:
        if (fi.name, fi.line0) not in seen:
            seen.add((fi.name, fi.line0))
            out.append(fi)
    return out


def free_fns(stripped, file):
    cut = stripped.find('#[cfg(test)]')
    text = stripped if cut < 0 else stripped[:cut]
    out = []
    for f in re.finditer(r'(?m)^pub\s+fn\s+(\w+)', text):
        fi = rustsrc.find_fn(text, f.group(1), f.start(), len(text))
        out.append(FnInfo(f.group(1), text[fi['body_open']:fi['body_close'] + 1], rustsrc.line_of(text, fi['body_open']), file))
    return out


def summaries_of(fns, flavour, with_cells=False):
    direct = {}
    for f in fns:
        direct.setdefault(f.name, set()).update(direct_acquires(f, flavour, with_cells))
    calls = {}
    for f in fns:
        cs = set(m.group(1) for m in re.finditer(r'\b(?:self\s*\.|Self\s*::)\s*(\w+)\s*\(', f.body))
        calls.setdefault(f.name, set()).update(c for c in cs if c in direct)
    changed = True
    while changed:
        changed = False
        for n in direct:
            for c in calls.get(n, ()):
                new = direct[c] - direct[n]
                if new:
                    direct[n] |= new
                    changed = True
    return direct


def analyse_repo(repo, expansion_text=None):
    """All lock obligations of the repository (and of the macro expansions when given)."""
    obs = []
    core = os.path.join(repo, 'cachelito-core', 'src')

    def load(name):
        return rustsrc.strip_comments(open(os.path.join(core, name)).read())

    # callbacks registered by the macros: what they acquire (from the real expansions)
    cb_acq = set()
    exp_fns = []
    if expansion_text is not None:
        exp = rustsrc.strip_comments(expansion_text)
        for m in re.finditer(r'register_(invalidation_)?callback\s*\(', exp):
            op = m.end() - 1
            cl = rustsrc.match_close(exp, op)
            closure = exp[op:cl + 1]
            name = re.search(r'"([^"]+)"', closure)
            fi = FnInfo('callback:%s%s' % ('check:' if m.group(1) else 'clear:', name.group(1) if name else '?'), closure, rustsrc.line_of(exp, op), 'expansion')
            exp_fns.append(fi)
            cb_acq |= set(l.split('/')[0] for l in direct_acquires(fi, 'expansion'))
        for m in re.finditer(r'(?m)^\s*pub\s+async\s+fn\s+(\w+)', exp):
            fi = rustsrc.find_fn(exp, m.group(1), m.start(), len(exp))
            exp_fns.append(FnInfo('async_wrapper:' + m.group(1), exp[fi['body_open']:fi['body_close'] + 1], rustsrc.line_of(exp, fi['body_open']), 'expansion'))
    else:
        cb_acq = {'map', 'order', 'shard'}

    for fname, tname, flavour, cells in [('global_cache.rs', 'GlobalCache', 'global', False),
                                         ('async_global_cache.rs', 'AsyncGlobalCache', 'async', False),
                                         ('thread_local_cache.rs', 'ThreadLocalCache', 'global', True)]:
        text = load(fname)
        fns = impl_fns(text, 'cachelito-core/src/' + fname, tname)
        summ = summaries_of(fns, flavour, cells)
        for f in fns:
            obs += analyse_fn(f, flavour, summ, with_cells=cells)
    text = load('invalidation.rs')
    fns = impl_fns(text, 'cachelito-core/src/invalidation.rs', 'InvalidationRegistry')
    summ = summaries_of(fns, 'registry')
    for f in fns:
        obs += analyse_fn(f, 'registry', summ, callbacks_acquire=cb_acq)
    text = load('stats_registry.rs')
    fns = free_fns(text, 'cachelito-core/src/stats_registry.rs')
    for f in fns:
        obs += analyse_fn(f, 'stats_registry', {})
    for f in exp_fns:
        obs += analyse_fn(f, 'expansion', {})
    return obs


def emit_verus(obs):
    """One proof fn per obligation; violated ones fail with 'postcondition not satisfied'."""
    lines = ['use vstd::prelude::*;', 'verus! {', 'pub open spec fn rank_lt(held: int, acq: int) -> bool { held < acq }',
             'pub open spec fn no_conflict(conflict: bool) -> bool { !conflict }']
    names = []
    for i, o in enumerate(obs):
        nm = 'lock_ob_%d' % i
        names.append(nm)
        if o['kind'] == 'rank':
            lines.append('// %s:%d %s: %s' % (o['file'], o['line'], o['fn'], o['text']))
            lines.append('proof fn %s() ensures rank_lt(%d, %d) {}' % (nm, o.get('held_rank', 0), o.get('lock_rank', 1)))
        else:
            lines.append('// %s:%d %s: %s' % (o['file'], o['line'], o['fn'], o['text']))
            lines.append('proof fn %s() ensures no_conflict(%s) {}' % (nm, 'false' if o['ok'] else 'true'))
    lines.append('}')
    lines.append('fn main() {}')
    return '\n'.join(lines) + '\n', names
