"""Run Verus on a generated unit and map its diagnostics back to named obligations."""
import json
import os
import re
import subprocess
import time

VERUS = os.environ.get('VERIF_VERUS', 'verus')

SEMANTIC = [
    'postcondition not satisfied', 'precondition not satisfied', 'assertion failed',
    'invariant not satisfied', 'possible arithmetic underflow/overflow', 'possible division by zero',
    'decreases not satisfied', 'loop ensures', 'unreachable', 'index out of bounds', 'possible bit shift',
    'recommendation not met', 'cannot show', 'failed', 'not satisfied',
]
RESOURCE = ['Resource limit (rlimit) exceeded', 'rlimit', 'timed out', 'timeout']


def run_verus(path, seed=0, rlimit=None, threads=8, extra=None, multiple_errors=20):
    cmd = [VERUS, path, '--error-format=json', '--output-json', '--time', '--multiple-errors', str(multiple_errors), '--num-threads', str(threads)]
    if rlimit:
        cmd += ['--rlimit', str(rlimit)]
    if seed:
        cmd += ['--smt-option', 'smt.random_seed=%d' % seed, '--smt-option', 'sat.random_seed=%d' % seed]
    if extra:
        cmd += extra
    t0 = time.time()
    p = subprocess.run(cmd, capture_output=True, text=True, cwd=os.path.dirname(path))
    wall = time.time() - t0
    diags = []
    other_stderr = []
    for line in p.stderr.splitlines():
        line = line.strip()
        if line.startswith('{'):
            try:
                diags.append(json.loads(line))
                continue
            except ValueError:
                pass
        if line:
            other_stderr.append(line)
    try:
        out = json.loads(p.stdout) if p.stdout.strip().startswith('{') else {}
    except ValueError:
        out = {}
    return dict(cmd=' '.join(cmd), rc=p.returncode, diags=diags, out=out, wall=wall, stderr=other_stderr, raw_stdout=p.stdout if not out else '')


def _enclosing_fn_name(lines, line):
    for l in range(min(line, len(lines)), 0, -1):
        m = re.search(r'\b(?:proof\s+)?fn\s+(\w+)', lines[l - 1])
        if m and not lines[l - 1].lstrip().startswith('//'):
            return m.group(1)
    return None


def classify(gen, run):
    """Returns dict(failures=[...], tool_errors=[...], verified, errors, functions={name: {...}}).
    failure: dict(kind, message, label (obligation name), fn (item label), props?, site, rendered)"""
    linemap = gen['linemap']
    failures, tool = [], []
    try:
        text_lines = open(gen['path']).read().split('\n')
    except (KeyError, OSError):
        text_lines = []

    def tag_of(line):
        if 1 <= line <= len(linemap):
            return linemap[line - 1]
        return None

    def enclosing_item(line):
        # walk upwards to the nearest spec tag carrying an item label ("item::...") or code tag
        for l in range(line, 0, -1):
            t = tag_of(l)
            if t and t[0] == 'spec' and '::' in t[1]:
                return t[1].split('::')[0] if not t[1].count('::') > 1 else '::'.join(t[1].split('::')[:-1])
        return None

    for d in run['diags']:
        lvl = d.get('level')
        msg = d.get('message', '')
        if lvl not in ('error',):
            continue
        if msg.startswith('aborting due to'):
            continue
        spans = d.get('spans', [])
        if not spans:
            if 'not all errors may have been reported' in msg:
                tool.append(dict(kind='note', message=msg))
            else:
                tool.append(dict(kind='tool', message=msg, rendered=d.get('rendered', '')))
            continue
        is_sem = any(s in msg for s in SEMANTIC) and d.get('code') is None
        is_res = any(s in msg for s in RESOURCE)
        if is_res or not is_sem:
            tool.append(dict(kind='resource' if is_res else 'rustc', message=msg, rendered=d.get('rendered', ''),
                             line=spans[0].get('line_start'), lines=[sp.get('line_start') for sp in spans]))
            continue
        # semantic failure: find the spec-labelled span (failed clause) and the code site
        label = None
        site = None
        owner = None
        for sp in spans:
            t = tag_of(sp['line_start'])
            if t is None:
                continue
            if t[0] == 'spec':
                label = t[1]
            elif t[0] == 'code':
                site = '%s:%d' % (t[1], t[2])
                if owner is None:
                    owner = _owner(linemap, sp['line_start'])
            elif t[0] == 'prelude':
                label = label or ('prelude:' + t[1] + ':' + _clause_text(sp))
        if owner is None:
            for sp in spans:
                owner = owner or _owner(linemap, sp['line_start'])
        lemma = None
        if all((tag_of(sp['line_start']) or ['x'])[0] == 'prelude' for sp in spans):
            lemma = _enclosing_fn_name(text_lines, spans[0]['line_start'])
            owner = None
        failures.append(dict(message=msg, label=label, site=site, owner=owner, rendered=d.get('rendered', ''), lemma=lemma,
                             lines=[sp['line_start'] for sp in spans]))
    # per-function results from --output-json
    funcs = {}
    try:
        for mod in run['out']['times-ms']['smt']['smt-run-module-times']:
            for fb in mod.get('function-breakdown', []):
                funcs[fb['function']] = dict(success=fb.get('success'), time_ms=fb.get('time-micros', 0) / 1000.0 if 'time-micros' in fb else fb.get('time', 0),
                                             rlimit=fb.get('rlimit'))
    except (KeyError, TypeError):
        pass
    vr = run['out'].get('verification-results', {}) if run['out'] else {}
    return dict(failures=failures, tool_errors=tool, verified=vr.get('verified'), errors=vr.get('errors'), functions=funcs,
                encountered_vir_error=vr.get('encountered-vir-error'))


def _clause_text(sp):
    try:
        return sp['text'][0]['text'].strip()
    except (KeyError, IndexError):
        return ''


def _owner(linemap, line):
    """The item (function label) whose generated text contains this line: nearest preceding '<item>::...' spec tag."""
    for l in range(line, 0, -1):
        t = linemap[l - 1] if l - 1 < len(linemap) else None
        if t and t[0] == 'spec' and '::' in t[1]:
            lab = t[1]
            # labels look like  Item::pre:x / Item::post:x / Item::loop0:inv:x / Item::hint:x / Item::end / Item::impl
            m = re.match(r'^(.*)::(pre|post|loop\d+|hint|end|impl|decreases)(:.*)?$', lab)
            if m:
                if m.group(2) == 'end':
                    # we are past the end of that item
                    return None
                return m.group(1)
    return None
