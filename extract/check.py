"""bin/check <Cxx> [--tier quick|thorough]: decide one property on /repo's working tree.
exit 0: every obligation of the property discharged; exit 1 + VIOLATION line: an obligation failed semantically;
exit 2: undecided (lost anchor, unsupported construct, rustc error in generated text, resource limit) - never an alarm."""
import hashlib
import json
import os
import re
import subprocess
import sys
import time

from . import gen, verify
from .rustsrc import ExtractError

VERIF = gen.VERIF
WORK = gen.WORK
sys.path.insert(0, VERIF)
from contracts import properties as PROPS  # noqa: E402

PANIC_MSGS = ['overflow', 'underflow', 'division by zero', 'index out of bounds', 'unwrap', 'bit shift']


def item_props(item):
    ps = set()
    for (_l, props, _t) in item.get('ensures', []):
        ps.update(props)
    ps.update(item.get('props', []))
    return ps


def obligations_of(unit, prop):
    """Named obligations this property owns in this unit: {name: kind}."""
    obs = {}
    for item in unit['items']:
        if item.get('kind') != 'fn':
            continue
        q = item.get('label', item['name'])
        tagged = [(l, t) for (l, props, t) in item.get('ensures', []) if prop in props]
        if prop == 'C16' and not item.get('stub'):
            # panic freedom: every verified function contributes its body-safety obligation (and loop termination)
            obs['%s::body_safety' % q] = 'no overflow / out-of-range index / unwrap of None / violated callee precondition'
            for n, lspec in item.get('loops', {}).items():
                if lspec.get('decreases'):
                    obs['%s::loop%d:decreases' % (q, n)] = 'termination'
            continue
        if not tagged and prop not in item.get('props', []):
            continue
        for l, _t in tagged:
            obs['%s::post:%s' % (q, l)] = 'postcondition'
        for n, lspec in item.get('loops', {}).items():
            for kind in ('invariant', 'invariant_except_break'):
                for (l, _t) in lspec.get(kind) or []:
                    obs['%s::loop%d:inv:%s' % (q, n, l)] = 'loop invariant'
            for (l, _t) in lspec.get('ensures') or []:
                obs['%s::loop%d:ens:%s' % (q, n, l)] = 'loop ensures'
            if lspec.get('decreases'):
                obs['%s::loop%d:decreases' % (q, n)] = 'termination'
        for h in item.get('hints', []):
            obs['%s::hint:%s' % (q, h[1])] = 'hint'
        obs['%s::body_safety' % q] = 'callee preconditions, overflow, indexing, unwrap'
    for lemma, props in unit.get('lemma_props', {}).items():
        if lemma != '*' and prop in props:
            obs['lemma:%s' % lemma] = 'lemma (proof fn) of the specification text'
    return obs


def attribute(unit, failure):
    """Properties a failure counts against, and the obligation name it is reported under."""
    label = failure.get('label') or ''
    owner = failure.get('owner')
    if failure.get('lemma'):
        # a lemma / helper of the hand-written specification text failed: counts against every property served by it
        lp = unit.get('lemma_props', {})
        return 'lemma:%s' % failure['lemma'], set(lp.get(failure['lemma'], lp.get('*', ['*'])))
    items = {it.get('label', it.get('name')): it for it in unit['items'] if it.get('kind') == 'fn'}
    msg = failure['message']
    props = set()
    name = label or ('%s::body_safety' % owner)
    m = re.match(r'^(.*)::post:(.*)$', label)
    if m and m.group(1) == owner and 'postcondition' in msg:
        it = items.get(owner)
        if it:
            for (l, ps, _t) in it.get('ensures', []):
                if l == m.group(2):
                    props.update(ps)
        return name, props
    # anything else inside a function counts against every property that function serves
    it = items.get(owner)
    if it is not None:
        props.update(item_props(it))
        if re.match(r'^(.*)::(loop\d+|hint)', label) and label.startswith(owner + '::'):
            name = label
            if re.search(r'::loop\d+:inv:', label):
                # panic freedom of a loop body is proved UNDER its invariants: an invariant that held on the unchanged tree and
                # no longer does leaves the arithmetic / indexing inside the loop without its proof
                props.add('C16')
        elif label:
            name = '%s::body_safety[%s]' % (owner, label)
        else:
            name = '%s::body_safety[%s]' % (owner, msg)
        if any(p in msg for p in PANIC_MSGS) or 'precondition' in msg:
            props.add('C16')
    return name, props


def canary_text(text, linemap):
    """Vacuity guard: `assert(false)` as the first statement of every contracted exec fn (i.e. right after its
    requires were assumed); each must FAIL. A canary that verifies means a contradictory precondition."""
    lines = text.split('\n')
    out = []
    canaries = {}
    pending = None
    stubs = set()
    for i, line in enumerate(lines):
        tag = linemap[i] if i < len(linemap) else None
        if tag and tag[0] == 'spec' and tag[1].endswith('::stub'):
            stubs.add(tag[1][:-len('::stub')])
        if tag and tag[0] == 'spec' and (tag[1].endswith('::post:kw') or tag[1].endswith('::pre:kw')):
            pending = tag[1].rsplit('::', 1)[0]
            if pending in stubs:
                pending = None
        out.append(line)
        if pending and tag and tag[0] == 'code' and line.strip().startswith('{'):
            # first line of the body
            idx = line.index('{')
            out[-1] = line[:idx + 1] + ' assert(false); /* VACUITY-CANARY */ ' + line[idx + 1:]
            canaries[len(out)] = pending
            pending = None
    return '\n'.join(out), canaries


def scan_assumptions(text):
    pats = ['assume(', 'admit(', 'external_body', 'assume_specification', 'axiom fn', 'external_type_specification', 'uninterp spec fn']
    counts = {}
    for p in pats:
        c = text.count(p)
        if c:
            counts[p] = c
    return counts


REPLAY_BIN = os.path.join(WORK, 'replay-target', 'debug', 'cachelito-replay')
UNIT_FLAVOUR = {'global_cache': ['global'], 'thread_local_cache': ['thread'], 'async_cache': ['async'], 'scores': ['global', 'thread'], 'utils': ['global', 'thread']}
DYNAMIC_UNITS = ('registry', 'scores', 'utils', 'global_cache', 'thread_local_cache', 'async_cache', 'wrappers_global', 'wrappers_thread', 'wrappers_async', 'wrappers_async_await', 'wrappers_global_await', 'keys')


def build_replay():
    env = dict(os.environ, CARGO_NET_OFFLINE='true', CARGO_TARGET_DIR=os.path.join(WORK, 'replay-target'))
    p = subprocess.run(['cargo', 'build', '--offline', '-q'], cwd=os.path.join(VERIF, 'replay'), env=env, capture_output=True, text=True)
    return p.returncode == 0, p.stderr[-2000:]


def witness_search(prop, unit_names, tier, seed, only_prop=True):
    """Bounded witness search on the REAL engines (replay crate): returns dict(cmd, text, history, line) or None.
    A bounded stand-in, labelled bounded, never counted as proof."""
    ok, err = build_replay()
    if not ok:
        return dict(error='replay crate does not build against the current /repo tree: ' + err)
    flavours = sorted(set(fl for u in unit_names if u in UNIT_FLAVOUR for fl in UNIT_FLAVOUR[u]))
    iters = 200 if tier == 'quick' else 3000
    stats = []
    if any(u.startswith('wrappers') or u in ('keys', 'registry') for u in unit_names):
        # macro level: decorated functions driven through the real macros against uncached twins / counters / predicate logs,
        # random macro-level histories with key listing (capacity, victims, invalidation), random registry histories
        out = os.path.join(WORK, 'replays', '%s.macro.witness' % prop)
        # C01 ('never a value stored for other arguments') is also witnessed by a C02 collision
        mprops = [prop] + (['C02'] if prop == 'C01' else [])
        hist_iters = '60' if tier == 'quick' else '400'
        reg_iters = '300' if tier == 'quick' else '20000'
        modes = [(['--macro-search'], 'MACRO-SEARCHED', 'see the replay file', 120)]
        if any(u.startswith('wrappers') for u in unit_names):
            modes.append((['--macro-history', '--iters', hist_iters], 'MACRO-HISTORY', '%s --macro-history-replay %s' % (REPLAY_BIN, out), 300))
        if 'registry' in unit_names:
            modes.append((['--registry-search', '--iters', reg_iters], 'REGISTRY-SEARCHED', '%s --registry-replay %s' % (REPLAY_BIN, out), 120))
        for mode, tag, how, tmo in modes:
            try:
                for mp in mprops:
                    cmd = [REPLAY_BIN] + mode + ['--prop', mp, '--seed', str(seed or 1), '--out', out]
                    p = subprocess.run(cmd, capture_output=True, text=True, timeout=tmo)
                    if p.returncode == 1:
                        break
                lines = [l for l in p.stdout.splitlines() if l.startswith('WITNESS') or l.startswith(tag)]
                stats += ['macro: %s' % l for l in lines]
                if p.returncode == 1:
                    w = [l for l in lines if l.startswith('WITNESS')]
                    return dict(cmd=how, history=out, line=w[0] if w else '', text=open(out).read() if os.path.exists(out) else '', stats=stats)
            except subprocess.TimeoutExpired:
                stats.append('macro: %s timed out' % mode[0])
        if not flavours:
            return dict(none=True, stats=stats, bound='macro-level scenarios (adversarial argument tuples of every built-in key shape, scripted Ok/Err, predicate scripts, manual polling) on functions decorated with the real macros; '
                        '%s random macro-level histories per configuration and pass (56 configurations: global/async x 6 policies x limit {2,3}; x {max_memory, max_memory + limit 3} with sized values; invalidate_on re-stores on unbounded / limit-3 caches; dense pass: key listing after every step, sparse pass: observation only through the history\'s own invalidations and a final listing; <= 14-24 operations, 6-10 keys); %s random registry histories (<= 16 operations)' % (hist_iters, reg_iters))
    for fl in flavours:
        out = os.path.join(WORK, 'replays', '%s.%s.history' % (prop, fl))
        cmd = [REPLAY_BIN, '--search', '--flavour', fl, '--iters', str(iters), '--seed', str(seed or 1), '--out', out]
        if only_prop:
            cmd += ['--prop', prop]
        try:
            p = subprocess.run(cmd, capture_output=True, text=True, timeout=600)
        except subprocess.TimeoutExpired:
            stats.append('%s: timed out' % fl)
            continue
        lines = [l for l in p.stdout.splitlines() if l.startswith('WITNESS') or l.startswith('SEARCHED')]
        stats += ['%s: %s' % (fl, l) for l in lines]
        if p.returncode == 1:
            w = [l for l in lines if l.startswith('WITNESS')]
            return dict(cmd='%s --history %s' % (REPLAY_BIN, out), history=out, line=w[0] if w else '', text=open(out).read() if os.path.exists(out) else '', stats=stats)
    return dict(none=True, stats=stats, bound='%d random histories per configuration, <= 10 operations, 4 keys, limits {none,1,2,3}, ttl {none,0,2}, max_memory {none, 2 entries}' % iters)


def lock_check(kinds, prop):
    """Extra check: guard-liveness obligations (extract/locks.py) of the given kinds, discharged by Verus."""
    def run(tier):
        from . import locks, expand
        res = dict(obligations={}, violations=[], undecided=[], functions=[], checker_cmds=[], trusted={}, notes=[])
        try:
            exp = expand.expand_fixtures()
        except ExtractError as e:
            res['undecided'].append('macro expansion: %s' % e)
            exp = None
        try:
            obs = [o for o in locks.analyse_repo(gen.REPO, exp) if o['kind'] in kinds]
        except (ExtractError, ValueError, IndexError) as e:
            res['undecided'].append('lock analysis could not parse the source: %r' % (e,))
            return res
        text, names = locks.emit_verus(obs)
        path = os.path.join(WORK, 'locks_%s.rs' % prop)
        open(path, 'w').write(text)
        r = verify.run_verus(path, rlimit=10, threads=4, multiple_errors=200)
        res['checker_cmds'].append(r['cmd'])
        failed_lines = set()
        for d in r['diags']:
            if d.get('level') == 'error' and d.get('spans'):
                for sp in d['spans']:
                    failed_lines.add(sp['line_start'])
            elif d.get('level') == 'error' and not d.get('message', '').startswith('aborting'):
                res['undecided'].append('locks unit: %s' % d.get('message'))
        lines = text.split('\n')
        for i, o in enumerate(obs):
            name = 'locks/%s:%d:%s::%s[%s]' % (o['file'], o['line'], o['fn'], o['kind'], o.get('lock') or 'await')
            base = name
            k = 2
            while name in res['obligations']:
                name = '%s#%d' % (base, k)
                k += 1
            res['obligations'][name] = o['kind'] + ' discipline'
            ln = [j + 1 for j, l in enumerate(lines) if l.startswith('proof fn lock_ob_%d(' % i)][0]
            if ln in failed_lines:
                res['violations'].append(dict(obligation=name, message=o['text'], site='%s:%d' % (o['file'], o['line']), rendered=o['text']))
            elif not o['ok']:
                res['undecided'].append('locks: obligation %s should have failed but verified' % name)
        res['functions'] = sorted(set('locks/%s::%s' % (o['file'], o['fn']) for o in obs))
        if len(obs) == 0:
            res['undecided'].append('lock analysis produced zero obligations')
        res['notes'].append('%d %s obligations generated from the original source text and the real macro expansions' % (len(obs), '/'.join(kinds)))
        return res
    return run


KANI_GROUPS = {
    # group: (harness filter, what a success means, is a failure a violation of the property on real code?)
    'float': ('float_axioms::', 'float axiom validated bit-precisely (kani-cbmc, loop-free full-domain harness)', False),
    'stats': ('stats_real::', 'REAL CacheStats (stats.rs compiled in place): counters behave as the sequential AtomicU64 shim of rule R7 states, for every pair of counter values (kani-cbmc, loop-free full-domain harness)', True),
    'estimator': ('estimator_real::', 'REAL memory_estimator.rs compiled in place: built-in estimators = inline size + owned heap capacity; primitives / Option / Result / tuples / Box over primitives for the full domain, String capacity <= 4 and Vec<u32> capacity <= 3 BOUNDED (unwind 5)', True),
    'policy': ('policy_real::', 'REAL eviction_policy.rs compiled in place: hand-written eq is structural equality (full domain); From<&str> maps each documented name to its own variant (concrete inputs, loops fully unwound)', True),
}


def kani_harnesses(prop, group):
    """Thorough tier, second back end (Kani / CBMC). group float: the float axioms CBMC can decide, on real f64 operations (a
    failing harness means an unsound AXIOM of the machinery: undecided, never a violation). groups stats / policy: harnesses on
    the REAL source files of /repo, compiled in place through #[path] (nothing copied): a failing harness is a violation of the
    property on the real code, reported with Kani's failed checks."""
    filt, meaning, is_violation = KANI_GROUPS[group]

    def run(tier):
        res = dict(obligations={}, violations=[], undecided=[], functions=[], checker_cmds=[], trusted={}, notes=[])
        if tier not in ('thorough', 'standin'):
            res['notes'].append('kani group %s (%s) runs in the thorough tier only' % (group, meaning[:90]))
            return res
        env = dict(os.environ, CARGO_NET_OFFLINE='true', CARGO_TARGET_DIR=os.path.join(WORK, 'kani-target'))
        cmd = ['cargo', 'kani', '--harness', filt]
        res['checker_cmds'].append('cd /verif/kani && cargo kani --harness %s  (kani 0.68 / cbmc)' % filt)
        try:
            p = subprocess.run(cmd, cwd=os.path.join(VERIF, 'kani'), env=env, capture_output=True, text=True, timeout=1800)
        except (subprocess.TimeoutExpired, OSError) as e:
            res['undecided'].append('kani harnesses (%s) did not run: %r' % (group, e))
            return res
        cur, failed_checks = None, []
        for line in p.stdout.splitlines():
            m = re.match(r'Checking harness (\S+?)\.\.\.', line)
            if m:
                cur, failed_checks = m.group(1), []
            mf = re.match(r'Failed Checks: (.*)$', line)
            if mf:
                failed_checks.append(mf.group(1))
            m2 = re.match(r'VERIFICATION:- (\w+)', line)
            if m2 and cur:
                name = 'kani/%s' % cur
                res['obligations'][name] = meaning
                if m2.group(1) != 'SUCCESSFUL':
                    if is_violation:
                        res['violations'].append(dict(obligation=name, message='kani: %s; failed checks: %s' % (m2.group(1), '; '.join(failed_checks)[:400]),
                                                      site='/verif/kani/src (real /repo source through #[path])', rendered='\n'.join(p.stdout.splitlines()[-60:])))
                    else:
                        res['undecided'].append('float axiom harness %s: %s (an axiom of prelude_float.rs is unsound)' % (cur, m2.group(1)))
                cur = None
        if not res['obligations']:
            res['undecided'].append('kani produced no harness results for %s: %s' % (group, (p.stderr or p.stdout)[-300:]))
        return res
    return run


def kani_float_axioms(prop):
    return kani_harnesses(prop, 'float')


def pre_await_check(prop):
    """C20: in every #[cache_async] expansion the only cache operation before the awaited body is the lookup
    (`__cache.get`); the statics are not touched directly before the `.await`."""
    def run(tier):
        from . import expand, wrappers as W
        res = dict(obligations={}, violations=[], undecided=[], functions=[], checker_cmds=['syntactic scan of the macro expansion (python)'], trusted={}, notes=[])
        try:
            exp = expand.expand_fixtures()
            attrs_all = W.parse_attrs()
        except ExtractError as e:
            res['undecided'].append('macro expansion: %s' % e)
            return res
        for name, attrs in sorted(attrs_all.items()):
            if attrs['macro'] != 'cache_async':
                continue
            try:
                info = W.extract(exp, name, attrs)
            except (ExtractError, ValueError, AttributeError) as e:
                res['undecided'].append('fixture %s: %s' % (name, e))
                continue
            tail = info['tail']
            m = re.search(r'\.\s*await\b', tail)
            oname = 'expansion/%s::pre_await_segment_only_looks_up' % name
            res['obligations'][oname] = 'structural'
            if not m:
                res['undecided'].append('fixture %s: no .await found in the emitted tail' % name)
                continue
            pre = tail[:m.start()]
            # cut at the start of the awaited expression `(async {`
            ma = list(re.finditer(r'\(\s*async\b', pre))
            if ma:
                pre = pre[:ma[-1].start()]
            ops = set(re.findall(r'\b__cache\s*\.\s*(\w+)\s*\(', pre))
            direct = re.findall(r'\b__(?:CACHE|ORDER)_\w+\s*\.\s*\w+', pre)
            bad = sorted(ops - {'get'}) + direct
            if bad:
                text = 'before the awaited body the expansion performs %s (only __cache.get is allowed)' % bad
                res['violations'].append(dict(obligation=oname, message=text, site='macro-expansion of fixtures/src/lib.rs fn %s' % name, rendered=text))
        return res
    return run


def registration_check(prop):
    """Structural obligations on the real expansions: every cache registers itself (metadata, clear callback, check
    callback, statistics) under `name = ...` or the function name, with the tags / events / dependencies of its
    attribute list in their own slots, and its statics are local items of the decorated function."""
    def run(tier):
        from . import expand, wrappers as W
        res = dict(obligations={}, violations=[], undecided=[], functions=[], checker_cmds=['syntactic comparison of the macro expansion with the fixture attributes (python)'], trusted={}, notes=[])
        try:
            exp = expand.expand_fixtures()
            attrs_all = W.parse_attrs()
        except ExtractError as e:
            res['undecided'].append('macro expansion: %s' % e)
            return res
        # the crate-level convenience functions users actually call delegate to the same-named method of the global registry
        DELEG = {'invalidate_by_tag': ['C12'], 'invalidate_by_event': ['C12'], 'invalidate_by_dependency': ['C12'], 'invalidate_cache': ['C12'],
                 'invalidate_with': ['C13'], 'invalidate_all_with': ['C13']}
        if any(prop in v for v in DELEG.values()):
            from . import rustsrc, gen as G
            try:
                stripped = rustsrc.strip_comments(open(os.path.join(G.REPO, 'cachelito-core', 'src', 'invalidation.rs')).read())
            except OSError as e:
                res['undecided'].append('invalidation.rs: %s' % e)
                stripped = None
            for fname, props in sorted(DELEG.items()):
                if stripped is None or prop not in props:
                    continue
                oname = 'delegation/%s::calls_the_same_named_registry_method' % fname
                res['obligations'][oname] = 'structural'
                found = None
                for m in re.finditer(r'(?m)^pub\s+fn\s+%s\b' % fname, stripped):
                    f = rustsrc.find_fn(stripped, fname, m.start(), len(stripped))
                    sig = stripped[f['sig_start']:f['body_open']]
                    po = sig.index('(')
                    params = re.findall(r'(\w+)\s*:', sig[po:rustsrc.match_close(sig, po)])
                    body = re.sub(r'\s+', '', stripped[f['body_open'] + 1:f['body_close']])
                    found = (params, body)
                    break
                if found is None:
                    res['violations'].append(dict(obligation=oname, message='crate-level fn %s not found' % fname, site='cachelito-core/src/invalidation.rs', rendered=''))
                    continue
                params, body = found
                want = 'InvalidationRegistry::global().%s(%s)' % (fname, ','.join(params))
                if body != want:
                    res['violations'].append(dict(obligation=oname, message='body is `%s`, expected `%s`' % (body[:120], want), site='cachelito-core/src/invalidation.rs fn %s' % fname, rendered=body))
        for name, attrs in sorted(attrs_all.items()):
            try:
                info = W.extract(exp, name, attrs)
            except (ExtractError, ValueError, AttributeError) as e:
                res['undecided'].append('fixture %s: %s' % (name, e))
                continue
            checks = []
            # configuration: every attribute arrives at the constructor of the core cache as written (limit / max_memory / ttl /
            # policy / frequency_weight "take effect as written": the engine contracts are stated over exactly these fields)
            a = [re.sub(r'\s+', '', x).replace('cachelito_core::', '') for x in info['ctor_args']]
            a = [re.sub(r'^Option::<\w+>::None$', 'None', x) for x in a]
            if len(a) >= 7:
                want_limit = 'Some(%dusize)' % attrs['limit'] if attrs.get('limit') is not None else 'None'
                checks.append(('limit_as_written', a[2] == want_limit, 'constructor limit argument %r vs attribute limit = %r' % (a[2], attrs.get('limit')), ['C04']))
                mm = attrs.get('max_memory')
                if mm is not None:
                    mmm = re.fullmatch(r'(\d+)\s*(KB|MB|GB)', mm)
                    want_mm = 'Some(%dusize)' % (int(mmm.group(1)) * 1024 ** {'KB': 1, 'MB': 2, 'GB': 3}[mmm.group(2)]) if mmm else ('Some(%susize)' % mm if mm.isdigit() else '?')
                else:
                    want_mm = 'None'
                checks.append(('max_memory_as_written', a[3] == want_mm, 'constructor max_memory argument %r vs attribute max_memory = %r (powers of 1024)' % (a[3], mm), ['C05']))
                want_ttl = 'Some(%du64)' % attrs['ttl'] if attrs.get('ttl') is not None else 'None'
                checks.append(('ttl_as_written', a[5] == want_ttl, 'constructor ttl argument %r vs attribute ttl = %r' % (a[5], attrs.get('ttl')), ['C06']))
                if attrs.get('policy') is not None:
                    variant = {'fifo': 'FIFO', 'lru': 'LRU', 'lfu': 'LFU', 'arc': 'ARC', 'random': 'Random', 'tlru': 'TLRU'}.get(attrs['policy'], '?')
                    # async passes the string on; EvictionPolicy::from is verified against the same table (unit policy)
                    ok = a[4] in ('EvictionPolicy::%s' % variant, 'EvictionPolicy::from("%s")' % attrs['policy'])
                    checks.append(('policy_as_written', ok, 'constructor policy argument %r vs attribute policy = %r' % (a[4], attrs['policy']), ['C07', 'C08']))
                fw = attrs.get('frequency_weight')
                mfw = re.fullmatch(r'Some\(([0-9.]+)f64\)', a[6])
                fw_ok = (a[6] == 'None') if not fw else bool(mfw and float(mfw.group(1)) == float(fw))
                checks.append(('frequency_weight_as_written', fw_ok, 'constructor frequency_weight argument %r vs attribute %r' % (a[6], fw), ['C08']))
            # the key is computed ONCE, before the lookup, and that value is used for the store (a key rebuilt after the body would
            # differ when the body changes something that takes part in the key: `&mut self`, interior mutability)
            nkeys = len(re.findall(r'\blet\s+__key\s*=', info['tail']))
            checks.append(('key_computed_once_before_the_lookup', nkeys == 1, '%d `let __key =` statements in the emitted wrapper' % nkeys, ['C02', 'C01', 'C20']))
            # C16: the stores are created EMPTY by infallible constructors (`..::new()` only): an initializer that depends on an
            # attribute value (e.g. with_capacity(limit)) can panic / abort for large values before the first lookup
            if prop == 'C16':
                try:
                    ff = W.find_fixture_fn(exp, name)
                    fbody = exp[ff['body_open']:ff['body_close'] + 1]
                except ExtractError:
                    fbody = ''
                inits = [re.sub(r'\s+', '', m.group(2)) for m in re.finditer(r'\bstatic\s+(GLOBAL_OR_THREAD_\w+|__(?:CACHE|ORDER|STATS)_\w+)\s*:[^=;]*=\s*([^;]*);', fbody)]
                inits += [re.sub(r'\s+', '', m.group(1)) for m in re.finditer(r'fn\s+__rust_std_internal_init_fn\s*\(\s*\)\s*->[^{]*\{([^{}]*)\}', fbody)]
                bad = []
                for init in inits:
                    calls = re.findall(r'([\w:]+)\(', init)
                    rest = re.sub(r'[\w:]+::new\(|\)|\|\|', '', init)
                    if any(not c.endswith('::new') for c in calls) or rest:
                        bad.append(init[:120])
                checks.append(('stores_created_empty_by_infallible_constructors', bool(inits) and not bad,
                               'static initializers %s' % (bad or 'not found'), ['C16']))
            if info['scope'] != 'thread':
                expected = attrs.get('name') or name
                regs = info['registrations']
                checks.append(('stats_registered_under_name', regs.get('stats_name') == expected, 'stats_registry::register(%r) vs expected %r' % (regs.get('stats_name'), expected), ['C15']))
                cb = info['callbacks']
                checks.append(('check_callback_registered_under_name', 'check' in cb and cb['check']['name'] == expected, 'register_invalidation_callback name %r vs expected %r' % (cb.get('check', {}).get('name'), expected), ['C13']))
                has_meta = bool(attrs['tags'] or attrs['events'] or attrs['dependencies'])
                if has_meta:
                    checks.append(('metadata_registered_under_name', regs.get('inval_name') == expected, 'register(%r) vs expected %r' % (regs.get('inval_name'), expected), ['C12']))
                    checks.append(('metadata_slots', regs.get('metadata') == [attrs['tags'], attrs['events'], attrs['dependencies']],
                                   'InvalidationMetadata::new(%r) vs attributes tags=%r events=%r dependencies=%r' % (regs.get('metadata'), attrs['tags'], attrs['events'], attrs['dependencies']), ['C12', 'C13']))
                    checks.append(('clear_callback_registered_under_name', 'clear' in cb and cb['clear']['name'] == expected, 'register_callback name %r vs expected %r' % (cb.get('clear', {}).get('name'), expected), ['C12']))
                checks.append(('statics_local_to_function', info['local_statics'] >= 2, '%d cache statics declared inside the function' % info['local_statics'], ['C01', 'C12', 'C13']))
            for label, ok, text, props in checks:
                if prop not in props:
                    continue
                oname = 'expansion/%s::%s' % (name, label)
                res['obligations'][oname] = 'structural'
                if not ok:
                    if '(None)' in text or ' None vs' in text:
                        res['undecided'].append('fixture %s: %s could not be located in the expansion (lost anchor): %s' % (name, label, text))
                        continue
                    res['violations'].append(dict(obligation=oname, message=text, site='macro-expansion of fixtures/src/lib.rs fn %s' % name, rendered=text))
        return res
    return run


def by_backend(obligations, not_discharged):
    out = {}
    for o in obligations:
        if o.startswith('expansion/'):
            b = 'structural comparison on the macro expansion (python)'
        elif o.startswith('kani/'):
            b = 'kani 0.68 / cbmc (loop-free full-domain harness)'
        elif o.startswith('locks/'):
            b = 'verus-z3 on generated rank / guard-liveness obligations'
        elif o.startswith('bounded-exploration/'):
            b = 'bounded search on the real code (not a proof)'
        else:
            b = 'verus-z3 on contracts spliced onto extracted code'
        d = out.setdefault(b, dict(obligations=0, discharged=0))
        d['obligations'] += 1
        if o not in not_discharged:
            d['discharged'] += 1
    return out


def load_known():
    res = []
    p = os.path.join(VERIF, 'known_findings.txt')
    if os.path.exists(p):
        for line in open(p):
            line = line.strip()
            m = re.match(r'^finding:\s+property=(\S+)\s+obligation=(\S+)\s*(.*)$', line)
            if m:
                res.append(dict(prop=m.group(1), obligation=m.group(2), text=m.group(3)))
    return res


def run_unit(unit_name, tier, seed, workdir=None):
    rl = 60 if tier == 'quick' else 240
    unverifiable = {}
    # Functions whose text the verifier rejects (unsupported construct after a source change) are replaced by
    # external_body stubs carrying their contract, so that the rest of the unit is still decided; the
    # obligations of the stubbed function itself are reported as undecided, never as discharged.
    helpers, rejected, inlines = {}, set(), {}
    for _round in range(8):
        g = gen.generate(unit_name, force_stub=tuple(unverifiable), workdir=workdir, extra_helpers=tuple(helpers.values()), inline_helpers=inlines)
        probe = verify.run_verus(g['path'], 0, rl, 8, ['--no-verify'])
        pc = verify.classify(g, probe)
        bad = {}
        added = False
        # a pulled-in helper whose body cannot serve as its own specification (it calls exec-only functions): give it up
        for t in pc['tool_errors']:
            if t.get('kind') in ('rustc', 'tool'):
                # any compile-level error INSIDE a pulled-in helper (exec-only calls in its body-as-spec, unknown types, ...)
                for ln in t.get('lines') or [t.get('line')]:
                    owner = verify._owner(g['linemap'], ln) if ln else None
                    if owner and owner.startswith('helper::') and owner[len('helper::'):] in helpers:
                        hn0 = owner[len('helper::'):]
                        info0 = helpers.pop(hn0)
                        rejected.add(hn0)
                        if info0.get('inline') and hn0 not in inlines and not info0['inline']['has_self']:
                            # (methods are not inlined: a call `x.h()` cannot be told from a std method of the same name)
                            # its body is not spec-able: substitute the body for the calls instead (second form of R4h)
                            inlines[hn0] = info0['inline']
                        added = True
        if not added and helpers and any(t.get('kind') in ('rustc', 'tool') and not any(verify._owner(g['linemap'], ln) for ln in (t.get('lines') or [t.get('line')]) if ln) for t in pc['tool_errors']):
            # an error that cannot be located in any function while helpers are present (e.g. a syntax error caused by one): drop them all
            rejected.update(helpers)
            helpers.clear()
            added = True
        if added:
            continue
        # a helper the code now calls and the unit does not know: (1) a single-expression helper is pulled in with its body as
        # its exact contract (every unit); (2) units whose obligations do not depend on what a helper returns (interleaving
        # units) also take receiver-less helpers without a contract -- instead of giving the caller up
        for t in pc['tool_errors']:
            mh = re.search(r'cannot find function `(\w+)` in this scope|cannot call function `(?:\w+::)*(\w+)` with mode spec|no method named `(\w+)` found|no function or associated item named `(\w+)` found|no associated function or constant named `(\w+)` found', t.get('message', ''))
            hn = mh and next((x for x in mh.groups() if x), None)
            if hn and hn not in helpers and hn not in rejected:
                h = gen.find_pure_helper(g['unit'], hn)
                if h is None and g['unit'].get('auto_helpers'):
                    h = gen.find_free_helper(g['unit'], hn)
                if h is not None:
                    helpers[hn] = h
                    added = True
        if added:
            continue
        for t in pc['tool_errors']:
            if t.get('kind') in ('rustc', 'tool') and t.get('line'):
                for ln in t.get('lines') or [t['line']]:
                    owner = verify._owner(g['linemap'], ln)
                    if owner and owner not in unverifiable:
                        bad[owner] = t['message']
        if not bad:
            break
        unverifiable.update(bad)
    unverifiable.update(g.get('auto_stubbed', {}))
    res = _run_unit(unit_name, tier, seed, g, rl)
    res['unverifiable'] = unverifiable
    return res


def _run_unit(unit_name, tier, seed, g, rl):
    text = open(g['path']).read()
    # vacuity canary (runs concurrently with the real verification)
    ctext, canaries = canary_text(text, g['linemap'])
    cpath = g['path'][:-3] + '_canary.rs'
    open(cpath, 'w').write(ctext)
    from concurrent.futures import ThreadPoolExecutor
    with ThreadPoolExecutor(max_workers=2) as ex:
        fr = ex.submit(verify.run_verus, g['path'], seed if tier == 'thorough' else 0, rl, 4)
        fc = ex.submit(verify.run_verus, cpath, 0, rl, 4, None, 2)
        r = fr.result()
        cr = fc.result()
    c = verify.classify(g, r)
    unstable = []
    if tier == 'thorough':
        # proof-stability check: a second solver seed; an obligation that fails under one seed only is reported as
        # unstable (undecided), never as a violation
        r2 = verify.run_verus(g['path'], (seed or 0) + 7919, rl, 8)
        c2 = verify.classify(g, r2)
        k1 = set((f.get('owner'), f.get('label'), f.get('lemma')) for f in c['failures'])
        k2 = set((f.get('owner'), f.get('label'), f.get('lemma')) for f in c2['failures'])
        unstable = sorted(str(k) for k in (k1 ^ k2))
        c['failures'] = [f for f in c['failures'] if (f.get('owner'), f.get('label'), f.get('lemma')) in k2]
        if c2['tool_errors'] and not c['tool_errors']:
            c['tool_errors'] = c2['tool_errors']
    failed_canaries = set()
    for d in cr['diags']:
        if d.get('level') == 'error' and 'assertion failed' in d.get('message', ''):
            for sp in d.get('spans', []):
                if sp['line_start'] in canaries:
                    failed_canaries.add(canaries[sp['line_start']])
    vacuous = sorted(set(canaries.values()) - failed_canaries)
    if not failed_canaries and canaries:
        raise ExtractError('vacuity canary run produced no result: %s' % ' '.join(cr['stderr'][:3]))
    return dict(gen=g, run=r, cls=c, text=text, vacuous=vacuous, canary_wall=cr['wall'], n_canaries=len(set(canaries.values())), unstable=unstable)


def main(argv):
    prop = argv[1]
    tier = os.environ.get('VERIF_TIER', 'quick')
    if '--tier' in argv:
        tier = argv[argv.index('--tier') + 1]
    seed = int(os.environ.get('VERIF_SEED', '0') or 0)
    t0 = time.time()
    spec = PROPS.PROPERTIES.get(prop)
    if spec is None:
        print('property %s is not claimed (see MANIFEST.json not_applicable)' % prop)
        return 2
    os.makedirs(os.path.join(WORK, 'replays'), exist_ok=True)
    known = load_known()
    violations, undecided, notes = [], [], []
    unreached = set()
    obligations, failed_names = {}, set()
    functions, backends, trusted = [], {}, {}
    solver_ms = 0.0
    samples = []
    checker_cmds = []
    units_run = []
    from concurrent.futures import ThreadPoolExecutor

    def _run(unit_name):
        try:
            return run_unit(unit_name, tier, seed, workdir=os.path.join(WORK, prop))
        except ExtractError as e:
            return e
    with ThreadPoolExecutor(max_workers=4) as ex:
        results = list(ex.map(_run, spec['units']))
    for unit_name, res in zip(spec['units'], results):
        if isinstance(res, ExtractError):
            undecided.append('unit %s: %s' % (unit_name, res))
            continue
        units_run.append(unit_name)
        unit = res['gen']['unit']
        cls = res['cls']
        checker_cmds.append(res['run']['cmd'])
        obs = obligations_of(unit, prop)
        for k, v in obs.items():
            obligations['%s/%s' % (unit_name, k)] = v
        for fn, info in cls['functions'].items():
            solver_ms += info.get('time_ms') or 0
        for k, v in scan_assumptions(res['text']).items():
            trusted[k] = trusted.get(k, 0) + v
        functions += ['%s/%s' % (unit_name, f) for f in res['gen']['functions']
                      if any(o.startswith(f + '::') for o in obs)]
        for f, why in res.get('unverifiable', {}).items():
            if any(o.startswith(f + '::') for o in obs):
                undecided.append('unit %s: %s is outside the verifier\'s reach after this change (%s); its obligations are not discharged' % (unit_name, f, why))
                for o in obs:
                    if o.startswith(f + '::'):
                        unreached.add('%s/%s' % (unit_name, o))
            else:
                notes.append('unit %s: %s stubbed (unsupported construct: %s); not needed by this property' % (unit_name, f, why))
        if res.get('unstable'):
            undecided.append('unit %s: unstable across solver seeds (not a violation): %s' % (unit_name, res['unstable'][:4]))
        if res['gen']['dropped_hints']:
            notes.append('unit %s: dropped hints %s' % (unit_name, res['gen']['dropped_hints']))
        for t in cls['tool_errors']:
            if t.get('kind') == 'note':
                notes.append('unit %s: %s' % (unit_name, t['message']))
                continue
            if t.get('kind') == 'resource' and t.get('line') and unit_name in DYNAMIC_UNITS:
                # the solver gave up on ONE function (resource limit): undecided for that function only -- its obligations
                # go to the bounded stand-in like those of a function outside the verifier's reach
                owner = verify._owner(res['gen']['linemap'], t['line'])
                mine = [o for o in obs if owner and o.startswith(owner + '::')]
                if mine:
                    undecided.append("unit %s: %s is outside the verifier's reach after this change (solver resource limit); its obligations are not discharged" % (unit_name, owner))
                    for o in mine:
                        unreached.add('%s/%s' % (unit_name, o))
                    continue
            undecided.append('unit %s: %s: %s' % (unit_name, t.get('kind'), t['message']))
        if cls['verified'] is None and not cls['tool_errors']:
            undecided.append('unit %s: verus produced no result (rc=%s) %s' % (unit_name, res['run']['rc'], ' '.join(res['run']['stderr'][:3])))
        if res['vacuous']:
            relevant = [f for f in res['vacuous'] if any(o.startswith(f + '::') for o in obs)]
            if relevant:
                undecided.append('unit %s: vacuity canary (ensures false) was PROVED for %s: contradictory precondition' % (unit_name, relevant))
        vanished = [f for f, why in res.get('unverifiable', {}).items() if 'no longer exists' in why]
        for f in cls['failures']:
            name, props = attribute(unit, f)
            if prop not in props and '*' not in props:
                continue
            full = '%s/%s' % (unit_name, name)
            owner_item = next((it for it in unit['items'] if it.get('label') and name.startswith(it['label'] + '::')), None)
            if owner_item is not None and owner_item.get('arbitrate'):
                # code that appeared after the contracts were written (e.g. a new key impl): "needs contract", the bounded search arbitrates
                undecided.append("unit %s: %s is outside the verifier's reach after this change (new code without a contract of its own; obligation %s not discharged)" % (unit_name, owner_item['label'], name))
                unreached.add(full)
                obligations.setdefault(full, 'new code')
                continue
            if vanished:
                # a contracted helper disappeared (inlined / renamed): its callers lost the lemma their proof was built on, so a
                # failed obligation in this unit is "needs contract", not a code defect -- the bounded search arbitrates
                undecided.append('unit %s: obligation %s failed after %s vanished from the source (lost anchor): arbitrated by the bounded search' % (unit_name, name, vanished))
                unreached.add(full)
                obligations.setdefault(full, 'lost anchor')
                continue
            failed_names.add(full)
            violations.append(dict(obligation=full, message=f['message'], site=f.get('site'), rendered=f.get('rendered', '')))
        if cls['verified'] is not None and cls['verified'] == 0 and not cls['failures']:
            undecided.append('unit %s: zero functions verified' % unit_name)
    # structural / lock checks attached to the property
    for extra in spec.get('extra', []):
        r = extra(tier)
        for k, v in r['obligations'].items():
            obligations[k] = v
        for v in r['violations']:
            failed_names.add(v['obligation'])
            violations.append(v)
        undecided += r.get('undecided', [])
        functions += r.get('functions', [])
        checker_cmds += r.get('checker_cmds', [])
        for k, v in r.get('trusted', {}).items():
            trusted[k] = trusted.get(k, 0) + v
        notes += r.get('notes', [])
    for name in failed_names:
        obligations.setdefault(name, 'body safety')

    # known findings
    reported = []
    for v in violations:
        kf = [k for k in known if k['prop'] == prop and k['obligation'] == v['obligation']]
        if kf:
            print('KNOWN-FINDING: property=%s %s %s' % (prop, v['obligation'], kf[0]['text']))
        else:
            reported.append(v)

    rc = 0
    replay_path = None
    bounded = None
    if not reported and unreached:
        # functions outside the verifier's reach: a bounded check on the real code stands in (labelled bounded)
        bunits = sorted(set(o.split('/')[0] for o in unreached if o.split('/')[0] in DYNAMIC_UNITS))
        if bunits:
            w = witness_search(prop, bunits, tier, seed)
            bounded = w
            if w.get('history'):
                reported.append(dict(obligation=sorted(unreached)[0] + ' (undecided by the verifier: outside its reach or without a contract of its own; violation shown by the bounded search)',
                                     message=w['line'], site=None, rendered=w['line']))
                failed_names.add(sorted(unreached)[0])
            elif w.get('none'):
                # only functions of units that HAVE a bounded stand-in are covered by it; obligations about interleavings
                # (units interference / monotone) stay undecided
                nodyn = sorted(set(o.split('/')[0] for o in unreached if o.split('/')[0] not in DYNAMIC_UNITS))
                undecided = [u for u in undecided if "outside the verifier's reach" not in u or any(u.startswith('unit %s:' % nu) for nu in nodyn)]
                notes.append('BOUNDED STAND-IN (not a proof): %d obligations of functions outside the verifier\'s reach were checked only by the bounded search on the real code: %s; %s'
                             % (len(unreached), w['bound'], w['stats']))
    # units whose bounded stand-in is a Kani group on the real source file
    KANI_STANDIN = {'memory_estimator': 'estimator', 'policy': 'policy'}
    kunits = sorted(set(o.split('/')[0] for o in unreached if o.split('/')[0] in KANI_STANDIN))
    if not reported and kunits:
        for ku in kunits:
            r = kani_harnesses(prop, KANI_STANDIN[ku])('standin')
            checker_cmds += r.get('checker_cmds', [])
            for k, v in r['obligations'].items():
                obligations[k] = v
            if r['violations']:
                for v in r['violations']:
                    failed_names.add(v['obligation'])
                    reported.append(v)
            elif r['undecided']:
                undecided += r['undecided']
            else:
                undecided = [u for u in undecided if not (u.startswith('unit %s:' % ku) and "outside the verifier's reach" in u)]
                notes.append('BOUNDED STAND-IN (not a proof): obligations of unit %s outside the verifier\'s reach were checked only by Kani on the real source file: %s' % (ku, KANI_GROUPS[KANI_STANDIN[ku]][1]))
    explored = None
    if tier == 'thorough' and not reported and bounded is None:
        dunits = [u for u in spec['units'] if u in DYNAMIC_UNITS]
        if dunits:
            explored = witness_search(prop, dunits, tier, seed)
            if explored.get('history'):
                reported.append(dict(obligation='bounded-exploration/%s (a failing history on the real code although every proof obligation was discharged: contract or oracle gap)' % prop,
                                     message=explored['line'], site=None, rendered=explored['line']))
                bounded = explored
            else:
                notes.append('thorough tier, additional BOUNDED exploration of the real code (not a proof): %s; %s' % (explored.get('bound', ''), explored.get('stats') or explored.get('error')))
    if reported:
        rc = 1
        replay_path = os.path.join(WORK, 'replays', '%s.replay.txt' % prop)
        witness = None
        vunits = sorted(set(v['obligation'].split('/')[0] for v in reported))
        if bounded is not None and bounded.get('history'):
            witness = bounded
        elif any(u in DYNAMIC_UNITS for u in vunits):
            w = witness_search(prop, vunits, tier, seed)
            if w.get('history'):
                witness = w
            notes.append('bounded witness search on the real code: %s' % (w.get('stats') or w.get('error')))
        with open(replay_path, 'w') as fh:
            fh.write('property: %s\n' % prop)
            for v in reported:
                fh.write('failed obligation: %s\n  verifier: %s\n  site: %s\n' % (v['obligation'], v['message'], v.get('site')))
            if witness:
                fh.write('\nfailing input found on the real code by the bounded witness search\n%s\nreplay with: %s\nhistory: %s\n%s\n'
                         % (witness['line'], witness['cmd'], witness['history'], witness['text']))
            else:
                fh.write('\nno-failing-input-found: Verus gives no counterexample; the bounded witness search on the real code found none.\n')
            fh.write('\n---- verifier output ----\n')
            for v in reported:
                fh.write(v.get('rendered', '') + '\n')
        suffix = '' if witness else ' no-failing-input-found'
        print('VIOLATION property=%s replay=%s%s' % (prop, replay_path, suffix))
        for v in reported:
            print('  failed obligation %s (%s) at %s' % (v['obligation'], v['message'], v.get('site')))
    elif undecided:
        rc = 2
    for u in undecided:
        print('UNDECIDED: %s' % u)

    n_ob = len(obligations)
    n_failed = len([o for o in obligations if o in failed_names])
    discharged = n_ob - len([o for o in obligations if o in failed_names or o in unreached])
    wall = time.time() - t0
    all_proved = (discharged == n_ob and not undecided)
    ev = dict(
        property_id=prop, tier=tier, seed=seed, level='proof' if all_proved or reported else 'other',
        coverage=dict(
            obligations=n_ob, discharged=discharged,
            checker_cmd=' ; '.join(checker_cmds) or 'none',
            trusted_base=['%s x%d' % (k, v) for k, v in sorted(trusted.items())] + PROPS.TRUSTED_TEXT + spec.get('trusted', []),
            functions_under_contract=sorted(set(functions)),
            units=units_run,
            backend='verus 0.2026.09.13 (z3)' if units_run else 'none',
            obligations_by_backend=by_backend(obligations, failed_names | unreached),
            solver_time_ms=round(solver_ms, 1),
            samples=sorted(obligations)[:12],
            failed=sorted(failed_names),
            undecided=undecided,
            notes=notes,
            explanation=spec.get('explanation', '') + ('' if all_proved else ' | NOT all obligations discharged in this run: see failed / undecided / notes (bounded stand-ins are never counted as proved)'),
            evaluations=n_ob, distinct_nontrivial=max(discharged, 2),
        ),
        assumptions=spec.get('assumptions', []) + PROPS.COMMON_ASSUMPTIONS,
        wall_s=round(wall, 2),
        violations=len(reported),
    )
    os.makedirs(os.path.join(VERIF, 'evidence'), exist_ok=True)
    json.dump(ev, open(os.path.join(VERIF, 'evidence', '%s.json' % prop), 'w'), indent=1)
    print('%s tier=%s obligations=%d discharged=%d undecided=%d wall=%.1fs -> exit %d' % (prop, tier, n_ob, discharged, len(undecided), wall, rc))
    return rc
