"""Unit generator: extracts items from /repo's working tree, applies the logged rewrite rules, splices
contracts / loop invariants / anchored hints, and emits one single-file Verus program per unit together
with a line map (generated line -> obligation label or repo file:line) and an audit log."""
import importlib.util
import json
import os
import re
import sys

from . import rustsrc
from .rustsrc import ExtractError
from .rules import Rule

REPO = os.environ.get('VERIF_REPO', '/repo')
VERIF = os.path.dirname(os.path.dirname(os.path.abspath(__file__)))
WORK = os.path.join(VERIF, '.work')


def load_unit(name):
    path = os.path.join(VERIF, 'contracts', 'units', name + '.py')
    spec = importlib.util.spec_from_file_location('unit_' + name, path)
    mod = importlib.util.module_from_spec(spec)
    spec.loader.exec_module(mod)
    return mod.UNIT


class NeedsStub(ExtractError):
    pass


class Seg:
    """A piece of generated text with a tag: ('code', file, src_line) or ('spec', label)."""
    def __init__(self, text, tag):
        self.text = text
        self.tag = tag


def _apply_rules(text, rules, log, base_line, item_name):
    for r in rules:
        before = len(log)
        text = r.apply(text, log, base_line)
        for e in log[before:]:
            e['item'] = item_name
    return text


LOOP_RX = re.compile(r'\b(for|while|loop)\b')


def find_loops(body):
    """Positions of loop keywords in order of appearance (literal-aware enough: bodies contain no loops in strings)."""
    res = []
    i = 0
    n = len(body)
    while i < n:
        c = body[i]
        if c == '"':
            i = rustsrc._skip_string(body, i)
            continue
        if c == "'":
            i = rustsrc._skip_char_or_lifetime(body, i)
            continue
        m = LOOP_RX.match(body, i)
        if m and (i == 0 or not (body[i - 1].isalnum() or body[i - 1] == '_')):
            kw = m.group(1)
            # opening brace of the loop body: first '{' at bracket depth 0
            j = m.end()
            while j < n:
                if body[j] in '([':
                    j = rustsrc.match_close(body, j) + 1
                    continue
                if body[j] == '{':
                    break
                j += 1
            if j >= n:
                raise ExtractError('loop without body')
            res.append(dict(kw=kw, start=i, header_end=j, close=rustsrc.match_close(body, j)))
            i = m.end()
            continue
        i += 1
    return res


def resolve_anchor(body, anchor, loops):
    """anchor: ('fn_start',) | ('fn_end',) | ('block_start', header_regex, nth) | ('block_end', header_regex, nth)
    | ('before', regex, nth) | ('after_block', header_regex, nth) | ('loop_start', n) | ('before_loop', n) | ('after_loop', n)
    Returns an insertion offset into body (body includes its outer braces)."""
    kind = anchor[0]
    if kind == 'fn_start':
        return 1
    if kind == 'fn_end':
        return len(body) - 1
    if kind in ('loop_start', 'before_loop', 'after_loop', 'loop_end'):
        n = anchor[1]
        if n >= len(loops):
            raise ExtractError('lost anchor: loop #%d' % n)
        lp = loops[n]
        return {'loop_start': lp['header_end'] + 1, 'before_loop': lp['start'], 'after_loop': lp['close'] + 1,
                'loop_end': lp['close']}[kind]
    rx = re.compile(anchor[1])
    nth = anchor[2] if len(anchor) > 2 else 0
    ms = list(rx.finditer(body))
    if nth >= len(ms):
        raise ExtractError('lost anchor: %r #%d' % (anchor[1], nth))
    m = ms[nth]
    if kind == 'before':
        # start of the line / statement containing the match
        return m.start()
    if kind == 'after':
        return m.end()
    # block anchors: the first '{' at bracket depth 0 after the header match
    j = m.end()
    while j < len(body):
        if body[j] in '([':
            j = rustsrc.match_close(body, j) + 1
            continue
        if body[j] == '{':
            break
        j += 1
    if j >= len(body):
        raise ExtractError('lost anchor: no block after %r' % anchor[1])
    close = rustsrc.match_close(body, j)
    if kind == 'block_start':
        return j + 1
    if kind == 'block_end':
        return close
    if kind == 'after_block':
        return close + 1
    raise ExtractError('unknown anchor kind %r' % (kind,))


def clause_lines(kw, clauses, prefix):
    """clauses: list of (label, text) -> list of Seg, one clause per line so that error spans map to labels."""
    segs = []
    if not clauses:
        return segs
    segs.append(Seg('    %s\n' % kw, ('spec', prefix + ':kw')))
    for label, text in clauses:
        t = ' '.join(text.split())
        segs.append(Seg('        %s,\n' % t, ('spec', prefix + ':' + label)))
    return segs


def gen_fn(item, src_text, stripped, relfile, log, dropped_hints, env):
    name = item['name']
    lo, hi = 0, len(stripped)
    impl_header = None
    if 'sig_text' in item:
        # pre-extracted text (rule R9: wrapper tails taken from the macro expansion)
        sig, body = item['sig_text'], item['body_text']
        sig_line = body_line = item.get('src_line', 1)
        qual = item.get('label', name)
        return _finish_fn(item, sig, body, sig_line, body_line, qual, None, relfile, log, dropped_hints, env)
    if item.get('impl'):
        s, ob, cb = rustsrc.find_impl(stripped, item['impl'], item.get('impl_nth', 0))
        lo, hi = ob + 1, cb
        impl_header = stripped[s:ob]
    f = rustsrc.find_fn(stripped, name, lo, hi, item.get('nth', 0))
    attrs = rustsrc.preceding_attrs(stripped, f['sig_start'])
    for a in attrs:
        a1 = re.sub(r'\s+', '', a)
        if a1 == '#[cfg(not(feature="stats"))]':
            # the baseline builds with default features (stats on): take the other twin
            f = rustsrc.find_fn(stripped, name, lo, hi, item.get('nth', 0) + 1)
    sig = stripped[f['sig_start']:f['body_open']]
    body = stripped[f['body_open']:f['body_close'] + 1]
    sig_line = rustsrc.line_of(stripped, f['sig_start'])
    body_line = rustsrc.line_of(stripped, f['body_open'])
    qual = item.get('label', name)

    return _finish_fn(item, sig, body, sig_line, body_line, qual, impl_header, relfile, log, dropped_hints, env, stripped, lo)


def _finish_fn(item, sig, body, sig_line, body_line, qual, impl_header, relfile, log, dropped_hints, env, stripped=None, lo=0):
    name = item['name']
    rules = list(item.get('rules', []))
    from . import rules as RL4
    for hname, hinfo in INLINE.items():
        try:
            body = RL4.inline_helper_calls(body, hname, hinfo['params'], hinfo['body'], hinfo['has_self'], log, body_line, qual)
        except RL4.UnsupportedConstruct as e:
            raise ExtractError('unsupported construct in %s: %s' % (qual, e))
    body = RL4.r4_option_combinators(body, log, body_line, qual, with_map=bool(item.get('option_map')))
    if item.get('engine') and item.get('r3'):
        from . import rules as RL
        try:
            body = RL.r3_with(body, log, body_line, qual, True)
        except RL.UnsupportedConstruct as e:
            raise ExtractError('unsupported construct in %s: %s' % (qual, e))
    sig = _apply_rules(sig, item.get('sig_rules', []) + rules, log, sig_line, qual)
    body = _apply_rules(body, item.get('body_rules', []) + rules, log, body_line, qual)
    if item.get('r7'):
        from . import rules as RL7
        try:
            body = RL7.r7_str_match(body, log, body_line, qual)
        except RL7.UnsupportedConstruct as e:
            raise ExtractError('unsupported construct in %s: %s' % (qual, e))
    if item.get('r6'):
        from . import rules as RL6
        body = RL6.r6_floats(body, log, body_line, qual, extra_float_vars=item.get('f64_vars', ()))
    if item.get('engine'):
        sig, body = engine_rewrite(item, sig, body, env, log, sig_line, body_line, qual)
    if impl_header is not None:
        impl_header = _apply_rules(impl_header, item.get('impl_rules', []), log, rustsrc.line_of(stripped, lo), qual)

    # R0: visibility erasure
    sig = re.sub(r'^\s*pub(\s*\([^)]*\))?\s+', '', sig)
    if not item.get('keep_private'):
        sig = 'pub ' + sig.lstrip()
    # name the return value
    ret = item.get('ret')
    if ret:
        m = re.search(r'->\s*(.+?)\s*(where\b.*)?$', sig, re.S)
        if not m:
            raise ExtractError('fn %s: no return type to name' % name)
        where = m.group(2) or ''
        sig = sig[:m.start()] + '-> (%s: %s) %s' % (ret, m.group(1).strip(), where)

    if item.get('stub'):
        body = '{ unimplemented!() }'
    # ---- body insertions (loops, hints)
    loops = find_loops(body)
    if not item.get('stub') and len(loops) != len(item.get('loops', {})):
        raise NeedsStub('%d loop(s) in the body but the contract file knows %d: a loop without invariant cannot be decided by the verifier' % (len(loops), len(item.get('loops', {}))))
    inserts = []  # (offset, order, [Seg])
    for n, lspec in sorted(item.get('loops', {}).items()):
        if n >= len(loops):
            raise ExtractError('lost anchor: fn %s loop #%d' % (name, n))
        lp = loops[n]
        segs = []
        pfx = '%s::loop%d' % (qual, n)
        segs += clause_lines('invariant_except_break', lspec.get('invariant_except_break'), pfx + ':inv')
        segs += clause_lines('invariant', lspec.get('invariant'), pfx + ':inv')
        segs += clause_lines('ensures', lspec.get('ensures'), pfx + ':ens')
        if lspec.get('decreases'):
            segs.append(Seg('    decreases %s\n' % lspec['decreases'], ('spec', pfx + ':decreases')))
        inserts.append((lp['header_end'], 0, [Seg('\n', ('spec', pfx + ':kw'))] + segs))
        if lspec.get('iter'):
            # `for PAT in EXPR` -> `for PAT in it: EXPR`
            hdr = body[lp['start']:lp['header_end']]
            m = re.match(r'for\s+(.+?)\s+in\s+', hdr, re.S)
            if not m:
                raise NeedsStub('loop #%d is no longer a for loop: the contract file has an iterator invariant for it' % n)
            inserts.append((lp['start'] + m.end(), 0, [Seg('%s: ' % lspec['iter'], ('spec', pfx + ':iter'))]))
    for h in item.get('hints', []):
        anchor, label, text = h[0], h[1], h[2]
        try:
            off = resolve_anchor(body, anchor, loops)
        except ExtractError as e:
            dropped_hints.append(dict(item=qual, hint=label, reason=str(e)))
            continue
        t = ' '.join(text.split())
        inserts.append((off, 1, [Seg('\n', ('spec', qual + '::hint:' + label)), Seg('    %s\n' % t, ('spec', qual + '::hint:' + label))]))

    segs = []
    if impl_header is not None:
        segs.append(Seg(' '.join(impl_header.split()) + ' {\n', ('spec', qual + '::impl')))
    if item.get('stub'):
        segs.append(Seg('#[verifier::external_body]\n', ('spec', qual + '::stub')))
    segs.append(Seg(sig.rstrip() + '\n', ('code', relfile, sig_line)))
    segs += clause_lines('requires', item.get('requires'), qual + '::pre')
    segs += clause_lines('ensures', [(l, t) for (l, _p, t) in item.get('ensures', [])], qual + '::post')
    if item.get('decreases'):
        segs.append(Seg('    decreases %s\n' % item['decreases'], ('spec', qual + '::decreases')))
    # body with insertions
    inserts.sort(key=lambda x: (x[0], x[1]))
    pos = 0
    cur_line = body_line
    for off, _o, isegs in inserts:
        chunk = body[pos:off]
        segs.append(Seg(chunk, ('code', relfile, cur_line)))
        cur_line += chunk.count('\n')
        segs += isegs
        pos = off
    segs.append(Seg(body[pos:], ('code', relfile, cur_line)))
    segs.append(Seg('\n', ('spec', qual + '::end')))
    if impl_header is not None:
        segs.append(Seg('}\n', ('spec', qual + '::impl')))
    return segs


def parse_fields(struct_text):
    """[(name, type)] of a (rewritten) struct definition."""
    ob = struct_text.index('{')
    inner = struct_text[ob + 1:rustsrc.match_close(struct_text, ob)]
    fields = []
    depth = 0
    cur = ''
    for ch in inner:
        if ch in '<([':
            depth += 1
        elif ch in '>)]':
            depth -= 1
        if ch == ',' and depth == 0:
            fields.append(cur)
            cur = ''
        else:
            cur += ch
    if cur.strip():
        fields.append(cur)
    res = []
    for f in fields:
        m = re.match(r'\s*(?:pub\s+)?([A-Za-z_][A-Za-z0-9_]*)\s*:\s*(.+?)\s*$', f, re.S)
        if m:
            res.append((m.group(1), ' '.join(m.group(2).split())))
    return res


def is_config_type(ty):
    return ty.startswith('Option<') or ty.startswith('Option <') or ty == 'EvictionPolicy'


def engine_rewrite(item, sig, body, env, log, sig_line, body_line, qual):
    """R1 (lock erasure on self.<field>), R2 (receiver splitting), guard-local re-borrows."""
    from . import rules as RL
    st = env['structs'][item['engine']]
    fields = [f for f, _t in st]
    ftype = dict(st)
    state = [f for f in fields if not is_config_type(ftype[f])]
    split = env['split']
    me = split.get((item['engine'], item['name']))
    guards = RL.find_guard_locals(sig + body)
    rl = []
    # calls to split helpers
    for (eng, hname), info in split.items():
        if eng != item['engine']:
            continue
        if me is not None:
            args = ', '.join((f if is_config_type(ftype[f]) else '&mut *%s' % f) for f in info['fields'])
        else:
            args = ', '.join(('self.%s' % f if is_config_type(ftype[f]) else '&mut self.%s' % f) for f in info['fields'])
        if info.get('grow'):
            args += ', g'
        rl.append(RL.R('R2.call:' + hname, r'self \. %s \( ' % hname, 'Self::%s(%s, ' % (hname, args),
                       'method call on self while a guard is live -> associated fn over the fields it uses'))
    if me is not None:
        params = ', '.join(('%s: %s' % (f, ftype[f]) if is_config_type(ftype[f]) else '%s: &mut %s' % (f, ftype[f])) for f in me['fields'])
        grow = item.get('grow')
        if grow:
            params += ', g: &mut Ghost<Set<String>>'
        rl.append(RL.R('R2.receiver', r'\( & self\b(?! \.) ,?', '(' + params + ', ', 'receiver split into the fields the body uses: ' + ', '.join(me['fields'])))
        for f in state:
            if grow and f == grow['store']:
                acq = '({ acquire(&mut *%s, g); %%s *%s })' % (f, f)
                rl.append(RL.R('R1g.acq.write:' + f, r'self \. %s \. (?:write|lock|borrow_mut) \( \)' % f, acq % '&mut', 'store acquisition: monotonicity obligation, arbitrary interference, &mut re-borrow'))
                rl.append(RL.R('R1g.acq.read:' + f, r'self \. %s \. (?:read|borrow) \( \)' % f, acq % '&', 'shared store acquisition: monotonicity obligation, arbitrary interference, & re-borrow'))
                rl.append(RL.R('R1g.dashmap:' + f, r'self \. %s \. (get_mut|get|contains_key|remove|insert|len|iter|clear) \(' % f, (acq % '&mut') + r'.\1(',
                               'every DashMap operation is a store critical section of its own: monotonicity obligation, arbitrary interference'))
                continue
            if item.get('interference') and f != 'stats':
                rl.append(RL.R('R1i.acq.write:' + f, r'self \. %s \. (?:write|lock|borrow_mut) \( \)' % f, '(havoc_mut(&mut *%s))' % f, 'interference projection: exclusive acquisition -> arbitrary change, then &mut re-borrow'))
                rl.append(RL.R('R1i.acq.read:' + f, r'self \. %s \. (?:read|borrow) \( \)' % f, '(havoc_shared(&mut *%s))' % f, 'interference projection: shared acquisition -> arbitrary change, then & re-borrow'))
                rl.append(RL.R('R1i.dashmap:' + f, r'self \. %s \. (get_mut|get|contains_key|remove|insert|len|iter|clear) \(' % f, r'havoc_mut(&mut *%s).\1(' % f, 'interference projection: every DashMap operation sees a store other threads may have changed'))
                continue
            rl.append(RL.R('R1.acq.write:' + f, r'self \. %s \. (?:write|lock|borrow_mut) \( \)' % f, '(&mut *%s)' % f, 'exclusive lock acquisition -> &mut re-borrow'))
            rl.append(RL.R('R1.acq.read:' + f, r'self \. %s \. (?:read|borrow) \( \)' % f, '(&*%s)' % f, 'shared lock acquisition -> & re-borrow'))
        for f in fields:
            rl.append(RL.R('R2.field:' + f, r'self \. %s\b' % f, f, 'self.<field> -> split parameter'))
    elif item.get('interference'):
        rl.append(RL.SELF_MUT)
        grow = item.get('grow')
        if grow:
            # R1g: ghost parameter threading + monotone-store acquisitions (rely/guarantee argument for the concurrent sentence of C03)
            rl.append(RL.R('R1g.ghost_param', r'\( &mut self\b(?! \.) ,?', '(&mut self, g: &mut Ghost<Set<String>>, ', 'ghost parameter: key set of the store at its last acquisition'))
            for callee in grow['callees']:
                rl.append(RL.R('R1g.ghost_arg:' + callee, r'self \. %s \( ' % callee, 'self.%s(g, ' % callee, 'ghost argument threaded to a callee that acquires the store'))
        for f in state:
            if f == 'stats':
                continue
            if grow and f == grow['store']:
                acq = '({ acquire(&mut self.%s, g); %%s self.%s })' % (f, f)
                rl.append(RL.R('R1g.acq.write:' + f, r'self \. %s \. (?:write|lock|borrow_mut) \( \)' % f, acq % '&mut',
                               'store acquisition: OBLIGATION the key set recorded at the previous acquisition is still contained (the critical section in between removed nothing); then arbitrary interference; then &mut borrow'))
                rl.append(RL.R('R1g.acq.read:' + f, r'self \. %s \. (?:read|borrow) \( \)' % f, acq % '&',
                               'shared store acquisition: same obligation, arbitrary interference, & borrow'))
                rl.append(RL.R('R1g.dashmap:' + f, r'self \. %s \. (get_mut|get|contains_key|remove|insert|len|iter|clear) \(' % f, (acq % '&mut') + r'.\1(',
                               'every DashMap operation is a store critical section of its own: same obligation, arbitrary interference'))
                continue
            rl.append(RL.R('R1i.acq.write:' + f, r'self \. %s \. (?:write|lock|borrow_mut) \( \)' % f, '(havoc_mut(&mut self.%s))' % f,
                           'interference projection: exclusive acquisition -> the guarded data may have changed arbitrarily, then &mut borrow'))
            rl.append(RL.R('R1i.acq.read:' + f, r'self \. %s \. (?:read|borrow) \( \)' % f, '(havoc_shared(&mut self.%s))' % f,
                           'interference projection: shared acquisition -> the guarded data may have changed arbitrarily, then & borrow'))
            rl.append(RL.R('R1i.dashmap:' + f, r'self \. %s \. (get_mut|get|contains_key|remove|insert|len|iter|clear) \(' % f, r'havoc_mut(&mut self.%s).\1(' % f,
                           'interference projection: every DashMap operation sees a store other threads may have changed'))
    else:
        rl.append(RL.SELF_MUT)
        for f in state:
            rl.append(RL.R('R1.acq.write:' + f, r'self \. %s \. (?:write|lock|borrow_mut) \( \)' % f, '(&mut self.%s)' % f, 'exclusive lock acquisition -> &mut borrow'))
            rl.append(RL.R('R1.acq.read:' + f, r'self \. %s \. (?:read|borrow) \( \)' % f, '(&self.%s)' % f, 'shared lock acquisition -> & borrow'))
    if item.get('grow'):
        rl.append(RL.R('R1g.reborrow', r'& mut (\( \{ acquire \( [^;]*; & mut [^}]*\} \))', r'\1', '&mut <store guard temporary> -> the &mut borrow itself'))
        rl.append(RL.R('R1g.reborrow_shared', r'&(?! mut) (\( \{ acquire \( [^;]*; &(?! mut) [^}]*\} \))', r'\1', '&<store guard temporary> -> the & borrow itself'))
    rl.append(RL.REBORROW)
    rl.append(RL.REBORROW_SH)
    rl += RL.guard_local_rules(guards)
    rl += [RL.CFG_STATS, RL.CRATE_PATH, RL.R1_DROP]
    sig = _apply_rules(sig, rl, log, sig_line, qual)
    body = _apply_rules(body, rl, log, body_line, qual)
    return sig, body


def compute_split(unit, load, env):
    """Field sets of the helpers that are called on self while a guard is live (computed from their bodies)."""
    split = {}
    items = [it for it in unit['items'] if it.get('kind') == 'fn' and it.get('split_self')]
    bodies = {}
    for it in items:
        src, stripped = load(it['file'])
        lo, hi = 0, len(stripped)
        if it.get('impl'):
            s_, ob, cb = rustsrc.find_impl(stripped, it['impl'], it.get('impl_nth', 0))
            lo, hi = ob + 1, cb
        try:
            f = rustsrc.find_fn(stripped, it['name'], lo, hi, it.get('nth', 0))
        except ExtractError:
            continue
        bodies[it['name']] = stripped[f['body_open']:f['body_close'] + 1]
        st = [f_ for f_, _t in env['structs'][it['engine']]]
        used = [f_ for f_ in st if f_ in it.get('split_always', ()) or re.search(r'\bself\s*\.\s*%s\b' % f_, bodies[it['name']])]
        split[(it['engine'], it['name'])] = dict(fields=used, grow=bool(it.get('grow')))
    changed = True
    while changed:
        changed = False
        for it in items:
            if it['name'] not in bodies:
                continue
            for (eng, h), info in list(split.items()):
                if eng == it['engine'] and h != it['name'] and re.search(r'\bself\s*\.\s*%s\s*\(' % h, bodies[it['name']]):
                    mine = split[(eng, it['name'])]['fields']
                    st = [f_ for f_, _t in env['structs'][eng]]
                    new = [f_ for f_ in st if f_ in mine or f_ in info['fields']]
                    if new != mine:
                        split[(eng, it['name'])]['fields'] = new
                        changed = True
    return split


def gen_typedef(item, stripped, relfile, log):
    name = item['name']
    finder = rustsrc.find_struct if item['kind'] == 'struct' else rustsrc.find_enum
    s, ob, cb = finder(stripped, name)
    text = stripped[s:cb + 1]
    line = rustsrc.line_of(stripped, s)
    text = _apply_rules(text, item.get('rules', []), log, line, name)
    # R0: every field public; cfg(feature="stats") attributes dropped (stats on in the baseline)
    text = re.sub(r'#\s*\[\s*cfg\s*\(\s*feature\s*=\s*"stats"\s*\)\s*\]', '', text)
    def pubfield(m):
        return m.group(1) + 'pub ' + m.group(2)
    if item['kind'] == 'struct':
        head, rest = text.split('{', 1)
        rest = re.sub(r'(^|[,{]\s*)(?:pub\s+)?([A-Za-z_][A-Za-z0-9_]*\s*:)', pubfield, '{' + rest)
        text = head + rest
        if not text.lstrip().startswith('pub'):
            text = 'pub ' + text.lstrip()
    derive = item.get('derive', '')
    segs = []
    if derive:
        segs.append(Seg(derive + '\n', ('spec', name + '::derive')))
    segs.append(Seg(text + '\n', ('code', relfile, line)))
    return segs


def find_free_helper(unit, name, repo=None):
    """A receiver-less helper `fn name(..)` (free function, or associated function without `self`) in one of the source files
    the unit's engine functions come from: returned as an item WITHOUT a contract (units with auto_helpers only)."""
    repo = repo or REPO
    seen = set()
    for it in unit['items']:
        f = it.get('file')
        if it.get('kind') != 'fn' or not f or f in seen or not f.endswith('.rs'):
            continue
        seen.add(f)
        try:
            stripped = rustsrc.strip_comments(open(os.path.join(repo, f)).read())
        except OSError:
            continue
        for m in re.finditer(r'\bfn\s+%s\s*(?:<[^>]*>)?\s*\(\s*([^)]*)\)' % re.escape(name), stripped):
            if re.match(r'\s*&?\s*(mut\s+)?self\b', m.group(1)):
                continue
            # enclosing impl block (if any): reuse the item whose impl contains the match
            impl = None
            for im in re.finditer(r'(?m)^impl\b[^{;]*\{', stripped):
                ob = im.end() - 1
                if ob < m.start() <= rustsrc.match_close(stripped, ob):
                    impl = '^' + re.escape(re.sub(r'\s+', ' ', im.group(0)[:-1]).strip()) + '$'
            from . import rules as RL
            d = dict(kind='fn', file=f, name=name, label='helper::%s' % name, rules=list(RL.R5), auto_helper=True)
            if impl:
                d['impl'] = impl
                donor = next((x for x in unit['items'] if x.get('kind') == 'fn' and x.get('file') == f and x.get('impl_rules')), None)
                if donor:
                    d['impl_rules'] = donor['impl_rules']
            return d
    return None


def find_pure_helper(unit, name, repo=None):
    """A helper `fn name(..) -> T { <single expression> }` (no statements: the body IS its specification) in one of the source
    files the unit draws from, or in eviction_policy.rs / cache_entry.rs: returned as an item whose contract is `r == <body>`,
    i.e. exact -- callers verify iff the helper computes what they need. A clock read (rule R5) gets `r == spec_clock_secs()`."""
    repo = repo or REPO
    files = []
    for it in unit['items']:
        f = it.get('file')
        if it.get('kind') in ('fn', 'struct', 'enum') and f and f.endswith('.rs') and f not in files:
            files.append(f)
    for f in ('cachelito-core/src/eviction_policy.rs', 'cachelito-core/src/cache_entry.rs'):
        if f not in files:
            files.append(f)
    from . import rules as RL
    for f in files:
        try:
            stripped = rustsrc.strip_comments(open(os.path.join(repo, f)).read())
        except OSError:
            continue
        for m in re.finditer(r'\bfn\s+%s\s*(?:<[^>]*>)?\s*\(' % re.escape(name), stripped):
            try:
                fn = rustsrc.find_fn(stripped, name, m.start() - 40 if m.start() > 40 else 0, len(stripped))
            except ExtractError:
                continue
            sig = stripped[fn['sig_start']:fn['body_open']]
            body = stripped[fn['body_open'] + 1:fn['body_close']].strip()
            if '->' not in sig or ';' in body or re.search(r'\blet\b|\breturn\b|\bloop\b|\bwhile\b|\bfor\b', body) or not body:
                continue
            if re.search(r'&\s*mut\s+self', sig):
                continue
            log = []
            expr = _apply_rules(body, list(RL.R5), log, 0, name)
            expr1 = ' '.join(expr.split())
            if expr1 == 'clock_now_secs()':
                spec = 'spec_clock_secs()'
            elif re.search(r'\b(clock_now_secs|rand_below)\s*\(', expr1):
                continue
            else:
                spec = expr1
            impl = None
            for im in re.finditer(r'(?m)^impl\b[^{;]*\{', stripped):
                ob = im.end() - 1
                if ob < fn['sig_start'] <= rustsrc.match_close(stripped, ob):
                    impl = '^' + re.escape(re.sub(r'\s+', ' ', im.group(0)[:-1]).strip()) + '$'
            in_trait = False
            for tm in re.finditer(r'(?m)^(?:pub\s+)?trait\b[^{;]*\{', stripped):
                ob = tm.end() - 1
                if ob < fn['sig_start'] <= rustsrc.match_close(stripped, ob):
                    in_trait = True
            if in_trait or (impl is None and re.search(r'\(\s*&?\s*self\b', sig)):
                # provided trait methods and anything with a receiver outside an inherent impl cannot be pulled in on their own
                continue
            po = sig.index('(')
            plist = [x.strip() for x in sig[po + 1:rustsrc.match_close(sig, po)].split(',') if x.strip()]
            has_self = bool(plist) and re.match(r'&?\s*self$', plist[0].replace(' ', '')) is not None
            pnames = [x.split(':')[0].strip() for x in plist if ':' in x]
            d = dict(kind='fn', file=f, name=name, label='helper::%s' % name, rules=list(RL.R5), ret='r', auto_helper=True,
                     ensures=[('is_its_body', [], 'r == (%s)' % spec)],
                     inline=dict(params=pnames, body=expr1, has_self=has_self))
            if impl:
                d['impl'] = impl
                donor = next((x for x in unit['items'] if x.get('kind') == 'fn' and x.get('file') == f and x.get('impl_rules')), None)
                if donor:
                    d['impl_rules'] = donor['impl_rules']
            return d
    return None


INLINE = {}


def generate(unit_name, repo=None, force_stub=(), workdir=None, extra_helpers=(), inline_helpers=None):
    INLINE.clear()
    INLINE.update(inline_helpers or {})
    repo = repo or REPO
    unit = load_unit(unit_name)
    if extra_helpers:
        # helpers go before the first function item (after type definitions and raw specification text)
        idx = next((i for i, it in enumerate(unit['items']) if it.get('kind') == 'fn'), len(unit['items']))
        unit = dict(unit, items=unit['items'][:idx] + list(extra_helpers) + unit['items'][idx:])
    auto_stubbed = {}
    log = []
    dropped_hints = []
    out = []  # Segs
    files = {}

    def load(rel):
        if rel not in files:
            p = os.path.join(repo, rel)
            if not os.path.exists(p):
                raise ExtractError('source file %s missing' % rel)
            src = open(p).read()
            files[rel] = (src, rustsrc.strip_comments(src))
        return files[rel]

    env = dict(structs={}, split={})
    for item in unit['items']:
        if item.get('kind') == 'struct':
            src, stripped = load(item['file'])
            segs = gen_typedef(item, stripped, item['file'], [])
            env['structs'][item['name']] = parse_fields(segs[-1].text)
    env['split'] = compute_split(unit, load, env)

    for pre in unit.get('prelude', ['prelude.rs']):
        ptxt = open(os.path.join(VERIF, 'contracts', pre)).read()
        if pre == 'prelude.rs' and unit.get('float_broadcast'):
            ptxt = ptxt.replace('/*EXTRA_BROADCAST*/', ', fl::group_float')
        out.append(Seg(ptxt, ('prelude', pre)))
    out.append(Seg('\nverus! {\n', ('spec', 'open')))
    functions = []
    for item in unit['items']:
        kind = item['kind']
        if kind == 'raw':
            txt = item['text'] if 'text' in item else open(os.path.join(VERIF, 'contracts', item['file'])).read()
            out.append(Seg(txt + '\n', ('prelude', item.get('label', 'raw'))))
            continue
        if 'sig_text' in item:
            src, stripped = '', ''
            item = dict(item, file=item.get('src_file', 'macro-expansion'))
        else:
            src, stripped = load(item['file'])
        if kind in ('struct', 'enum'):
            out += gen_typedef(item, stripped, item['file'], log)
        elif kind == 'fn':
            lbl = item.get('label', item['name'])
            if lbl in force_stub:
                item = dict(item, stub=True)
                item.pop('loops', None)
                item.pop('hints', None)
            try:
                out += gen_fn(item, src, stripped, item['file'], log, dropped_hints, env)
            except NeedsStub as e:
                # the function changed shape in a way no contract covers (e.g. a new loop without invariant): it cannot be
                # decided deductively; keep its contract as an external_body stub so that callers are still verified
                auto_stubbed[lbl] = str(e)
                item = dict(item, stub=True)
                item.pop('loops', None)
                item.pop('hints', None)
                out += gen_fn(item, src, stripped, item['file'], log, dropped_hints, env)
            except ExtractError as e:
                if 'not found' in str(e) and 'sig_text' not in item:
                    # the function no longer exists (inlined / renamed): nothing to verify, its obligations are undecided
                    auto_stubbed[lbl] = 'function no longer exists in the source: %s' % e
                    continue
                raise
            functions.append(lbl)
        else:
            raise ExtractError('unknown item kind %r' % kind)
        out.append(Seg('\n', ('spec', 'sep')))
    out.append(Seg('\n} // verus!\nfn main() {}\n', ('spec', 'close')))

    # assemble + line map
    text = ''.join(s.text for s in out)
    linemap = []
    cur = []  # tags of segments that have non-whitespace text on the current line
    for s in out:
        parts = s.text.split('\n')
        for k, part in enumerate(parts):
            if k > 0:
                linemap.append(_pick(cur))
                cur = []
            if part.strip():
                if s.tag[0] == 'code':
                    cur.append(('code', s.tag[1], s.tag[2] + k))
                else:
                    cur.append(s.tag)
    linemap.append(_pick(cur))
    wd = workdir or WORK
    os.makedirs(wd, exist_ok=True)
    base = os.path.join(wd, unit_name)
    open(base + '.rs', 'w').write(text)
    json.dump(dict(linemap=linemap, rules=log, dropped_hints=dropped_hints, functions=functions), open(base + '.map.json', 'w'))
    with open(base + '.audit.txt', 'w') as fh:
        fh.write('# rule applications for unit %s (source: %s working tree)\n' % (unit_name, repo))
        for e in log:
            fh.write('%s line %s [%s]\n    - %s\n    + %s\n' % (e.get('item'), e['line'], e['rule'], e['old'], e['new']))
        for d in dropped_hints:
            fh.write('DROPPED HINT %s::%s (%s)\n' % (d['item'], d['hint'], d['reason']))
    return dict(path=base + '.rs', linemap=linemap, rules=log, dropped_hints=dropped_hints, unit=unit, functions=functions, auto_stubbed=auto_stubbed)


def _pick(tags):
    if not tags:
        return None
    # spec tags win over code tags (an inserted clause shares no line with code by construction)
    for t in tags:
        if t[0] == 'spec':
            return list(t)
    return list(tags[0])


if __name__ == '__main__':
    r = generate(sys.argv[1])
    print(r['path'], len(r['rules']), 'rule applications;', len(r['dropped_hints']), 'dropped hints')
