"""Rewrite rules R0-R9 of DESIGN.md section 3. Every rule is a (name, regex, replacement, what-is-dropped)
tuple applied to comment-stripped source text of ONE extracted item; every application is logged with the
source line it touched. Patterns are written over tokens with optional whitespace (W) so that formatting
does not matter; line structure is preserved by re-emitting the newlines a match swallowed."""
import re

W = r'\s*'
ID = r'[A-Za-z_][A-Za-z0-9_]*'


def tokpat(s):
    """Turn a readable token pattern into a regex: single spaces become optional whitespace.
    Use double backslashes for regex specials as usual; @ID@ is an identifier."""
    s = s.replace('@ID@', ID)
    return re.sub(r' ', lambda m: W, s)


class Rule:
    def __init__(self, name, pattern, repl, drops, flags=0):
        self.name = name
        self.rx = re.compile(pattern, flags)
        self.repl = repl
        self.drops = drops

    def apply(self, text, log, base_line=1):
        def sub(m):
            new = m.expand(self.repl) if isinstance(self.repl, str) else self.repl(m)
            nl = m.group(0).count('\n') - new.count('\n')
            line = base_line + text.count('\n', 0, m.start())
            log.append(dict(rule=self.name, line=line, old=_short(m.group(0)), new=_short(new)))
            if nl > 0:
                new = new + '\n' * nl
            return new
        return self.rx.sub(sub, text)


def _short(s):
    s = re.sub(r'\s+', ' ', s).strip()
    return s if len(s) <= 160 else s[:157] + '...'


def R(name, pat, repl, drops, flags=0):
    return Rule(name, tokpat(pat), repl, drops, flags)


# ---------------------------------------------------------------------------------------------
# R1: lock erasure (sequential projection)
R1_TYPES = [
    R('R1.type.lazy_rwlock', r"& 'static Lazy < RwLock < (.*?) > > ,", r'\1,',
      'Lazy<RwLock<T>> static reference -> T (locking, laziness)', re.S),
    R('R1.type.lazy_mutex', r"& 'static Lazy < Mutex < (.*?) > > ,", r'\1,',
      'Lazy<Mutex<T>> static reference -> T', re.S),
    R('R1.type.lazy_stats', r"& 'static Lazy < CacheStats > ,", r'CacheStats,', 'Lazy<CacheStats> reference -> CacheStats'),
    R('R1.type.localkey', r"& 'static LocalKey < RefCell < (.*?) > > ,", r'\1,', 'LocalKey<RefCell<T>> -> T (thread-locality, RefCell)', re.S),
    R('R1.type.dashmap', r"& 'a DashMap < ", r'HashMap<', 'DashMap reference -> HashMap (shard locking; assumed to behave as a map for one thread)'),
    R('R1.type.mutex_ref', r"& 'a Mutex < (.*?) > ,", r'\1,', '&Mutex<T> -> T', re.S),
    R('R1.type.stats_ref', r"& 'a CacheStats ,", r'CacheStats,', '&CacheStats -> CacheStats'),
    R('R1.type.guard_param_mutex', r'MutexGuard < RawMutex , (VecDeque < String >) >', r'\1', 'guard parameter type -> guarded type'),
    R('R1.type.guard_param_rw', r'RwLockWriteGuard < (HashMap < String , CacheEntry < R > >) >', r'\1', 'guard parameter type -> guarded type'),
]


def r1_locks(fields_mut, fields_shared):
    """Lock acquisitions on self.<field>."""
    rules = []
    for f in fields_mut:
        rules.append(R('R1.acq.write:' + f, r'self \. %s \. (?:write|lock) \( \)' % f, r'(&mut self.%s)' % f,
                       'exclusive lock acquisition on %s -> &mut borrow' % f))
        rules.append(R('R1.acq.read:' + f, r'self \. %s \. read \( \)' % f, r'(&self.%s)' % f,
                       'shared lock acquisition on %s -> & borrow' % f))
    return rules


R1_DROP = R('R1.drop', r'drop \( (@ID@) \) ;', r'/* drop(\1) */;', 'explicit guard drop (guard lifetime is handled by the lock analysis)')

# ---------------------------------------------------------------------------------------------
# R4: iterator adapters -> contracted helpers
R4 = [
    R('R4.position_eq_str', r'(@ID@) \. iter \( \) \. position \( \| (@ID@) \| \2 == (@ID@) \)', r'vd_position_str(&*\1, \3)',
      'iter().position(|k| k == key) -> first index of key (std adapter, assumed contract)'),
    R('R4.position_eq_string', r'(@ID@) \. iter \( \) \. position \( \| (@ID@) \| \* \2 == (@ID@) \)', r'vd_position(&*\1, &\3)',
      'iter().position(|k| *k == key_s) -> first index of key (std adapter, assumed contract)'),
    R('R4.retain_in_field', r'(@ID@) \. retain \( \| (@ID@) \| (self \. @ID@) \. contains_key \( \2 \) \)', r'vd_retain_in(&mut *\1, &\3)',
      'retain(|k| self.m.contains_key(k)) -> keep exactly the stored keys, in order (std adapter, assumed contract)'),
    R('R4.retain_in', r'(@ID@) \. retain \( \| (@ID@) \| (@ID@) \. contains_key \( \2 \) \)', r'vd_retain_in(&mut *\1, &*\3)',
      'retain(|k| m.contains_key(k)) -> keep exactly the stored keys, in order (std adapter, assumed contract)'),
    R('R4.retain_ne_str', r'(@ID@) \. retain \( \| (@ID@) \| \2 != (@ID@) \)', r'vd_retain_ne_str(&mut *\1, \3)',
      'retain(|k| k != key) -> remove every occurrence (std adapter, assumed contract)'),
    R('R4.retain_ne_ref', r'(@ID@) \. retain \( \| (@ID@) \| \2 != & (@ID@) \)', r'vd_retain_ne(&mut *\1, &\3)',
      'retain(|k| k != &key) -> remove every occurrence (std adapter, assumed contract)'),
    R('R4.sum_values', r'(@ID@) \. values \( \) \. map \( \| (@ID@) \| \2 \. value \. estimate_memory \( \) \) \. sum :: < usize > \( \)',
      r'sum_estimates(&*\1)', 'values().map(estimate).sum() -> fold of estimates over the map (std adapters, assumed contract)'),
    R('R4.sum_dashmap', r'self \. (@ID@) \. iter \( \) \. map \( \| (@ID@) \| \2 \. value \( \) \. 0 \. estimate_memory \( \) \) \. sum \( \)',
      r'sum_estimates_a(&self.\1)', 'DashMap iter().map(estimate).sum() -> fold of estimates over the map (assumed contract)'),
    R('R4.opt_estimate', r'(@ID@|self \. @ID@ \. borrow \( \)) \. get \( & (@ID@) \) \. map \( \| (@ID@) \| \3 \. value \. estimate_memory \( \) \) \. unwrap_or \( 0 \)',
      r'opt_estimate(\1.get(&\2))', 'Option::map(estimate).unwrap_or(0) (std adapters, assumed contract)'),
    R('R4.enumerate', r'(@ID@) \. iter \( \) \. enumerate \( \)', r'enum_collect(&*\1)',
      'iter().enumerate() -> the vector of (index, &element) pairs it yields (iterator = the sequence it yields)'),
    R('R4.collect_identity', r'let (@ID@) : Vec < _ > = (@ID@) \. collect \( \) ;', r'let \1 = \2;',
      'collect() of the already collected pairs is the identity'),
]

# R5: clock / randomness
R5 = [
    R('R5.rand', r'fastrand :: usize \( \.\. (.*?) \)', r'rand_below(\1)', 'fastrand::usize(..n) -> any r < n (requires n > 0)'),
    R('R5.now_secs', r'std :: time :: SystemTime :: now \( \) \. duration_since \( std :: time :: UNIX_EPOCH \) \. unwrap \( \) \. as_secs \( \)',
      r'clock_now_secs()', 'SystemTime::now() since the epoch in whole seconds -> uninterpreted clock reading; duration_since(..).unwrap() assumed not to fail'),
]

# R6: float operators -> named ops (only applied inside the scoring helpers)
R6 = [
    R('R6.fmax_const', r'f64 :: MAX', r'f64_max()', 'f64::MAX -> named constant'),
    R('R6.as_f64', r'((?:@ID@ \. )*@ID@|\( [^()]* \)) as f64', r'to_f64(\1 as u64)', 'integer -> f64 conversion as a named op'),
]


# ---------------------------------------------------------------------------------------------
# generic clean-ups applied to every engine function
CFG_STATS = R('R0.cfg_stats', r'# \[ cfg \( feature = "stats" \) \]', r'', 'cfg(feature = "stats") attribute (the baseline builds with stats on)')
CRATE_PATH = R('R0.crate_path', r'\bcrate :: (MemoryEstimator|CacheEntry|EvictionPolicy|CacheStats)\b', r'\1', 'crate:: path prefix')
SELF_MUT = R('R1.receiver', r'\( & self\b(?! \.)', r'(&mut self', '&self -> &mut self (the lock made the mutation legal)')
REBORROW = R('R1.reborrow', r'& mut \( & mut (self \. @ID@|\* @ID@) \)', r'(&mut \1)', '&mut <guard temporary> -> the &mut borrow itself')
REBORROW_SH = R('R1.reborrow_shared', r'&(?! mut) \( & (self \. @ID@|\* @ID@) \)', r'(&\1)', '&<guard temporary> -> the & borrow itself')


def guard_local_rules(names):
    rules = []
    for x in names:
        rules.append(R('R1.guard_ref_mut:' + x, r'& mut %s\b(?! \.| \()' % x, r'&mut *%s' % x, '&mut <guard> -> &mut *<borrow>'))
        rules.append(R('R1.guard_ref:' + x, r'&(?! mut) %s\b(?! \.| \()' % x, r'&*%s' % x, '&<guard> -> &*<borrow>'))
    return rules


def find_guard_locals(text):
    """Locals bound to a lock acquisition / RefCell borrow, and parameters of guard type."""
    names = []
    for m in re.finditer(tokpat(r'let (?:mut )?(@ID@) = (?:self \. @ID@|@ID@) \. (?:lock|write|read|borrow_mut|borrow) \( \) ;'), text):
        names.append(m.group(1))
    for m in re.finditer(tokpat(r'(?:mut )?(@ID@) : & mut (?:MutexGuard|RwLockWriteGuard) <'), text):
        names.append(m.group(1))
    return sorted(set(names))


# ---------------------------------------------------------------------------------------------
# R3: LocalKey::with inlining
class UnsupportedConstruct(Exception):
    pass


def r3_with(text, log, base_line, item_name, is_tail_stmt_fn):
    """`self.F.with(|c| BODY)` -> BODY with c.borrow()/c.borrow_mut() -> self.F.borrow()/self.F.borrow_mut().
    A closure `return E;` is accepted only in the two shapes DESIGN.md R3 names."""
    from . import rustsrc
    rx = re.compile(tokpat(r'self \. (@ID@) \. with \( \| (@ID@) \| '))
    guard = 0
    while True:
        ms = list(rx.finditer(text))
        if not ms:
            return text
        guard += 1
        if guard > 200:
            raise UnsupportedConstruct('R3 did not terminate')
        # innermost-last: take the LAST match so that nested closures are inlined inside out
        m = ms[-1]
        field, param = m.group(1), m.group(2)
        open_paren = text.index('(', m.start() + len('self'))
        # find the '(' of with(
        wp = text.find('with', m.start())
        open_paren = text.index('(', wp)
        close_paren = rustsrc.match_close(text, open_paren)
        body = text[m.end():close_paren]
        is_block = body.lstrip().startswith('{')
        if is_block:
            bopen = m.end() + (len(body) - len(body.lstrip()))
            bclose = rustsrc.match_close(text, bopen)
            if text[bclose + 1:close_paren].strip():
                raise UnsupportedConstruct('R3: trailing tokens after closure block')
            inner = text[bopen:bclose + 1]
        else:
            inner = '{ ' + body + ' }'
        # closure returns
        if re.search(r'\breturn\b', inner):
            inner2 = _r3_return_to_else(inner)
            if inner2 is None:
                # `return;` inside a closure whose with-call is the tail statement of a unit function
                after = text[close_paren + 1:]
                if re.fullmatch(r'\s*;?\s*\}\s*', after) and re.search(r'\breturn\s*;', inner) and not re.search(r'\breturn\s+[^;]', inner):
                    pass  # returning from the closure == returning from the function
                else:
                    raise UnsupportedConstruct('R3: unsupported `return` inside a LocalKey::with closure')
            else:
                inner = inner2
        inner = re.sub(r'\b%s\s*\.\s*borrow_mut\s*\(\s*\)' % re.escape(param), 'self.%s.borrow_mut()' % field, inner)
        inner = re.sub(r'\b%s\s*\.\s*borrow\s*\(\s*\)' % re.escape(param), 'self.%s.borrow()' % field, inner)
        if re.search(r'\b%s\b' % re.escape(param), re.sub(r'"[^"]*"', '', inner)) and param not in ('o', 'c') :
            pass
        old = text[m.start():close_paren + 1]
        nl = old.count('\n') - inner.count('\n')
        log.append(dict(rule='R3.with_inline:' + field, line=base_line + text.count('\n', 0, m.start()), old=_short(old), new=_short(inner), item=item_name))
        text = text[:m.start()] + inner + ('\n' * nl if nl > 0 else '') + text[close_paren + 1:]


def _r3_return_to_else(block):
    """`if C { S; return E; } T`  ->  `if C { S; E } else { T }` for the innermost if that ends with a return,
    where T is the rest of the enclosing block. Returns None when the shape does not match."""
    from . import rustsrc
    m = re.search(r'\breturn\s+([^;]+);\s*\}', block)
    if not m:
        return None
    ret_expr = m.group(1)
    close_if = m.end() - 1
    # the enclosing block of that `if`: find the `{` that this `}` closes
    # walk back to find matching open brace
    depth = 0
    i = close_if
    while i >= 0:
        if block[i] == '}':
            depth += 1
        elif block[i] == '{':
            depth -= 1
            if depth == 0:
                break
        i -= 1
    if_open = i
    # the rest of the parent block after this if-block
    # parent block close: first unmatched '}' after close_if
    depth = 0
    j = close_if + 1
    while j < len(block):
        if block[j] == '{':
            depth += 1
        elif block[j] == '}':
            if depth == 0:
                break
            depth -= 1
        j += 1
    rest = block[close_if + 1:j]
    if not rest.strip() or re.search(r'\breturn\b', rest):
        return None
    new_if_body = block[if_open:m.start()] + ret_expr + ' }'
    return block[:if_open] + new_if_body + ' else { ' + rest.strip() + ' }' + block[j:]


# ---------------------------------------------------------------------------------------------
# R6: float operators -> named ops (scoring helpers only)
def r6_floats(text, log, base_line, item_name, extra_float_vars=()):
    """Rewrite f64 arithmetic into calls of named ops (to_f64, fmul, fdiv, fsub, fmin, fmax, fpowf, flt, fgt).
    Float variables are discovered to a fixpoint from their initialisers; operators are rewritten only when both
    operands are float atoms, so integer arithmetic is untouched. Anything left over is rejected by Verus
    (unsupported construct -> the function is reported as outside the verifier's reach, never silently accepted)."""
    orig = text
    fvars = set(extra_float_vars)
    FLOAT_MARK = r'(\bas\s+f64\b|\bf64\s*::\s*MAX\b|\b\d+\.\d+\b|\.\s*as_secs_f64\s*\(|\bto_f64\s*\(|\bf(?:mul|div|sub|min|max|powf)\s*\()'
    changed = True
    while changed:
        changed = False
        for m in re.finditer(r'\blet\s+(?:mut\s+)?(%s)\s*(?::\s*f64\s*)?=\s*' % ID, text):
            name = m.group(1)
            if name in fvars:
                continue
            # initialiser: up to the ';' closing this let (bracket aware)
            i = m.end()
            depth = 0
            j = i
            while j < len(text):
                c = text[j]
                if c in '([{':
                    depth += 1
                elif c in ')]}':
                    depth -= 1
                elif c == ';' and depth == 0:
                    break
                j += 1
            init = text[i:j]
            if re.search(FLOAT_MARK, init) or any(re.search(r'\b%s\b' % re.escape(v), init) for v in fvars):
                # an initialiser that is a plain integer expression mentioning no float marker is not float
                if re.search(FLOAT_MARK, init) or re.search(r'[*/]|-', init) or re.fullmatch(r'\s*%s\s*' % ID, init) or 'if' in init or 'match' in init:
                    fvars.add(name)
                    changed = True
    # 1. constants and casts
    text = re.sub(r'\bf64\s*::\s*MAX\b', 'f64_max()', text)
    text = re.sub(r'(?<![\w.])1\.0\b', 'f_one()', text)
    text = re.sub(r'(?<![\w.])0\.0\b', 'f_zero()', text)
    CALL = r'\([^()]*\)'
    for _depth in range(5):
        CALL = r'\((?:[^()]|%s)*\)' % CALL
    CALL = '(?:%s)' % CALL
    PATH = r'(?:%s(?:\s*\.\s*(?:%s|\d+)(?:\s*%s)?)*)' % (ID, ID, CALL)
    text = re.sub(r'(%s|%s)\s+as\s+f64\b' % (PATH, CALL), lambda m: 'to_f64(%s as u64)' % m.group(1), text)
    text = re.sub(r'(%s)\s*\.\s*as_secs_f64\s*\(\s*\)' % PATH, lambda m: 'dur_as_secs_f64(%s)' % m.group(1), text)
    # 2. binary operators / methods on float atoms, to a fixpoint
    fv = '|'.join(sorted(map(re.escape, fvars), key=len, reverse=True)) or r'\b\B'
    FCALL = r'(?:(?:to_f64|fmul|fdiv|fsub|fmin|fmax|fpowf|f64_max|f_one|f_zero|dur_as_secs_f64)\s*%s)' % CALL
    ATOM = r'(?:%s|(?<![\w.])(?:%s)\b(?!\s*[.(])|%s)' % (FCALL, fv, CALL)
    def is_float_atom(a):
        a = a.strip()
        if re.fullmatch(FCALL, a) or re.fullmatch(r'(?:%s)' % fv, a):
            return True
        if a.startswith('(') and a.endswith(')'):
            inner = a[1:-1]
            return bool(re.search(r'\b(?:to_f64|fmul|fdiv|fsub|fmin|fmax|fpowf|f_one|f_zero|f64_max|dur_as_secs_f64)\s*\(', inner) or re.search(r'\b(?:%s)\b' % fv, inner))
        return False
    for _ in range(200):
        before = text
        # methods first (highest precedence)
        ATOM_M = r'(?:%s|(?<![\w.])(?:%s)\b|%s)' % (FCALL, fv, CALL)
        # the first method call on a FLOAT atom (integer `.min(..)` / `.max(..)` calls earlier in the text are skipped)
        m = next((mm for mm in re.finditer(r'(%s)\s*\.\s*(min|max|powf)\s*(%s)' % (ATOM_M, CALL), text) if is_float_atom(mm.group(1))), None)
        if m:
            arg = m.group(3)[1:-1]
            text = text[:m.start()] + 'f%s(%s, %s)' % (m.group(2), _unparen(m.group(1)), arg.strip()) + text[m.end():]
            continue
        done = False
        for ops, names in ((r'[*/]', {'*': 'fmul', '/': 'fdiv'}), (r'-', {'-': 'fsub'}), (r'[<>]', {'<': 'flt', '>': 'fgt'})):
            for m in re.finditer(r'(%s)\s*(%s)(?![=>])\s*(%s)' % (ATOM, ops, ATOM), text):
                if is_float_atom(m.group(1)) and is_float_atom(m.group(3)):
                    # do not split a larger product on the right of a lower-precedence operator
                    text = text[:m.start()] + '%s(%s, %s)' % (names[m.group(2)], _unparen(m.group(1)), _unparen(m.group(3))) + text[m.end():]
                    done = True
                    break
            if done:
                break
        if text == before:
            break
    if text != orig:
        log.append(dict(rule='R6.floats', line=base_line, old='f64 arithmetic on {%s}' % ', '.join(sorted(fvars)), new='named float ops (to_f64/fmul/fdiv/fsub/fmin/fmax/fpowf/flt/fgt)', item=item_name))
    return text


def _unparen(a):
    a = a.strip()
    if a.startswith('(') and a.endswith(')'):
        # only strip when the parentheses enclose the whole atom
        depth = 0
        for i, c in enumerate(a):
            if c == '(':
                depth += 1
            elif c == ')':
                depth -= 1
                if depth == 0 and i != len(a) - 1:
                    return a
        return a[1:-1].strip()
    return a


def r7_str_match(text, log, base_line, item_name):
    """R7: `match <scrutinee> { "lit" => E, .. , _ => D }` on string slices -> if-chain over `str_is(&tmp, "lit")`
    (assumed contract: == on str compares the character sequences); `x.to_lowercase().as_str()` -> `str_lower(x)` (assumed:
    the std lowercase mapping, uninterpreted). Arms keep their order; alternatives `"a" | "b"` become a disjunction."""
    from . import rustsrc
    out, pos, n = '', 0, 0
    while True:
        m = re.search(r'\bmatch\s+([^{};]+?)\s*\{\s*"', text[pos:])
        if not m:
            break
        ob = pos + m.end() - 1
        ob = text.rindex('{', pos + m.start(), ob + 1)
        cb = rustsrc.match_close(text, ob)
        arms_text = text[ob + 1:cb]
        arms = []
        for am in re.finditer(r'((?:"[^"]*"\s*\|\s*)*"[^"]*"|_)\s*=>\s*([^,]+?)\s*(?:,|$)', arms_text.strip()):
            arms.append((am.group(1), am.group(2).strip()))
        if not arms or arms[-1][0] != '_':
            raise UnsupportedConstruct('string match without a final wildcard arm')
        scrut = m.group(1).strip()
        # the scrutinee as an owned-or-borrowed string value: `.as_str()` dropped (str_is takes anything with a string view)
        scrut2 = re.sub(r'\s*\.\s*as_str\s*\(\s*\)\s*$', '', scrut)
        chain = '{ let __m = &%s; ' % scrut2
        for i, (pat, expr) in enumerate(arms[:-1]):
            cond = ' || '.join('str_is(__m, %s)' % lit.strip() for lit in pat.split('|'))
            chain += ('if ' if i == 0 else ' else if ') + cond + ' { ' + expr + ' }'
        chain += ' else { ' + arms[-1][1] + ' } }'
        log.append(dict(rule='R7.str_match', line=base_line + text.count('\n', 0, pos + m.start()), old=_short(text[pos + m.start():cb + 1]), new=_short(chain), item=item_name))
        out += text[pos:pos + m.start()] + chain
        pos = cb + 1
        n += 1
    res = out + text[pos:]
    res2 = re.sub(r'(\w+)\s*\.\s*to_lowercase\s*\(\s*\)', r'str_lower(\1)', res)
    if res2 != res:
        log.append(dict(rule='R7.to_lowercase', line=base_line, old='x.to_lowercase()', new='str_lower(x)', item=item_name))
    return res2


def _receiver_start(text, dot):
    """Start offset of the postfix-expression chain that ends right before text[dot] == '.'"""
    i = dot
    while i > 0:
        j = i - 1
        while j >= 0 and text[j].isspace():
            j -= 1
        if j < 0:
            break
        c = text[j]
        if c in ')]':
            # jump to the matching opener
            depth, k = 0, j
            while k >= 0:
                if text[k] in ')]':
                    depth += 1
                elif text[k] in '([':
                    depth -= 1
                    if depth == 0:
                        break
                k -= 1
            if k < 0:
                break
            i = k
            continue
        if c.isalnum() or c == '_':
            k = j
            while k >= 0 and (text[k].isalnum() or text[k] == '_'):
                k -= 1
            word = text[k + 1:j + 1]
            if word in ('return', 'if', 'else', 'match', 'in', 'let', 'mut', 'while', 'break'):
                break
            i = k + 1
            continue
        if c == '.':
            i = j
            continue
        if c == ':' and j > 0 and text[j - 1] == ':':
            i = j - 1
            continue
        if c == '?':
            i = j
            continue
        break
    return i


def r4_option_combinators(text, log, base_line, item_name, with_map=False):
    """R4o: closure-taking Option combinators -> the `match` they abbreviate (semantics preserving; closures without
    `return` / `?`):  X.map_or(D, |v| E) -> match X { Some(v) => E, None => D };  X.is_some_and(|v| E) -> .. None => false;
    X.map(|v| E).unwrap_or(D) -> match X { Some(v) => E, None => D }."""
    from . import rustsrc
    for _round in range(20):
        m = re.search(r'\.\s*(map_or|is_some_and|is_none_or)\s*\(', text)
        if not m and with_map:
            # Option::map only where the receiver is visibly an Option: `<map>.get(k).map(|v| E)` (iterator `.map` is left alone)
            for mm in re.finditer(r'\.\s*(map)\s*\(\s*\|', text):
                pre = text[:mm.start()].rstrip()
                if pre.endswith(')'):
                    depth, k = 0, len(pre) - 1
                    while k >= 0:
                        if pre[k] == ')':
                            depth += 1
                        elif pre[k] == '(':
                            depth -= 1
                            if depth == 0:
                                break
                        k -= 1
                    if k > 0 and re.search(r'\.\s*get\s*$', pre[:k]):
                        m = re.match(r'\.\s*(map)\s*\(', text[mm.start():])
                        m = type('M', (), dict(start=lambda self, s=mm.start(): s, end=lambda self, e=mm.start() + m.end(): e, group=lambda self, i, g=m: g.group(i)))()
                        break
        if not m:
            break
        op = m.end() - 1
        cl = rustsrc.match_close(text, op)
        inner = text[op + 1:cl]
        kind = m.group(1)
        if kind == 'map_or':
            # split default , closure at depth 0
            depth, cut = 0, None
            for idx, ch in enumerate(inner):
                if ch in '([{':
                    depth += 1
                elif ch in ')]}':
                    depth -= 1
                elif ch == ',' and depth == 0:
                    cut = idx
                    break
            if cut is None:
                break
            default, clos = inner[:cut].strip(), inner[cut + 1:].strip()
        elif kind == 'map':
            default, clos = 'None', inner.strip()
        else:
            default, clos = ('false' if kind == 'is_some_and' else 'true'), inner.strip()
        mc = re.match(r'\|\s*([^|]*?)\s*\|\s*(.*)$', clos, re.S)
        if not mc:
            break
        pat, body = mc.group(1), mc.group(2).strip().rstrip(',').strip()
        if re.search(r'\breturn\b|\?', body):
            break
        start = _receiver_start(text, m.start())
        recv = text[start:m.start()].strip()
        if not recv:
            break
        new = '(match %s { Some(%s) => %s, None => %s })' % (recv, pat, ('Some(%s)' % body) if kind == 'map' else body, default)
        log.append(dict(rule='R4o.' + kind, line=base_line + text.count('\n', 0, start), old=_short(text[start:cl + 1]), new=_short(new), item=item_name))
        # keep the line structure
        nl = text.count('\n', start, cl + 1)
        text = text[:start] + new + '\n' * nl + text[cl + 1:]
    return text


def inline_helper_calls(text, name, params, body, has_self, log, base_line, item_name):
    """R4h (second form): calls of a single-expression helper whose body cannot serve as a specification are replaced by the
    body itself, parameters bound by `let` (arguments are still evaluated exactly once, in order): `Self::h(a, b)` / `h(a, b)`
    -> `({ let p1 = a; let p2 = b; BODY })`;  `recv.h(a)` -> `({ let __h_self = &recv; let p1 = a; BODY[self := __h_self] })`."""
    from . import rustsrc
    for _round in range(40):
        m = None
        for mm in re.finditer(r'(?:\bSelf\s*::\s*|\.\s*)?\b%s\s*\(' % re.escape(name), text):
            pre = text[max(0, mm.start() - 4):mm.start()]
            if re.search(r'fn\s*$', pre):
                continue
            m = mm
            break
        if not m:
            break
        op = m.end() - 1
        cl = rustsrc.match_close(text, op)
        args, depth, cur = [], 0, ''
        for ch in text[op + 1:cl]:
            if ch in '([{':
                depth += 1
            elif ch in ')]}':
                depth -= 1
            if ch == ',' and depth == 0:
                args.append(cur.strip())
                cur = ''
            else:
                cur += ch
        if cur.strip():
            args.append(cur.strip())
        is_method = m.group(0).lstrip().startswith('.')
        if is_method != has_self or len(args) != len(params):
            raise UnsupportedConstruct('call of helper %s does not match its signature' % name)
        start = m.start()
        lets = ''
        b = body
        if is_method:
            start = _receiver_start(text, m.start())
            recv = text[start:m.start()].strip()
            lets += 'let __h_self = &(%s); ' % recv
            b = re.sub(r'\bself\b', '__h_self', b)
        for pn, a in zip(params, args):
            lets += 'let %s = %s; ' % (pn, a)
        new = '({ ' + lets + b + ' })'
        log.append(dict(rule='R4h.inline:' + name, line=base_line + text.count('\n', 0, start), old=_short(text[start:cl + 1]), new=_short(new), item=item_name))
        nl = text.count('\n', start, cl + 1)
        text = text[:start] + new + '\n' * nl + text[cl + 1:]
    return text
