// PRELUDE — hand-written specification vocabulary, axioms and assumed contracts (DESIGN.md sections 4, 5).
// Nothing in this file is cachelito code. Every `axiom`, `assume_specification` and `external_body` item
// here is an ASSUMPTION about std / dependencies / machine arithmetic; the assumption scan lists them in
// every evidence file. Spliced before the mechanically extracted functions of each unit.
#![feature(allocator_api)]
#![allow(unused_imports, unused_variables, unused_mut, dead_code, unused_parens, unused_braces, unused_assignments, non_snake_case)]
use vstd::prelude::*;
use vstd::std_specs::hash::*;
use std::collections::{HashMap, HashSet, VecDeque};
use std::time::Instant;
use std::fmt::Debug;
use vstd::std_specs::iter::IteratorSpec;

verus! {

// ------------------------------------------------------------------------------------------------
// Assumptions about String as a hash key and about &str-borrowed lookups (vstd ships these only for
// primitive key types).
pub mod ax {
    use vstd::prelude::*;
    use vstd::std_specs::hash::*;

    pub broadcast axiom fn axiom_string_obeys_key_model()
        ensures #[trigger] obeys_key_model::<String>();

    /// The String with the same characters as a &str (what `to_string()` returns).
    pub uninterp spec fn s2s(k: &str) -> String;

    pub broadcast axiom fn axiom_s2s(k: &str)
        ensures (#[trigger] s2s(k))@ == k@;

    pub broadcast axiom fn axiom_string_ext(a: String, b: String)
        ensures #[trigger] a@ == #[trigger] b@ ==> a == b;

    pub broadcast axiom fn axiom_str_contains<V>(m: Map<String, V>, k: &str)
        ensures #[trigger] contains_borrowed_key::<String, V, str>(m, k) <==> m.contains_key(s2s(k));

    pub broadcast axiom fn axiom_str_maps<V>(m: Map<String, V>, k: &str, v: V)
        ensures #[trigger] maps_borrowed_key_to_value::<String, V, str>(m, k, v) <==> (m.contains_key(s2s(k)) && m[s2s(k)] == v);

    pub broadcast axiom fn axiom_str_removed<V>(old: Map<String, V>, new: Map<String, V>, k: &str)
        ensures #[trigger] borrowed_key_removed::<String, V, str>(old, new, k) <==> new == old.remove(s2s(k));

    /// `b` is `a` with (at most) the value under the borrowed key k changed (frame of HashMap::get_mut).
    pub uninterp spec fn only_key_mutated<K, V, Q: ?Sized>(a: Map<K, V>, b: Map<K, V>, k: &Q) -> bool;

    pub broadcast axiom fn axiom_str_only_key_mutated<V>(a: Map<String, V>, b: Map<String, V>, k: &str)
        ensures #[trigger] only_key_mutated::<String, V, str>(a, b, k) <==>
            (b.dom() == a.dom() && forall|x: String| x != s2s(k) && a.contains_key(x) ==> #[trigger] b[x] == a[x]);

    pub broadcast group group_string_keys {
        axiom_string_obeys_key_model, axiom_s2s, axiom_string_ext, axiom_str_contains, axiom_str_maps, axiom_str_removed,
        axiom_str_only_key_mutated,
    }
}
pub use ax::{s2s, only_key_mutated};

// ------------------------------------------------------------------------------------------------
// Specification vocabulary
pub mod sp {
    use vstd::prelude::*;

    /// Assumed contract of user (and built-in) estimators: a pure function of the value.
    pub trait MemoryEstimator {
        spec fn mem(&self) -> nat;
        fn estimate_memory(&self) -> (r: usize)
            ensures r == self.mem();
    }

    /// `Clone` of a cached value yields an equal value (assumed contract on R: Clone).
    pub uninterp spec fn clone_of<R>(orig: R, copy: R) -> bool;
    pub broadcast axiom fn axiom_clone_of<R>(orig: R, copy: R)
        ensures #[trigger] clone_of(orig, copy) ==> copy == orig;

    /// First position of k in s.
    pub open spec fn is_first(s: Seq<String>, k: String, p: int) -> bool {
        0 <= p < s.len() && s[p] == k && forall|j: int| 0 <= j < p ==> s[j] != k
    }
    pub open spec fn first_pos(s: Seq<String>, k: String) -> int {
        choose|p: int| is_first(s, k, p)
    }
    /// s without the first occurrence of k (all occurrences when s has no duplicates).
    /// Opaque: its definition mentions `remove`, which the lemma b_nodup_pos maps back to rm1 (a matching loop if unfolded freely).
    #[verifier::opaque]
    pub open spec fn rm1(s: Seq<String>, k: String) -> Seq<String> {
        if s.contains(k) { s.remove(first_pos(s, k)) } else { s }
    }
    /// recency refresh: k moved to the back
    pub open spec fn touch(s: Seq<String>, k: String) -> Seq<String> {
        rm1(s, k).push(k)
    }
    /// s without any occurrence of k
    pub open spec fn rm_all(s: Seq<String>, k: String) -> Seq<String> {
        s.filter(|x: String| x != k)
    }

    /// Representation invariant shared by the three engines: the order queue has no duplicates and holds
    /// exactly the stored keys.
    pub open spec fn wf<V>(m: Map<String, V>, q: Seq<String>) -> bool {
        q.no_duplicates() && (forall|k: String| #[trigger] m.contains_key(k) <==> q.contains(k))
    }

    // ---- lemmas about the vocabulary (proved, not assumed)
    pub proof fn lemma_first_pos_unique(s: Seq<String>, k: String, p: int)
        requires is_first(s, k, p)
        ensures first_pos(s, k) == p, s.contains(k)
    {
        let q = first_pos(s, k);
        assert(is_first(s, k, q));
        if q < p { assert(s[q] != k); }
        if p < q { assert(s[p] != k); }
    }

    pub proof fn lemma_contains_has_first(s: Seq<String>, k: String)
        requires s.contains(k)
        ensures is_first(s, k, first_pos(s, k))
        decreases s.len()
    {
        let i = choose|i: int| 0 <= i < s.len() && s[i] == k;
        // least index by induction on i
        lemma_least(s, k, i);
    }
    pub proof fn lemma_least(s: Seq<String>, k: String, i: int)
        requires 0 <= i < s.len(), s[i] == k
        ensures exists|p: int| is_first(s, k, p)
        decreases i
    {
        if forall|j: int| 0 <= j < i ==> s[j] != k {
            assert(is_first(s, k, i));
        } else {
            let j = choose|j: int| 0 <= j < i && s[j] == k;
            lemma_least(s, k, j);
        }
    }

    pub proof fn lemma_nodup_pos(s: Seq<String>, i: int)
        requires s.no_duplicates(), 0 <= i < s.len()
        ensures is_first(s, s[i], i), first_pos(s, s[i]) == i, rm1(s, s[i]) == s.remove(i)
    { reveal(rm1);
        assert(is_first(s, s[i], i));
        lemma_first_pos_unique(s, s[i], i);
    }

    pub proof fn lemma_remove_nodup(s: Seq<String>, i: int)
        requires s.no_duplicates(), 0 <= i < s.len()
        ensures s.remove(i).no_duplicates(), !s.remove(i).contains(s[i]),
            forall|x: String| x != s[i] ==> (s.contains(x) <==> #[trigger] s.remove(i).contains(x)),
    {
        let t = s.remove(i);
        assert forall|a: int, b: int| 0 <= a < t.len() && 0 <= b < t.len() && a != b implies t[a] != t[b] by {
            let a2 = if a < i { a } else { a + 1 };
            let b2 = if b < i { b } else { b + 1 };
            assert(t[a] == s[a2] && t[b] == s[b2]);
        }
        if t.contains(s[i]) {
            let a = choose|a: int| 0 <= a < t.len() && t[a] == s[i];
            let a2 = if a < i { a } else { a + 1 };
            assert(t[a] == s[a2]);
        }
        assert forall|x: String| x != s[i] implies (s.contains(x) <==> #[trigger] t.contains(x)) by {
            if s.contains(x) {
                let p = choose|p: int| 0 <= p < s.len() && s[p] == x;
                let q = if p < i { p } else { p - 1 };
                assert(t[q] == x);
            }
            if t.contains(x) {
                let q = choose|q: int| 0 <= q < t.len() && t[q] == x;
                let p = if q < i { q } else { q + 1 };
                assert(s[p] == x);
            }
        }
    }

    /// removing a stored key from store and queue keeps the invariant
    pub proof fn lemma_wf_remove<V>(m: Map<String, V>, q: Seq<String>, k: String)
        requires wf(m, q)
        ensures wf(m.remove(k), rm1(q, k)), !rm1(q, k).contains(k),
            q.contains(k) ==> rm1(q, k).len() == q.len() - 1,
            !q.contains(k) ==> rm1(q, k) == q && m.remove(k) == m,
    { reveal(rm1);
        if q.contains(k) {
            lemma_contains_has_first(q, k);
            let p = first_pos(q, k);
            lemma_remove_nodup(q, p);
            assert forall|x: String| #[trigger] m.remove(k).contains_key(x) <==> rm1(q, k).contains(x) by {
                if x != k { assert(q.contains(x) <==> q.remove(p).contains(x)); }
            }
        } else {
            assert(!m.contains_key(k));
            assert(m.remove(k) =~= m);
        }
    }

    pub proof fn lemma_push_nodup(s: Seq<String>, k: String)
        requires s.no_duplicates(), !s.contains(k)
        ensures s.push(k).no_duplicates(),
            forall|x: String| #[trigger] s.push(k).contains(x) <==> (x == k || s.contains(x)),
    {
        let t = s.push(k);
        assert forall|a: int, b: int| 0 <= a < t.len() && 0 <= b < t.len() && a != b implies t[a] != t[b] by {
            if a < s.len() { assert(s.contains(t[a])); }
            if b < s.len() { assert(s.contains(t[b])); }
        }
        assert forall|x: String| #[trigger] t.contains(x) <==> (x == k || s.contains(x)) by {
            if t.contains(x) {
                let a = choose|a: int| 0 <= a < t.len() && t[a] == x;
                if a < s.len() { assert(s[a] == x); }
            }
            if x == k { assert(t[s.len() as int] == k); }
            if s.contains(x) {
                let a = choose|a: int| 0 <= a < s.len() && s[a] == x;
                assert(t[a] == x);
            }
        }
    }

    /// storing k (fresh or replacing) and refreshing its recency keeps the invariant
    pub proof fn lemma_wf_store<V>(m: Map<String, V>, q: Seq<String>, k: String, e: V)
        requires wf(m, q)
        ensures wf(m.insert(k, e), touch(q, k)),
            touch(q, k).len() == (if q.contains(k) { q.len() } else { q.len() + 1 }),
    { reveal(rm1);
        lemma_wf_remove(m, q, k);
        let r = rm1(q, k);
        lemma_push_nodup(r, k);
        assert forall|x: String| #[trigger] m.insert(k, e).contains_key(x) <==> touch(q, k).contains(x) by {
            assert(m.remove(k).contains_key(x) <==> r.contains(x));
        }
    }

    /// under the invariant the queue is exactly as long as the store is large
    pub proof fn lemma_wf_len<V>(m: Map<String, V>, q: Seq<String>)
        requires wf(m, q)
        ensures q.len() == m.dom().len()
    {
        q.unique_seq_to_set();
        assert(q.to_set() =~= m.dom()) by {
            assert forall|x: String| #[trigger] q.to_set().contains(x) <==> m.dom().contains(x) by {
                assert(q.to_set().contains(x) <==> q.contains(x));
            }
        }
    }

    // broadcast forms: the invariant is re-established automatically after the three shapes of update the engines perform
    pub broadcast proof fn b_wf_remove<V>(m: Map<String, V>, q: Seq<String>, k: String)
        requires wf(m, q)
        ensures #[trigger] wf(m.remove(k), rm1(q, k))
    { reveal(rm1); lemma_wf_remove(m, q, k); }

    pub broadcast proof fn b_wf_store<V>(m: Map<String, V>, q: Seq<String>, k: String, e: V)
        requires wf(m, q)
        ensures #[trigger] wf(m.insert(k, e), touch(q, k))
    { reveal(rm1); lemma_wf_store(m, q, k, e); }

    pub broadcast proof fn b_wf_touch<V>(m: Map<String, V>, q: Seq<String>, k: String)
        requires wf(m, q), m.contains_key(k)
        ensures #[trigger] wf(m, touch(q, k))
    { reveal(rm1); lemma_wf_store(m, q, k, m[k]); assert(m.insert(k, m[k]) =~= m); }

    /// same key set, same queue: still well-formed (used after a hit changed only an entry's counters)
    pub proof fn lemma_wf_same_dom<V>(m: Map<String, V>, m2: Map<String, V>, q: Seq<String>)
        requires wf(m, q), m2.dom() == m.dom()
        ensures wf(m2, q)
    { assert forall|k: String| #[trigger] m2.contains_key(k) <==> q.contains(k) by { assert(m2.dom().contains(k) <==> m.dom().contains(k)); } }

    pub broadcast proof fn b_nodup_pos(s: Seq<String>, i: int)
        requires s.no_duplicates(), 0 <= i < s.len()
        ensures #[trigger] s.remove(i) == rm1(s, s[i])
    { reveal(rm1); lemma_nodup_pos(s, i); }

    pub broadcast proof fn b_index_contains(s: Seq<String>, i: int)
        requires 0 <= i < s.len()
        ensures s.contains(#[trigger] s[i])
    { }

    pub broadcast proof fn b_pop_front_is_remove0(s: Seq<String>, j: int)
        requires s.len() > 0, j == s.len()
        ensures #[trigger] s.subrange(1, j) == s.remove(0)
    { assert(s.subrange(1, j) =~= s.remove(0)); }

    pub broadcast proof fn b_drop_first_is_remove0(s: Seq<String>)
        requires s.len() > 0
        ensures #[trigger] s.drop_first() == s.remove(0)
    { assert(s.drop_first() =~= s.remove(0)); }

    pub broadcast proof fn b_pop_back_is_remove_last(s: Seq<String>)
        requires s.len() > 0
        ensures #[trigger] s.drop_last() == s.remove(s.len() - 1)
    { assert(s.drop_last() =~= s.remove(s.len() - 1)); }

    pub broadcast proof fn b_rm1_len(s: Seq<String>, k: String)
        ensures (#[trigger] rm1(s, k)).len() == (if s.contains(k) { s.len() - 1 } else { s.len() as int }),
            !s.contains(k) ==> rm1(s, k) == s,
    { reveal(rm1); if s.contains(k) { lemma_contains_has_first(s, k); } }

    pub broadcast proof fn b_rm_all_nodup(s: Seq<String>, k: String)
        requires s.no_duplicates()
        ensures #[trigger] rm_all(s, k) == rm1(s, k)
    { reveal(rm1); lemma_rm_all_nodup(s, k); }

    pub broadcast proof fn b_wf_len<V>(m: Map<String, V>, q: Seq<String>)
        ensures #[trigger] wf(m, q) ==> q.len() == m.dom().len()
    { if wf(m, q) { lemma_wf_len(m, q); } }

    /// HashMap::get_mut changed (at most) the value under one key: same key set, still well-formed
    pub broadcast proof fn b_wf_mutated<V>(m: Map<String, V>, m2: Map<String, V>, q: Seq<String>, k: &str)
        requires #[trigger] wf(m, q), #[trigger] crate::ax::only_key_mutated::<String, V, str>(m, m2, k)
        ensures wf(m2, q)
    {
        crate::ax::axiom_str_only_key_mutated(m, m2, k);
        lemma_wf_same_dom(m, m2, q);
    }

    /// storing a key that is in neither store nor queue
    pub broadcast proof fn b_wf_push<V>(m: Map<String, V>, q: Seq<String>, k: String, e: V)
        requires wf(m, q), !q.contains(k)
        ensures #[trigger] wf(m.insert(k, e), q.push(k))
    {
        lemma_push_nodup(q, k);
        assert forall|x: String| #[trigger] m.insert(k, e).contains_key(x) <==> q.push(k).contains(x) by { }
    }

    /// replacing a resident key in place: it was un-queued first, its store entry is overwritten
    pub broadcast proof fn b_wf_replace<V>(m: Map<String, V>, q: Seq<String>, k: String, e: V)
        requires wf(m.remove(k), q), !q.contains(k)
        ensures #[trigger] wf(m.insert(k, e), q.push(k))
    {
        assert(m.insert(k, e) =~= m.remove(k).insert(k, e));
        b_wf_push(m.remove(k), q, k, e);
    }

    /// makes the last element of a pushed sequence available as a term (witness for "some stored entry ...")
    pub broadcast proof fn b_push_last(s: Seq<String>, k: String)
        ensures (#[trigger] s.push(k))[s.len() as int] == k, s.push(k).len() == s.len() + 1
    { }

    pub broadcast proof fn b_push_drop_last(s: Seq<String>, x: String)
        ensures #[trigger] s.push(x).drop_last() == s
    { assert(s.push(x).drop_last() =~= s); }

    pub broadcast proof fn b_push_subrange(s: Seq<String>, x: String, j: int)
        requires j == s.len()
        ensures #[trigger] s.push(x).subrange(0, j) == s
    { assert(s.push(x).subrange(0, j) =~= s); }

    pub broadcast proof fn b_insert_remove_same<V>(m: Map<String, V>, k: String, e: V)
        ensures #[trigger] m.insert(k, e).remove(k) == m.remove(k)
    { assert(m.insert(k, e).remove(k) =~= m.remove(k)); }

    /// s is what is left of t after dropping some oldest (front) elements
    pub open spec fn is_suffix(s: Seq<String>, t: Seq<String>) -> bool {
        exists|j: int| 0 <= j <= t.len() && s == #[trigger] t.subrange(j, t.len() as int)
    }

    pub broadcast proof fn b_suffix_refl(t: Seq<String>)
        ensures #[trigger] is_suffix(t, t)
    { assert(t =~= t.subrange(0, t.len() as int)); }

    pub broadcast proof fn b_suffix_pop(s: Seq<String>, t: Seq<String>)
        requires is_suffix(s, t), s.len() > 0
        ensures #[trigger] is_suffix(s.remove(0), t)
    {
        let j = choose|j: int| 0 <= j <= t.len() && s == #[trigger] t.subrange(j, t.len() as int);
        assert(s.remove(0) =~= t.subrange(j + 1, t.len() as int));
    }

    pub broadcast proof fn b_rm1_index(s: Seq<String>, i: int)
        requires s.no_duplicates(), 0 <= i < s.len()
        ensures #[trigger] rm1(s, s[i]) == s.remove(i)
    { reveal(rm1); lemma_nodup_pos(s, i); }

    // ---- prefixes of a sequence (loops over `for x in &vec`)
    pub broadcast proof fn b_take_contains(ks: Seq<String>, i: int, k: String)
        requires 0 <= i < ks.len()
        ensures #[trigger] ks.take(i + 1).contains(k) <==> (ks.take(i).contains(k) || ks[i] == k)
    {
        if ks.take(i + 1).contains(k) {
            let t1 = ks.take(i + 1); let j = choose|j: int| 0 <= j < t1.len() && t1[j] == k;
            if j < i { assert(ks.take(i)[j] == k); }
        }
        if ks.take(i).contains(k) {
            let t0 = ks.take(i); let j = choose|j: int| 0 <= j < t0.len() && t0[j] == k;
            assert(ks.take(i + 1)[j] == k);
        }
        if ks[i] == k { assert(ks.take(i + 1)[i] == k); }
    }
    pub broadcast proof fn b_take_full(ks: Seq<String>, n: int)
        requires n == ks.len()
        ensures #[trigger] ks.take(n) == ks
    { assert(ks.take(n) =~= ks); }

    /// removing a key that is not stored changes nothing
    pub broadcast proof fn b_remove_absent<V>(m: Map<String, V>, k: String)
        requires !m.contains_key(k)
        ensures #[trigger] m.remove(k) == m
    { assert(m.remove(k) =~= m); }

    // ---- sweeping the queue against the store: `q.retain(|k| m.contains_key(k))`
    /// the elements of q that are stored in m, in order
    pub open spec fn resident_filter<V>(q: Seq<String>, m: Map<String, V>) -> Seq<String>
        decreases q.len()
    {
        if q.len() == 0 { q } else {
            let r = resident_filter(q.drop_last(), m);
            if m.contains_key(q.last()) { r.push(q.last()) } else { r }
        }
    }
    pub proof fn lemma_resident_filter<V>(q: Seq<String>, m: Map<String, V>)
        ensures
            forall|x: String| #[trigger] resident_filter(q, m).contains(x) <==> (q.contains(x) && m.contains_key(x)),
            q.no_duplicates() ==> resident_filter(q, m).no_duplicates(),
            (forall|j: int| 0 <= j < q.len() ==> m.contains_key(#[trigger] q[j])) ==> resident_filter(q, m) == q,
            resident_filter(q, m).len() <= q.len(),
        decreases q.len()
    {
        if q.len() > 0 {
            let p = q.drop_last();
            let r = resident_filter(p, m);
            lemma_resident_filter(p, m);
            assert(q =~= p.push(q.last()));
            assert forall|x: String| #[trigger] resident_filter(q, m).contains(x) <==> (q.contains(x) && m.contains_key(x)) by {
                if m.contains_key(q.last()) {
                    let rr = r.push(q.last());
                    if rr.contains(x) {
                        let i = choose|i: int| 0 <= i < rr.len() && rr[i] == x;
                        if i < r.len() { assert(r[i] == x); assert(r.contains(x)); assert(p.contains(x)); let j = choose|j: int| 0 <= j < p.len() && p[j] == x; assert(q[j] == x); }
                        else { assert(q[q.len() - 1] == x); }
                    }
                    if q.contains(x) && m.contains_key(x) {
                        let j = choose|j: int| 0 <= j < q.len() && q[j] == x;
                        if j < p.len() { assert(p[j] == x); assert(p.contains(x)); assert(r.contains(x)); let i = choose|i: int| 0 <= i < r.len() && r[i] == x; assert(rr[i] == x); }
                        else { assert(rr[r.len() as int] == x); }
                    }
                } else {
                    if r.contains(x) { assert(p.contains(x)); let j = choose|j: int| 0 <= j < p.len() && p[j] == x; assert(q[j] == x); }
                    if q.contains(x) && m.contains_key(x) {
                        let j = choose|j: int| 0 <= j < q.len() && q[j] == x;
                        assert(j < p.len());
                        assert(p[j] == x); assert(p.contains(x));
                    }
                }
            }
            if q.no_duplicates() {
                assert(p.no_duplicates());
                if m.contains_key(q.last()) {
                    assert(!p.contains(q.last())) by { if p.contains(q.last()) { let j = choose|j: int| 0 <= j < p.len() && p[j] == q.last(); assert(q[j] == q[q.len() - 1]); } }
                    assert(!r.contains(q.last()));
                    lemma_push_nodup(r, q.last());
                }
            }
            if forall|j: int| 0 <= j < q.len() ==> m.contains_key(#[trigger] q[j]) {
                assert forall|j: int| 0 <= j < p.len() implies m.contains_key(#[trigger] p[j]) by { assert(p[j] == q[j]); }
                assert(m.contains_key(q[q.len() - 1]));
            }
        }
    }
    /// sweeping a consistent queue changes nothing
    pub broadcast proof fn b_resident_filter_wf<V>(q: Seq<String>, m: Map<String, V>)
        requires wf(m, q)
        ensures #[trigger] resident_filter(q, m) == q
    {
        lemma_resident_filter(q, m);
        assert forall|j: int| 0 <= j < q.len() implies m.contains_key(#[trigger] q[j]) by { assert(q.contains(q[j])); }
    }
    /// sweeping a duplicate-free queue that lists every stored key re-establishes the invariant
    pub broadcast proof fn b_resident_filter_sweeps<V>(q: Seq<String>, m: Map<String, V>)
        requires q.no_duplicates(), forall|k: String| m.contains_key(k) ==> q.contains(k)
        ensures #[trigger] wf(m, resident_filter(q, m))
    {
        lemma_resident_filter(q, m);
    }

    pub broadcast group group_wf { b_remove_absent, b_take_contains, b_take_full, b_suffix_refl, b_suffix_pop, b_rm1_index, b_push_subrange, b_push_drop_last, b_insert_remove_same, b_push_last, b_wf_push, b_wf_replace, b_resident_filter_wf, b_resident_filter_sweeps, b_wf_mutated, b_rm_all_nodup, b_wf_len, b_rm1_len, b_wf_remove, b_wf_store, b_wf_touch, b_nodup_pos,
        b_pop_front_is_remove0, b_drop_first_is_remove0, b_pop_back_is_remove_last }

    // ---- memory totals: the sum of a per-entry size along the queue (under wf the queue enumerates the store exactly once)
    pub open spec fn total_q<V>(m: Map<String, V>, q: Seq<String>, f: spec_fn(V) -> nat) -> nat
        decreases q.len()
    {
        if q.len() == 0 { 0 } else { total_q(m, q.drop_last(), f) + f(m[q.last()]) }
    }

    pub proof fn lemma_total_frame<V>(m1: Map<String, V>, m2: Map<String, V>, q: Seq<String>, f: spec_fn(V) -> nat)
        requires forall|i: int| 0 <= i < q.len() ==> m1[#[trigger] q[i]] == m2[q[i]]
        ensures total_q(m1, q, f) == total_q(m2, q, f)
        decreases q.len()
    {
        if q.len() > 0 {
            assert forall|i: int| 0 <= i < q.drop_last().len() implies m1[#[trigger] q.drop_last()[i]] == m2[q.drop_last()[i]] by {
                assert(q.drop_last()[i] == q[i]);
            }
            lemma_total_frame(m1, m2, q.drop_last(), f);
            assert(q.last() == q[q.len() - 1]);
        }
    }

    pub proof fn lemma_total_push<V>(m: Map<String, V>, q: Seq<String>, k: String, f: spec_fn(V) -> nat)
        ensures total_q(m, q.push(k), f) == total_q(m, q, f) + f(m[k])
    {
        assert(q.push(k).drop_last() =~= q);
        assert(q.push(k).last() == k);
    }

    pub proof fn lemma_total_remove_at<V>(m: Map<String, V>, q: Seq<String>, i: int, f: spec_fn(V) -> nat)
        requires 0 <= i < q.len()
        ensures total_q(m, q, f) == total_q(m, q.remove(i), f) + f(m[q[i]])
        decreases q.len()
    {
        if i == q.len() - 1 {
            assert(q.remove(i) =~= q.drop_last());
        } else {
            lemma_total_remove_at(m, q.drop_last(), i, f);
            assert(q.drop_last().remove(i) =~= q.remove(i).drop_last());
            assert(q.remove(i).last() == q.last());
            assert(q.drop_last()[i] == q[i]);
        }
    }

    /// evicting a stored key lowers the total by exactly that entry's size
    pub broadcast proof fn b_total_evict<V>(m: Map<String, V>, q: Seq<String>, k: String, f: spec_fn(V) -> nat)
        requires wf(m, q), q.contains(k)
        ensures #[trigger] total_q(m.remove(k), rm1(q, k), f) + f(m[k]) == total_q(m, q, f)
    { reveal(rm1);
        lemma_contains_has_first(q, k);
        let p = first_pos(q, k);
        lemma_total_remove_at(m, q, p, f);
        lemma_remove_nodup(q, p);
        assert forall|i: int| 0 <= i < q.remove(p).len() implies m[#[trigger] q.remove(p)[i]] == m.remove(k)[q.remove(p)[i]] by {
            assert(q.remove(p).contains(q.remove(p)[i]));
        }
        lemma_total_frame(m, m.remove(k), q.remove(p), f);
    }

    /// storing k (fresh or replacing) and refreshing its recency
    pub broadcast proof fn b_total_store<V>(m: Map<String, V>, q: Seq<String>, k: String, e: V, f: spec_fn(V) -> nat)
        requires wf(m, q)
        ensures #[trigger] total_q(m.insert(k, e), touch(q, k), f) == total_q(m.remove(k), rm1(q, k), f) + f(e)
    { reveal(rm1);
        lemma_wf_remove(m, q, k);
        let r = rm1(q, k);
        lemma_total_push(m.insert(k, e), r, k, f);
        assert forall|i: int| 0 <= i < r.len() implies m.insert(k, e)[#[trigger] r[i]] == m.remove(k)[r[i]] by {
            assert(r.contains(r[i]));
        }
        lemma_total_frame(m.insert(k, e), m.remove(k), r, f);
    }

    /// a key that is not stored contributes nothing: removing it changes neither store nor total
    pub broadcast proof fn b_total_fresh<V>(m: Map<String, V>, q: Seq<String>, k: String, f: spec_fn(V) -> nat)
        requires wf(m, q), !q.contains(k)
        ensures #[trigger] total_q(m.remove(k), rm1(q, k), f) == total_q(m, q, f)
    { reveal(rm1);
        assert(m.remove(k) =~= m);
    }

    pub broadcast proof fn b_total_empty<V>(m: Map<String, V>, q: Seq<String>, f: spec_fn(V) -> nat)
        ensures q.len() == 0 ==> #[trigger] total_q(m, q, f) == 0
    { }

    /// storing a key that is in neither store nor queue
    pub broadcast proof fn b_total_push<V>(m: Map<String, V>, q: Seq<String>, k: String, e: V, f: spec_fn(V) -> nat)
        requires wf(m, q), !q.contains(k)
        ensures #[trigger] total_q(m.insert(k, e), q.push(k), f) == total_q(m, q, f) + f(e)
    {
        lemma_total_push(m.insert(k, e), q, k, f);
        assert forall|i: int| 0 <= i < q.len() implies m.insert(k, e)[#[trigger] q[i]] == m[q[i]] by {
            assert(q.contains(q[i]));
        }
        lemma_total_frame(m.insert(k, e), m, q, f);
    }

    pub broadcast group group_total { b_total_push, b_total_evict, b_total_store, b_total_fresh, b_total_empty }

    /// removing every occurrence never lengthens the sequence and shortens it when the key occurs (termination of the
    /// evict-until-fits loops without assuming anything about duplicates)
    pub proof fn lemma_rm_all_len(s: Seq<String>, k: String)
        ensures rm_all(s, k).len() <= s.len(), s.contains(k) ==> rm_all(s, k).len() < s.len()
        decreases s.len()
    {
        reveal(Seq::filter);
        if s.len() > 0 {
            let init = s.drop_last();
            lemma_rm_all_len(init, k);
            if s.contains(k) && s.last() != k {
                let a = choose|a: int| 0 <= a < s.len() && s[a] == k;
                assert(init[a] == k);
                assert(init.contains(k));
            }
        }
    }

    pub proof fn lemma_rm_all_nodup(s: Seq<String>, k: String)
        requires s.no_duplicates()
        ensures rm_all(s, k) == rm1(s, k)
        decreases s.len()
    { reveal(rm1);
        reveal(Seq::filter);
        let pred = |x: String| x != k;
        if s.len() == 0 {
            assert(!s.contains(k));
        } else {
            let last = s.last();
            let init = s.drop_last();
            assert(init.no_duplicates()) by {
                assert forall|a: int, b: int| 0 <= a < init.len() && 0 <= b < init.len() && a != b implies init[a] != init[b] by {
                    assert(init[a] == s[a] && init[b] == s[b]);
                }
            }
            lemma_rm_all_nodup(init, k);
            if last == k {
                // k is not in init (no duplicates), so filter(init) == init and rm1(s,k) == init
                if init.contains(k) {
                    let a = choose|a: int| 0 <= a < init.len() && init[a] == k;
                    assert(s[a] == k && s[s.len() - 1] == k);
                }
                assert(rm1(init, k) == init);
                lemma_nodup_pos(s, s.len() - 1);
                assert(s.remove(s.len() - 1) =~= init);
            } else {
                if init.contains(k) {
                    lemma_contains_has_first(init, k);
                    let p = first_pos(init, k);
                    assert(is_first(s, k, p)) by { assert forall|j: int| 0 <= j < p implies s[j] != k by { assert(init[j] == s[j]); } assert(init[p] == s[p]); }
                    lemma_first_pos_unique(s, k, p);
                    assert(s.remove(p) =~= init.remove(p).push(last));
                } else {
                    assert(!s.contains(k)) by {
                        if s.contains(k) {
                            let a = choose|a: int| 0 <= a < s.len() && s[a] == k;
                            if a < init.len() { assert(init[a] == k); }
                        }
                    }
                    assert(s =~= init.push(last));
                }
            }
        }
    }
}
pub use sp::*;

broadcast use {vstd::std_specs::hash::group_hash_axioms, ax::group_string_keys, sp::axiom_clone_of, sp::group_wf, sp::group_total /*EXTRA_BROADCAST*/};

// ------------------------------------------------------------------------------------------------
// Clock (DESIGN 5.2): Instant / Duration are kept verbatim; their readings are uninterpreted.
#[verifier::external_type_specification]
#[verifier::external_body]
pub struct ExInstant(Instant);

/// whole seconds elapsed since the Instant was taken, as read by this cache operation
pub uninterp spec fn age_secs(i: Instant) -> u64;
pub uninterp spec fn dur_secs(d: std::time::Duration) -> u64;
pub mod clk {
    use vstd::prelude::*;
    /// fractional seconds of a Duration / of the age of an Instant (sync TLRU age factor)
    pub uninterp spec fn dur_f64(d: std::time::Duration) -> f64;
    pub uninterp spec fn age_f64(i: std::time::Instant) -> f64;
}
pub use clk::*;

/// the Instant was read from the clock by the operation that is running (a store stamps its entry with such a reading)
pub uninterp spec fn taken_now(i: Instant) -> bool;
pub assume_specification [Instant::now] () -> (r: Instant)
    ensures taken_now(r);
pub assume_specification [Instant::elapsed] (i: &Instant) -> (d: std::time::Duration)
    ensures dur_secs(d) == age_secs(*i), dur_f64(d) == age_f64(*i);
pub assume_specification [std::time::Duration::as_secs] (d: &std::time::Duration) -> (r: u64)
    ensures r == dur_secs(*d);

/// whole seconds since the epoch as read by this operation (async engine; one reading per operation, DESIGN 5.2)
pub uninterp spec fn spec_clock_secs() -> u64;

#[verifier::external_body]
pub fn clock_now_secs() -> (r: u64) ensures r == spec_clock_secs() { unimplemented!() }

#[verifier::external_body]
pub fn rand_below(n: usize) -> (r: usize)
    requires n > 0
    ensures r < n
{ unimplemented!() }

// ------------------------------------------------------------------------------------------------
// std pieces vstd does not specify
pub assume_specification<T, A: std::alloc::Allocator> [VecDeque::<T, A>::is_empty] (v: &VecDeque<T, A>) -> (b: bool)
    ensures b == (v@.len() == 0);

pub assume_specification<'a, K: Eq + std::hash::Hash + std::borrow::Borrow<Q>, V, S: std::hash::BuildHasher, A: std::alloc::Allocator, Q: std::hash::Hash + Eq + ?Sized>
    [HashMap::<K, V, S, A>::get_mut::<Q>] (m: &'a mut HashMap<K, V, S, A>, k: &Q) -> (r: Option<&'a mut V>)
    ensures
        match r {
            Some(v) => contains_borrowed_key(old(m)@, k) && maps_borrowed_key_to_value(old(m)@, k, *v)
                && maps_borrowed_key_to_value(final(m)@, k, *final(v))
                && only_key_mutated(old(m)@, final(m)@, k),
            None => !contains_borrowed_key(old(m)@, k) && final(m)@ == old(m)@,
        };

// R7: sequential shim for std::sync::atomic::AtomicU64 (atomicity and memory ordering are std guarantees, assumed)
pub mod atomic_shim {
    use vstd::prelude::*;
    #[derive(Clone, Copy)]
    pub enum Ordering { Relaxed, Release, Acquire, AcqRel, SeqCst }
    pub struct AtomicU64 { pub v: u64 }
    impl AtomicU64 {
        pub fn new(v: u64) -> (r: Self) ensures r.v == v { AtomicU64 { v } }
        pub fn fetch_add(&mut self, val: u64, order: Ordering) -> (r: u64)
            ensures r == old(self).v, final(self).v == old(self).v.wrapping_add(val)
        { let r = self.v; self.v = self.v.wrapping_add(val); r }
        pub fn load(&self, order: Ordering) -> (r: u64) ensures r == self.v { self.v }
        pub fn store(&mut self, val: u64, order: Ordering) ensures final(self).v == val { self.v = val; }
    }
    /// flags (not used by the pinned code; keeps a plausible new field within the verifier's reach)
    pub struct AtomicBool { pub v: bool }
    impl AtomicBool {
        pub fn new(v: bool) -> (r: Self) ensures r.v == v { AtomicBool { v } }
        pub fn swap(&mut self, val: bool, order: Ordering) -> (r: bool) ensures r == old(self).v, final(self).v == val { let r = self.v; self.v = val; r }
        pub fn load(&self, order: Ordering) -> (r: bool) ensures r == self.v { self.v }
        pub fn store(&mut self, val: bool, order: Ordering) ensures final(self).v == val { self.v = val; }
    }
}
pub use atomic_shim::{AtomicBool, AtomicU64, Ordering};

// more std pieces vstd does not specify (not used by the pinned code; they keep plausible edits within the verifier's reach)
pub assume_specification<T, A: std::alloc::Allocator> [VecDeque::<T, A>::front] (v: &VecDeque<T, A>) -> (r: Option<&T>)
    ensures match r { Some(x) => v@.len() > 0 && *x == v@[0], None => v@.len() == 0 };
pub assume_specification<T, A: std::alloc::Allocator> [VecDeque::<T, A>::back] (v: &VecDeque<T, A>) -> (r: Option<&T>)
    ensures match r { Some(x) => v@.len() > 0 && *x == v@[v@.len() - 1], None => v@.len() == 0 };
pub assume_specification<T, A: std::alloc::Allocator> [VecDeque::<T, A>::swap_remove_back] (v: &mut VecDeque<T, A>, index: usize) -> (r: Option<T>)
    ensures match r {
        Some(x) => index < old(v)@.len() && x == old(v)@[index as int] && final(v)@ == old(v)@.update(index as int, old(v)@[old(v)@.len() - 1]).drop_last(),
        None => index >= old(v)@.len() && final(v)@ == old(v)@,
    };

// Interference projection (C15 / C16 under concurrency): acquiring a lock (or touching the DashMap) first lets the
// guarded data change arbitrarily -- what other threads may have done while this thread did not hold the lock.
#[verifier::external_body]
pub fn havoc_mut<'a, T>(x: &'a mut T) -> (r: &'a mut T) { x }
#[verifier::external_body]
pub fn havoc_shared<'a, T>(x: &'a mut T) -> (r: &'a T) { x }

// R4 helpers: assumed contracts of the std iterator adapters the code uses
#[verifier::external_body]
pub fn vd_position_raw(o: &VecDeque<String>, key: &String) -> (r: Option<usize>)
    ensures match r {
        Some(p) => is_first(o@, *key, p as int),
        None => !o@.contains(*key),
    }
{ unimplemented!() }

#[verifier::external_body]
pub fn vd_position_str_raw(o: &VecDeque<String>, key: &str) -> (r: Option<usize>)
    ensures match r {
        Some(p) => is_first(o@, s2s(key), p as int),
        None => !o@.contains(s2s(key)),
    }
{ unimplemented!() }

/// `o.iter().position(|k| *k == key)`: the assumed part is *_raw above; the extra facts are proved from it.
pub fn vd_position(o: &VecDeque<String>, key: &String) -> (r: Option<usize>)
    ensures match r {
        Some(p) => is_first(o@, *key, p as int) && first_pos(o@, *key) == p && o@.contains(*key) && rm1(o@, *key) == o@.remove(p as int)
            && touch(o@, *key) == o@.remove(p as int).push(*key),
        None => !o@.contains(*key) && rm1(o@, *key) == o@ && touch(o@, *key) == o@.push(*key),
    }
{
    let r = vd_position_raw(o, key);
    proof { reveal(rm1); if let Some(p) = r { lemma_first_pos_unique(o@, *key, p as int); } }
    r
}

pub fn vd_position_str(o: &VecDeque<String>, key: &str) -> (r: Option<usize>)
    ensures match r {
        Some(p) => is_first(o@, s2s(key), p as int) && first_pos(o@, s2s(key)) == p && o@.contains(s2s(key)) && rm1(o@, s2s(key)) == o@.remove(p as int)
            && touch(o@, s2s(key)) == o@.remove(p as int).push(s2s(key)),
        None => !o@.contains(s2s(key)) && rm1(o@, s2s(key)) == o@ && touch(o@, s2s(key)) == o@.push(s2s(key)),
    }
{
    let r = vd_position_str_raw(o, key);
    proof { reveal(rm1); if let Some(p) = r { lemma_first_pos_unique(o@, s2s(key), p as int); } }
    r
}

#[verifier::external_body]
pub fn vd_retain_ne_raw(o: &mut VecDeque<String>, key: &String)
    ensures final(o)@ == rm_all(old(o)@, *key)
{ unimplemented!() }

#[verifier::external_body]
pub fn vd_retain_ne_str_raw(o: &mut VecDeque<String>, key: &str)
    ensures final(o)@ == rm_all(old(o)@, s2s(key))
{ unimplemented!() }

/// `o.retain(|k| m.contains_key(k))` (std adapter, assumed contract: keeps exactly the elements that satisfy the predicate, in order)
#[verifier::external_body]
pub fn vd_retain_in<V>(o: &mut VecDeque<String>, m: &HashMap<String, V>)
    ensures final(o)@ == resident_filter(old(o)@, m@)
{ unimplemented!() }

/// `o.retain(|k| k != key)`: the assumed part is *_raw above; the extra facts (for duplicate-free queues) are proved.
pub fn vd_retain_ne(o: &mut VecDeque<String>, key: &String)
    ensures final(o)@ == rm_all(old(o)@, *key),
        old(o)@.no_duplicates() ==> final(o)@ == rm1(old(o)@, *key) && final(o)@.push(*key) == touch(old(o)@, *key),
        final(o)@.len() <= old(o)@.len(), old(o)@.contains(*key) ==> final(o)@.len() < old(o)@.len(),
{
    vd_retain_ne_raw(o, key);
    proof { lemma_rm_all_len(old(o)@, *key); if old(o)@.no_duplicates() { lemma_rm_all_nodup(old(o)@, *key); } }
}

pub fn vd_retain_ne_str(o: &mut VecDeque<String>, key: &str)
    ensures final(o)@ == rm_all(old(o)@, s2s(key)),
        old(o)@.no_duplicates() ==> final(o)@ == rm1(old(o)@, s2s(key)) && final(o)@.push(s2s(key)) == touch(old(o)@, s2s(key)),
        final(o)@.len() <= old(o)@.len(), old(o)@.contains(s2s(key)) ==> final(o)@.len() < old(o)@.len(),
{
    vd_retain_ne_str_raw(o, key);
    proof { lemma_rm_all_len(old(o)@, s2s(key)); if old(o)@.no_duplicates() { lemma_rm_all_nodup(old(o)@, s2s(key)); } }
}

} // verus!
