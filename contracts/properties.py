"""Registry: which units decide which property, plus the per-property assumptions reported in evidence."""

TRUSTED_TEXT = [
    'vstd specifications of HashMap, VecDeque, Vec, Option, String (Verus standard library)',
    'prelude.rs: String as hash key / &str-borrowed lookups axioms; HashMap::get_mut, VecDeque::is_empty, Instant/Duration assume_specifications',
    'prelude.rs: R4 helper contracts for std iterator adapters (position, retain, sum, enumerate, collect)',
    'sequential projection: parking_lot / RefCell / LocalKey / DashMap erased by rule R1 (see DESIGN.md section 3)',
]

COMMON_ASSUMPTIONS = [
    'single-threaded semantics of each operation (locks erased); interleavings are not covered by this check',
    'Clone of a cached value yields an equal value; MemoryEstimator::estimate_memory is a pure function of the value',
    'one clock reading per cache operation (age_secs / now_secs uninterpreted)',
]

ENGINES = ['global_cache', 'thread_local_cache', 'async_cache']
ENGINES_SCORES = ENGINES + ['scores']
WRAPPERS = ['wrappers_global', 'wrappers_thread', 'wrappers_async']

def _reg(prop):
    def run(tier):
        from extract import check
        return check.registration_check(prop)(tier)
    return run


def _kani(prop, group='float'):
    def run(tier):
        from extract import check
        return check.kani_harnesses(prop, group)(tier)
    return run


def _preawait(prop):
    def run(tier):
        from extract import check
        return check.pre_await_check(prop)(tier)
    return run


def _lock(kinds, prop):
    def run(tier):
        from extract import check
        return check.lock_check(kinds, prop)(tier)
    return run


PROPERTIES = {
    'C16': dict(units=ENGINES_SCORES + ['interference', 'registry', 'stats_registry'] + WRAPPERS, extra=[_lock(['cell'], 'C16'), _reg('C16')],
                explanation='panic freedom of every extracted engine function (overflow, indexing, unwrap, callee preconditions such as rand_below(n > 0)) proved by Verus, '
                            'the wrapper tails and invalidation callbacks the macros emit for the fixture corpus (unwrap, indexing, callee preconditions), plus RefCell guard-liveness obligations on the original thread_local_cache.rs (no borrow_mut while a borrow of the same cell is live); unit interference: the global lookup/store paths and the async lookup/insert path stay panic-free and terminate even when every lock acquisition / DashMap operation sees arbitrarily changed data (concurrent interference)',
                assumptions=['limit >= 1 where the async engine requires it; counters unsaturated; totals fit usize', 'user closures / estimators / Debug impls do not panic']),
    'C20': dict(units=['async_cache', 'wrappers_async', 'wrappers_async_await'], extra=[_lock(['await'], 'C20'), _preawait('C20'), _reg('C20')],
                explanation='on the real #[cache_async] expansions: no lock / DashMap guard is live at the .await (guard-liveness obligations), the only cache operation before the awaited body is the lookup, and the lookup never adds an entry and leaves the representation invariant intact (engine contract of get); after the await the store is the ordinary insert (last store wins, exact eviction); engine methods return owned values; unit wrappers_async_await: the same expansions with ARBITRARY interference (any store / queue / statistics contents satisfying the representation invariant, same configuration) injected at the .await: the resumed call still stores exactly its own result under its own key, runs the body at most once, and a hit is served before any suspension',
                assumptions=['Rust async semantics: dropping a future runs only the destructors of live locals', 'schedules enter only through the invariant argument: every other operation meets its precondition (wf) while the call is suspended']),
    'C17': dict(units=[], extra=[_lock(['rank'], 'C17')],
                explanation='lock-rank discipline: at every acquisition site (original source text of the engines, registries and of the real macro expansions) every lock already held has a strictly smaller rank and no lock is re-acquired; a sufficient condition for deadlock freedom for all schedules',
                assumptions=['locks taken inside user closures / predicates / estimate_memory are not covered', 'parking_lot locks are fair enough not to starve (deadlock freedom only)'],
                trusted=['extract/locks.py: guard lifetimes follow Rust drop semantics (let-bound guards to end of block, temporaries to end of statement / scrutinee construct)']),
    'C06': dict(units=ENGINES + WRAPPERS, extra=[_reg('C06')], explanation='on every fixture expansion the ttl attribute arrives at the constructor as written (structural); on the expansions a lookup goes through the engine and an expired entry is never served (the wrapper contracts define a hit as an UNEXPIRED entry: a miss runs the body); is_expired == (age >= ttl) and the get postconditions never_serves_expired / purges_expired / serves_unexpired, for all ttl and ages'),
    'C04': dict(units=ENGINES + ['wrappers_global', 'wrappers_async'], extra=[_reg('C04')], explanation='on every fixture expansion the limit attribute arrives at the constructor as written (structural); wf / bound / exact-victim postconditions of insert and of the entry-limit eviction, all N, all six policies; the invalidation callbacks and wrappers emitted by the macros preserve the representation invariant the capacity bookkeeping rests on (queue and store hold exactly the same keys, once each)'),
    'C01': dict(units=ENGINES + WRAPPERS, extra=[_reg('C01')], explanation='the key is computed once, before the lookup, and the statics are local to the decorated function (structural); get returns a clone of the value stored under exactly this key; insert: last store wins, survivors unchanged'),
    'C07': dict(units=ENGINES + ['policy', 'wrappers_global', 'wrappers_async'], extra=[_reg('C07'), _kani('C07', 'policy')], explanation='on every fixture expansion the policy attribute arrives at the constructor as written (sync: the variant; async: the string, and EvictionPolicy::from maps every policy name to its own variant: unit policy); queue postconditions: hit_recency, store moves key to back, FIFO/LRU victim is the queue front; the conditional-invalidation callbacks emitted by the macros keep the relative queue order of the survivors (queue_order_preserved)'),
    'C08': dict(units=ENGINES_SCORES + ['policy', 'wrappers_global', 'wrappers_async'], extra=[_kani('C08'), _kani('C08', 'policy'), _reg('C08')], explanation='policy and frequency_weight attributes arrive at the constructor as written (structural; EvictionPolicy::from verified in unit policy); hit_counts postcondition and argmin postconditions of the scoring helpers'),
    'C05': dict(units=ENGINES + ['memory_estimator', 'wrappers_global', 'wrappers_async'], extra=[_reg('C05'), _kani('C05', 'estimator')], explanation='on every fixture expansion the max_memory attribute arrives at the constructor in bytes, KB/MB/GB as powers of 1024 (structural); the invalidation callbacks emitted by the macros preserve the representation invariant the memory accounting rests on; insert_with_memory: total <= max_memory after every store, oversize value not cached and displaces nothing, no eviction while the total fits, FIFO/LRU victims are the oldest; memory totals are a proved fold along the queue (no total axioms); unit memory_estimator: the built-in estimators (String, Vec, Option, Result, 2-/3-tuples, Box) return inline size + owned heap capacity, recursively, without underflow',
                assumptions=['hit counters never saturate (u64::MAX hits on one entry)', 'sum of the estimates fits usize (machine arithmetic)']),
    'C02': dict(units=WRAPPERS + ['keys'], extra=[_reg('C02')], explanation='the key is computed exactly once per call, before the lookup (structural); wrapper contracts: on every fixture expansion the cache is read and written under exactly key_str(d(p1) + "|" + d(p2) ...) with every parameter (and the receiver) present in order, d = Debug rendering (keys.rs blanket impl verified); lemmas: such keys are injective on argument tuples when each rendering is injective and "|"-safe',
                assumptions=['std Debug of the built-in key types is injective and self-delimiting w.r.t. "|" (axioms ax_builtin_debug / ax_builtin_types); user CacheableKey impls and distinct NaN payloads are not covered'],
                trusted=['R9 rewrites: expanded format!("{:?}", x) -> debug_fmt(&x); Vec<String>::join(sep) -> vec_join']),
    'C03': dict(units=ENGINES + WRAPPERS + ['monotone', 'wrappers_async_await', 'wrappers_global_await', 'registry'], explanation='registry: a registration (register / register_callback / register_invalidation_callback) invokes no callback of any cache (effect log unchanged); engine contracts (a lookup never removes an unexpired entry; an unbounded store keeps everything) and wrapper contracts on the real macro expansions: a hit is served without running the body, a miss runs it exactly once and stores the result (effect log). Concurrent sentence (global and async engines, configuration without limit / ttl / max_memory): unit monotone proves on the real get / insert code, under the interference projection, that every store critical section leaves every resident key resident (rely/guarantee: ghost key set threaded through the acquisitions), that a lookup returning None did not see the key at its read section, and that the key is resident when insert returns; units wrappers_async_await / wrappers_global_await: with arbitrary interference while the body runs (no lock held) the body runs at most once per call, a hit is served without it, and the call then stores its own result under its own key',
                assumptions=['concurrent sentence: the identification of a real execution with a trace of released store states, each produced by one critical section of a verified operation, is informal; the trace lemma (resident once => resident forever) is proved', 'fixture bodies are deterministic functions of their arguments']),
    'C09': dict(units=ENGINES + WRAPPERS, explanation='insert_result* leave the cache untouched for Err and store Ok; wrapper contracts on the expansions of Result / std::result::Result fixtures (sync and async, with and without max_memory): Err is never stored, Ok is'),
    'C10': dict(units=ENGINES + WRAPPERS, explanation='engine contracts the wrappers rest on (representation invariant preserved by every operation, last store wins) and wrapper contracts on the expansions of cache_if fixtures: the predicate is consulted exactly once per body run with that key (effect log) and its verdict on (key, result) decides the store; sync Result: only Ok',
                assumptions=['predicates are pure functions of (key, value)']),
    'C11': dict(units=ENGINES + WRAPPERS, explanation='wrapper contracts on the expansions of invalidate_on fixtures: a stale hit is never returned, the body reruns and the fresh result replaces the entry (last store wins in all three engines); a valid hit is served without the body',
                assumptions=['the check is a pure function of (key, value) during one call']),
    'C12': dict(units=['registry', 'wrappers_global', 'wrappers_async'], extra=[_reg('C12')],
                explanation='registry contracts with an explicit effect log (R8): register puts the name under each tag / event / dependency in its own table; invalidate_by_{tag,event,dependency} invoke exactly the clear callbacks of the names registered under that key in that table and return their number; invalidate_cache invokes exactly that name; the clear callbacks emitted by the macros empty store and queue; registrations on the real expansions use the right name and slots (structural)',
                assumptions=['R8: what a dyn callback does is verified separately on the macro expansion (clear callbacks of the fixture corpus)', 'the "used at least once" precondition: registration happens in the Once/OnceCell block before the first lookup (structure of the expansion)']),
    'C13': dict(units=['registry', 'wrappers_global', 'wrappers_async'] + ENGINES, extra=[_reg('C13')],
                explanation='conditional-invalidation callbacks as emitted by the real macros (one verified representative per emitted shape): exactly the stored keys satisfying the predicate leave store and queue, survivors untouched, queue order preserved, representation invariant re-established -- so that by the engine contracts later limits / evictions / totals are those of a cache in which the keys were never stored',
                assumptions=['R8: the user predicate is a pure function of the key; the closure invalidate_all_with builds around it is abstracted to "the predicate specialised to that cache name"']),
    'C15': dict(units=ENGINES + ['interference', 'stats_registry'] + WRAPPERS, extra=[_reg('C15'), _kani('C15', 'stats')], explanation='on the real macro expansions one cached call counts exactly one lookup (wrapper contracts: the store, the predicates and the refresh path count nothing); exactly one of hits/misses is bumped by exactly one per lookup, a hit exactly when an unexpired entry was found (all three engines); the same under the interference projection (every lock acquisition sees arbitrarily changed data) for the global and async lookups; CacheStats methods; stats_registry register/get/reset/clear (retrievable under the name, reset touches only that entry); every expansion registers its statistics under `name` or the function name (structural)', assumptions=['fetch_add on AtomicU64 is an atomic read-modify-write (std): with exactly one fetch_add(1) per lookup the totals are exact under any interleaving; the sequential behaviour of the REAL CacheStats (wrapping +1 on one counter only, reset, clone) is proved by Kani in the thorough tier on stats.rs compiled in place']),
}
