// FLOAT PRELUDE (DESIGN.md 5.3, rule R6) -- hand-written; spliced only into units that contain the scoring helpers.
// Verus has no usable f64 theory here, so the f64 operations of the scoring helpers are NAMED operations with
// uninterpreted meaning plus the axioms below. Every axiom is an assumption about IEEE-754 arithmetic
// ("machine arithmetic treated as mathematical"); those CBMC can decide are validated bit-precisely by the Kani
// harnesses in /verif/kani (thorough tier), the others are listed as assumed in every evidence file.
verus! {

pub mod fl {
    use vstd::prelude::*;
    pub uninterp spec fn s_to_f64(x: u64) -> f64;
    pub uninterp spec fn s_fmul(a: f64, b: f64) -> f64;
    pub uninterp spec fn s_fdiv(a: f64, b: f64) -> f64;
    pub uninterp spec fn s_fsub(a: f64, b: f64) -> f64;
    pub uninterp spec fn s_fmin(a: f64, b: f64) -> f64;
    pub uninterp spec fn s_fmax(a: f64, b: f64) -> f64;
    pub uninterp spec fn s_fpowf(a: f64, b: f64) -> f64;
    /// a < b on f64 (false when either is NaN)
    pub uninterp spec fn s_flt(a: f64, b: f64) -> bool;
    pub uninterp spec fn s_zero() -> f64;
    pub uninterp spec fn s_one() -> f64;
    pub uninterp spec fn s_max() -> f64;
    /// finite and >= 0 (so: not NaN)
    pub uninterp spec fn nonneg(a: f64) -> bool;
    /// +0.0 or -0.0
    pub uninterp spec fn is_zero(a: f64) -> bool;

    // ---- order: `<` restricted to non-NaN values is a strict weak order
    pub broadcast axiom fn ax_lt_irrefl(a: f64) ensures !#[trigger] s_flt(a, a);
    pub broadcast axiom fn ax_lt_trans(a: f64, b: f64, c: f64)
        requires #[trigger] s_flt(a, b), #[trigger] s_flt(b, c) ensures s_flt(a, c);
    // ---- integers convert to finite non-negative values; only 0 converts to zero  (validated by Kani: k_to_f64_*)
    pub broadcast axiom fn ax_conv(n: u64)
        ensures nonneg(#[trigger] s_to_f64(n)), is_zero(s_to_f64(n)) <==> n == 0;
    pub broadcast axiom fn ax_consts()
        ensures is_zero(s_zero()), nonneg(s_zero()), nonneg(s_one()), !is_zero(s_one()), #[trigger] s_flt(s_zero(), s_max());
    // ---- products of finite non-negative factors that stay finite: non-negative, zero iff a factor is zero
    //      (validated by Kani for every product the ARC score forms -- two converted u64 values: finite, below f64::MAX,
    //      zero iff a factor is zero: k_arc_score_finite_below_max, k_fmul_sign_zero; for a finite non-negative factor times
    //      a factor in [0, 1], the TLRU age factor: finite, non-negative, not larger, zero if a factor is zero:
    //      k_mul_by_unit_interval; that such a product is zero ONLY if a factor is zero (no underflow) and that products
    //      with the powf term stay finite are ASSUMED)
    pub broadcast axiom fn ax_mul(a: f64, b: f64)
        requires nonneg(a), nonneg(b)
        ensures nonneg(#[trigger] s_fmul(a, b)), is_zero(s_fmul(a, b)) <==> (is_zero(a) || is_zero(b));
    // ---- zero is the least non-negative value
    pub broadcast axiom fn ax_zero_least(a: f64, b: f64)
        requires nonneg(a), is_zero(b)
        ensures !#[trigger] s_flt(a, b);
    pub broadcast axiom fn ax_zero_below_positive(a: f64, b: f64)
        requires nonneg(a), !is_zero(a), is_zero(b)
        ensures #[trigger] s_flt(b, a);
    // ---- clamp((1 - x/t), 0, 1) for non-negative x and t >= 1 is finite and non-negative  (validated by Kani: k_age_factor_range)
    pub broadcast axiom fn ax_age_factor(x: f64, t: f64)
        requires nonneg(x), nonneg(t), !is_zero(t)
        ensures nonneg(#[trigger] s_fmax(s_fsub(s_one(), s_fmin(s_fdiv(x, t), s_one())), s_zero()));
    // ---- powf on a positive base with a finite positive exponent is finite and positive (ASSUMED)
    pub broadcast axiom fn ax_powf(a: f64, w: f64)
        requires nonneg(a), !is_zero(a), nonneg(w), !is_zero(w)
        ensures nonneg(#[trigger] s_fpowf(a, w)), !is_zero(s_fpowf(a, w));
    // ---- every score the helpers compute is finite, i.e. strictly below f64::MAX (ASSUMED: holds whenever
    //      hits * queue length * frequency_weight stays far below 1.8e308)
    pub broadcast axiom fn ax_score_below_max(a: f64)
        requires nonneg(a) ensures #[trigger] s_flt(a, s_max());

    /// the age of an entry in fractional seconds is finite and non-negative
    pub broadcast axiom fn ax_age_nonneg(i: std::time::Instant) ensures nonneg(#[trigger] crate::clk::age_f64(i));

    pub broadcast group group_float { ax_age_nonneg, ax_lt_irrefl, ax_lt_trans, ax_conv, ax_consts, ax_mul, ax_zero_least, ax_zero_below_positive, ax_age_factor, ax_powf, ax_score_below_max }
}
pub use fl::*;

#[verifier::external_body] pub fn to_f64(x: u64) -> (r: f64) ensures r == s_to_f64(x) { x as f64 }
#[verifier::external_body] pub fn fmul(a: f64, b: f64) -> (r: f64) ensures r == s_fmul(a, b) { a * b }
#[verifier::external_body] pub fn fdiv(a: f64, b: f64) -> (r: f64) ensures r == s_fdiv(a, b) { a / b }
#[verifier::external_body] pub fn fsub(a: f64, b: f64) -> (r: f64) ensures r == s_fsub(a, b) { a - b }
#[verifier::external_body] pub fn fmin(a: f64, b: f64) -> (r: f64) ensures r == s_fmin(a, b) { a.min(b) }
#[verifier::external_body] pub fn fmax(a: f64, b: f64) -> (r: f64) ensures r == s_fmax(a, b) { a.max(b) }
#[verifier::external_body] pub fn fpowf(a: f64, b: f64) -> (r: f64) ensures r == s_fpowf(a, b) { a.powf(b) }
#[verifier::external_body] pub fn flt(a: f64, b: f64) -> (r: bool) ensures r == s_flt(a, b) { a < b }
#[verifier::external_body] pub fn fgt(a: f64, b: f64) -> (r: bool) ensures r == s_flt(b, a) { a > b }
#[verifier::external_body] pub fn f_zero() -> (r: f64) ensures r == s_zero() { 0.0 }
#[verifier::external_body] pub fn f_one() -> (r: f64) ensures r == s_one() { 1.0 }
#[verifier::external_body] pub fn f64_max() -> (r: f64) ensures r == s_max() { f64::MAX }

/// fractional seconds of a Duration (sync TLRU age): finite and non-negative
#[verifier::external_body]
pub fn dur_as_secs_f64(d: std::time::Duration) -> (r: f64) ensures r == dur_f64(d) { d.as_secs_f64() }

} // verus!
