"""Unit wrappers_global_await (concurrent sentence of C03, sync global scope): what #[cache] emits, with arbitrary interference (preserving the
representation invariant and the configuration) while the user body runs with no lock held, against the schedule-independent clauses only."""
from contracts.units import wrap_common

UNIT = dict(name='wrappers_global_await', prelude=['prelude.rs', 'prelude_float.rs'], items=wrap_common.build('global', await_interference=True))
