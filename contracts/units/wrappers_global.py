"""Unit wrappers_global: what #[cache] / #[cache_async] emit for the global-scope fixtures, against contracts generated from the attributes."""
from contracts.units import wrap_common

UNIT = dict(name='wrappers_global', prelude=['prelude.rs', 'prelude_float.rs'], items=wrap_common.build('global'))
