"""Unit wrappers_async: what #[cache] / #[cache_async] emit for the async-scope fixtures, against contracts generated from the attributes."""
from contracts.units import wrap_common

UNIT = dict(name='wrappers_async', prelude=['prelude.rs', 'prelude_float.rs'], items=wrap_common.build('async'))
