"""Unit `monotone` (concurrent sentence of C03): rely/guarantee argument on the real lookup / store code of the global and the
async engine in the configuration the sentence is about (no limit, no ttl, no max_memory).

GUARANTEE proved here for every function: each critical section on the STORE (a read/write lock scope of `map`; a single
DashMap operation on `cache`) leaves every key that was resident when the section began resident when it ends.  Encoding
(rule R1g): a ghost parameter `g` holds the key set of the store at its last acquisition; every acquisition first requires
`g` to be contained in the current key set (= the state the previous section released), then lets the store change
arbitrarily (other threads), then records the new key set.  The same containment is required when the function returns.

Consequence: with every section of every operation monotone, a key stored by a call that has returned is resident in every
later released state (lemma_resident_forever over the trace of released states, proved), so every later lookup finds it at
its read section -- and the lookup contract below says a lookup that returns None did not see the key at its read section.
What stays informal is only the identification of the real execution with such a trace (each released state is the result
of one critical section of one of the operations verified here).  The wrapper contracts (units
wrappers_*) say the body runs only after such a None.  Invalidation and eviction are excluded by the sentence's premise."""
from extract.rules import R, R4, R5, R1_TYPES
from contracts.units.engine_common import COMMON
from contracts.units.global_cache import UTILS_FNS, SCORE_STUBS
from contracts.units import async_cache as AC

# the shared helpers of utils.rs work on data the caller has already locked (no acquisition inside): they appear with the
# contracts verified in unit `utils`, so edits inside them are judged there (and by that unit's stand-in), not here
UTILS_STUBS = [dict(it, stub=True, loops={}, hints=[]) for it in UTILS_FNS]

G = 'cachelito-core/src/global_cache.rs'
A = 'cachelito-core/src/async_global_cache.rs'
GI = r"^impl<R: Clone \+ 'static> GlobalCache<R>$"

GROW_SPEC = dict(kind='raw', label='monotone_spec', text='''
// ---------------------------------------------------------------- monotone store (R1g)
/// A store acquisition under the interference projection with the monotonicity OBLIGATION on the section that just ended.
#[verifier::external_body]
pub fn acquire<V>(m: &mut HashMap<String, V>, g: &mut Ghost<Set<String>>)
    requires old(g)@.subset_of(old(m)@.dom()),
    ensures final(g)@ == final(m)@.dom(),
{ }

/// the released states of the store, in the order the critical sections ended, each section satisfying the guarantee
pub open spec fn monotone_trace(t: Seq<Set<String>>) -> bool {
    forall|i: int| 0 <= i < t.len() - 1 ==> (#[trigger] t[i]).subset_of(t[i + 1])
}
/// the step from "every critical section is monotone" to the concurrent sentence of C03: a key resident in one released
/// state is resident in every later one, so every lookup whose read section comes later sees it
pub proof fn lemma_resident_forever(t: Seq<Set<String>>, i: int, j: int, k: String)
    requires monotone_trace(t), 0 <= i <= j < t.len(), t[i].contains(k)
    ensures t[j].contains(k)
    decreases j - i
{
    if i < j {
        assert(t[i].subset_of(t[i + 1]));
        lemma_resident_forever(t, i + 1, j, k);
    }
}
''')

UNB_G = [('unbounded_configuration', 'old(self).limit is None && old(self).ttl is None && old(self).max_memory is None'),
         ('section_start', 'old(g)@.subset_of(old(self).map@.dom())')]
UNB_A = [('unbounded_configuration', 'old(self).limit is None && old(self).ttl is None && old(self).max_memory is None'),
         ('section_start', 'old(g)@.subset_of(old(self).cache@.dom())')]
CFG = 'final(self).limit == old(self).limit && final(self).ttl == old(self).ttl && final(self).max_memory == old(self).max_memory && final(self).policy == old(self).policy'
LAST_G = ('last_section_removed_nothing', ['C03'], 'final(g)@.subset_of(final(self).map@.dom())')
LAST_A = ('last_section_removed_nothing', ['C03'], 'final(g)@.subset_of(final(self).cache@.dom())')
MISS = ('a_miss_did_not_see_the_key', ['C03'], 'res is None ==> !final(g)@.contains(s2s(key))')
STORED_G = ('stored_when_the_call_returns', ['C03'], 'final(self).map@.contains_key(s2s(key))')
STORED_A = ('stored_when_the_call_returns', ['C03'], 'final(self).cache@.contains_key(s2s(key))')
CFGF = ('cfg_frame', ['C03'], CFG)


def g(name, **kw):
    d = dict(kind='fn', file=G, impl=GI, name=name, label='GlobalCache::%s[monotone]' % name, engine='GlobalCache', interference=True,
             grow=dict(store='map', callees=['increment_frequency']), props=['C03'])
    d.update(kw)
    return d


def a(name, **kw):
    d = dict(kind='fn', file=A, impl=AC.IMPL, name=name, label='AsyncGlobalCache::%s[monotone]' % name, engine='AsyncGlobalCache', interference=True,
             grow=dict(store='cache', callees=[]), impl_rules=AC.LIFETIME, props=['C03'])
    d['rules'] = kw.pop('rules', []) + R1_TYPES
    d.update(kw)
    return d


UNIT = dict(
    name='monotone',
    auto_helpers=True,
    lemma_props={'lemma_resident_forever': ['C03'], '*': ['C03']},
    prelude=['prelude.rs', 'prelude_float.rs'],
    items=COMMON + UTILS_STUBS + SCORE_STUBS + [AC.SPEC_MIN, GROW_SPEC,
        dict(kind='struct', file=G, name='GlobalCache', rules=R1_TYPES),
        g('increment_frequency', requires=UNB_G, ensures=[CFGF, LAST_G]),
        g('get', ret='res', requires=UNB_G, ensures=[CFGF, LAST_G, MISS]),
        # no limit: the entry-limit eviction does nothing (clause no_overflow_noop, verified in unit global_cache); it acquires no lock on that path
        dict(kind='fn', file=G, impl=GI, name='handle_entry_limit_eviction', label='GlobalCache::handle_entry_limit_eviction[stub]', engine='GlobalCache',
             split_self=True, stub=True, rules=R1_TYPES,
             ensures=[('no_limit_noop', [], 'limit is None ==> final(map)@ == old(map)@ && final(o)@ == old(o)@')]),
        g('insert', rules=R4, requires=UNB_G, ensures=[CFGF, LAST_G, STORED_G]),
        dict(kind='struct', file=A, name='AsyncGlobalCache', rules=R1_TYPES + AC.LIFETIME),
        a('get', ret='res', rules=R4 + R5, requires=UNB_A, ensures=[CFGF, LAST_A, MISS]),
        a('is_already_key_inserted', split_self=True, split_always=('max_memory',), rules=R4,
          requires=[('unbounded_configuration', 'max_memory is None'), ('section_start', 'old(g)@.subset_of(old(cache)@.dom())')],
          ensures=[('last_section_removed_nothing', ['C03'], 'final(g)@.subset_of(final(cache)@.dom())')]),
        dict(kind='fn', file=A, impl=AC.IMPL, name='handle_entry_limit_eviction', label='AsyncGlobalCache::handle_entry_limit_eviction[stub]', engine='AsyncGlobalCache',
             split_self=True, stub=True, rules=R1_TYPES, impl_rules=AC.LIFETIME,
             ensures=[('no_limit_noop', [], 'limit is None ==> final(cache)@ == old(cache)@ && final(order)@ == old(order)@')]),
        a('insert', rules=R4 + R5, requires=UNB_A, ensures=[CFGF, LAST_A, STORED_A]),
    ],
)
