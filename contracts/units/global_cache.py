"""Unit `global_cache`: GlobalCache<R> (cachelito-core/src/global_cache.rs) under the sequential projection
(R1: locks erased, R2: receiver splitting) with the helper functions of utils.rs it calls."""
from extract.rules import R, R4, R5, R1_TYPES
from contracts.units.engine_common import (COMMON, SYNC_SPEC, wf_pre, store_pre, get_ensures, incr_ensures, evict_requires, evict_ensures, insert_ensures, CFG_FRAME, insertm_requires, insertm_ensures, memloop_spec, insert_result_ensures, MEM_HINTS, mem_hints)
from contracts.units import utils as U

G = 'cachelito-core/src/global_cache.rs'
IMPL = r"^impl<R: Clone \+ 'static> GlobalCache<R>$"
IMPL_MEM = r"^impl<R: Clone \+ 'static \+ crate::MemoryEstimator> GlobalCache<R>$"
IMPL_RULES = [R('R0.crate_path', r'\bcrate :: MemoryEstimator\b', 'MemoryEstimator', 'crate:: path prefix')]

UTILS_FNS = [it for it in U.UNIT['items'] if it.get('kind') == 'fn' and it.get('file') == U.U]

from contracts.units import scores as SC

ENUM = dict(kind='raw', label='enum_collect', text='''
/// R4: `o.iter().enumerate()` -> the vector of (index, &element) pairs the iterator yields
#[verifier::external_body]
pub fn enum_collect<'a>(o: &'a VecDeque<String>) -> (r: Vec<(usize, &'a String)>)
    ensures r@.len() == o@.len(), r@.len() <= usize::MAX, pairs_indexed(r@), forall|j: int| #![trigger r@[j]] #![trigger o@[j]] 0 <= j < r@.len() ==> *r@[j].1 == o@[j],
{ unimplemented!() }

/// String::clone yields an equal String (vstd specifies String::clone; stated for the `cloned` predicate of generic code)
pub broadcast axiom fn ax_cloned_string(a: String, b: String)
    ensures #[trigger] cloned(a, b) ==> a == b;
''')

# the scoring helpers are verified in unit `scores`; the engines see only their contracts (same text, stub=True)
SCORE_STUBS = [SC.SPEC, dict(SC.ARC_ITEM, stub=True, loops={}, hints=[]), dict(SC.TLRU_ITEM, stub=True, loops={}, hints=[]), ENUM]

M = 'map'


def fn(name, **kw):
    d = dict(kind='fn', file=G, impl=IMPL, name=name, label='GlobalCache::' + name, engine='GlobalCache')
    d.update(kw)
    return d


UNIT = dict(
    name='global_cache',
    prelude=['prelude.rs', 'prelude_float.rs'],
    items=COMMON + UTILS_FNS + SCORE_STUBS + [SYNC_SPEC,
        dict(kind='struct', file=G, name='GlobalCache', rules=R1_TYPES),
        fn('new', ret='c', rules=R1_TYPES, ensures=[('stores_arguments', ['C01', 'C04', 'C05', 'C06', 'C07', 'C08'], 'c.limit == limit && c.max_memory == max_memory && c.policy == policy && c.ttl == ttl && c.frequency_weight == frequency_weight && c.map@ == map@ && c.order@ == order@')]),
        fn('get', ret='res', requires=wf_pre(M), ensures=get_ensures(M)),
        fn('increment_frequency', ensures=incr_ensures(M)),
        fn('handle_entry_limit_eviction', split_self=True,
           hints=[(('fn_start',), 'float_axioms', 'broadcast use fl::group_float; broadcast use b_arc_min_zero; broadcast use b_tlru_min_zero; broadcast use ax_cloned_string;')], rules=R4 + R5 + R1_TYPES,
           requires=evict_requires('map', 'o'), ensures=evict_ensures('map', 'o'),
           loops={0: dict(
               invariant_except_break=[('nothing_popped', 'map_write@ == old(map)@ && o@ == old(o)@')],
               invariant=[('wf0', 'wf(old(map)@, old(o)@) && old(o)@.len() > 0')],
               ensures=[('front_evicted', 'evicted(old(map)@, old(o)@, map_write@, o@, old(o)@[0])')],
               decreases='o@.len()')}),
        fn('insert', rules=R4, requires=store_pre(M), ensures=insert_ensures(M)),
        fn('insert_with_memory', impl=IMPL_MEM, impl_rules=IMPL_RULES, rules=R4 + R5,
           requires=insertm_requires(M), ensures=insertm_ensures(M),
           loops={
               0: memloop_spec(M, 'o'),
               1: dict(
                   invariant_except_break=[('nothing_popped', '!successfully_evicted && map_write@ == m_in && o@ == o_in')],
                   invariant=[('wf_in', 'wf(m_in, o_in) && o_in.len() > 0')],
                   ensures=[('front_evicted', 'successfully_evicted && evicted(m_in, o_in, map_write@, o@, o_in[0])')],
                   decreases='o@.len()'),
           },
           hints=mem_hints(M, 'o') + [(('before_loop', 1), 'snapshot', 'let ghost m_in = map_write@; let ghost o_in = o@;')]),
        fn('clear', impl=IMPL_MEM, impl_rules=IMPL_RULES, ensures=[CFG_FRAME, ('empties_store_and_queue', ['C12', 'C04'], 'final(self).map@.len() == 0 && final(self).order@.len() == 0'), ('stats_frame', ['C15'], 'final(self).stats == old(self).stats')]),
        fn('insert_result', impl=r"^impl<T: Clone \+ Debug \+ 'static, E: Clone \+ Debug \+ 'static> GlobalCache<Result<T, E>>$", requires=store_pre(M), ensures=insert_result_ensures(M)),
        fn('insert_result_with_memory', impl=r"MemoryEstimator,? > GlobalCache<Result<T, E>>$", impl_rules=IMPL_RULES,
           requires=store_pre(M) + [('counters_unsaturated', 'freq_ok(old(self).%s@)' % M)],
           ensures=[e for e in insert_result_ensures(M) if e[0] in ('cfg_frame', 'err_changes_nothing', 'post_wf', 'survivors_unchanged', 'stats_frame')]
                   + [('ok_stored', ['C09', 'C01'], '(value is Ok && final(self).%s@.contains_key(s2s(key))) ==> final(self).%s@[s2s(key)].value is Ok && cloned(value->Ok_0, final(self).%s@[s2s(key)].value->Ok_0)' % (M, M, M))]),
    ],
)
