"""Unit `global_cache`: GlobalCache<R> (cachelito-core/src/global_cache.rs) under the sequential projection
(R1: locks erased, R2: receiver splitting) with the helper functions of utils.rs it calls."""
from extract.rules import R, R4, R5, R1_TYPES
from contracts.units.engine_common import COMMON
from contracts.units import utils as U

G = 'cachelito-core/src/global_cache.rs'
IMPL = r"^impl<R: Clone \+ 'static> GlobalCache<R>$"
IMPL_MEM = r"^impl<R: Clone \+ 'static \+ crate::MemoryEstimator> GlobalCache<R>$"
IMPL_RULES = [R('R0.crate_path', r'\bcrate :: MemoryEstimator\b', 'MemoryEstimator', 'crate:: path prefix')]

UTILS_FNS = [it for it in U.UNIT['items'] if it.get('kind') == 'fn' and it.get('file') == U.U]

SCORE_STUBS = dict(kind='raw', label='score_stubs', text='''
pub open spec fn pairs_have_key(keys: Seq<(usize, &String)>, k: String) -> bool {
    exists|j: int| 0 <= j < keys.len() && *(#[trigger] keys[j]).1 == k
}
// ARC / TLRU scoring helpers of utils.rs: verified in unit `scores`; here only their contract is visible.
#[verifier::external_body]
pub fn find_arc_eviction_key<R>(map: &HashMap<String, CacheEntry<R>>, keys: Vec<(usize, &String)>) -> (res: Option<String>)
    ensures
        res is Some ==> map@.contains_key(res->Some_0) && pairs_have_key(keys@, res->Some_0),
        res is None ==> forall|k: String| #[trigger] map@.contains_key(k) ==> !pairs_have_key(keys@, k),
{ unimplemented!() }

#[verifier::external_body]
pub fn find_tlru_eviction_key<R>(map: &HashMap<String, CacheEntry<R>>, keys: Vec<(usize, &String)>, ttl: Option<u64>, frequency_weight: Option<f64>) -> (res: Option<String>)
    ensures
        res is Some ==> map@.contains_key(res->Some_0) && pairs_have_key(keys@, res->Some_0),
        res is None ==> forall|k: String| #[trigger] map@.contains_key(k) ==> !pairs_have_key(keys@, k),
{ unimplemented!() }

/// R4: `o.iter().enumerate()` -> the vector of (index, &element) pairs the iterator yields
#[verifier::external_body]
pub fn enum_collect<'a>(o: &'a VecDeque<String>) -> (r: Vec<(usize, &'a String)>)
    ensures r@.len() == o@.len(), forall|j: int| 0 <= j < r@.len() ==> (#[trigger] r@[j]).0 == j && *r@[j].1 == o@[j],
        forall|k: String| #[trigger] o@.contains(k) <==> pairs_have_key(r@, k),
{ unimplemented!() }
''')

WF_PRE = [('wf', 'wf(old(self).map@, old(self).order@)')]
CFG_FRAME = ('cfg_frame', ['C01', 'C04'],
             'final(self).limit == old(self).limit && final(self).max_memory == old(self).max_memory && final(self).policy == old(self).policy '
             '&& final(self).ttl == old(self).ttl && final(self).frequency_weight == old(self).frequency_weight')

UNIT = dict(
    name='global_cache',
    items=COMMON + UTILS_FNS + [SCORE_STUBS,
        dict(kind='struct', file=G, name='GlobalCache', rules=R1_TYPES),
        # ------------------------------------------------------------------ get
        dict(kind='fn', file=G, impl=IMPL, name='get', label='GlobalCache::get', engine='GlobalCache', ret='res',
             requires=WF_PRE,
             ensures=[
                 CFG_FRAME,
                 ('post_wf', ['C04', 'C06', 'C13'], 'wf(final(self).map@, final(self).order@)'),
                 ('never_serves_expired', ['C06'], 'res is Some ==> old(self).map@.contains_key(s2s(key)) && !expired(old(self).map@[s2s(key)], old(self).ttl)'),
                 ('value_of_key', ['C01'], 'res is Some ==> cloned(old(self).map@[s2s(key)].value, res->Some_0)'),
                 ('serves_unexpired', ['C03', 'C06'], 'old(self).map@.contains_key(s2s(key)) && !expired(old(self).map@[s2s(key)], old(self).ttl) ==> res is Some'),
                 ('purges_expired', ['C06', 'C04'], 'old(self).map@.contains_key(s2s(key)) && expired(old(self).map@[s2s(key)], old(self).ttl) ==> '
                  'final(self).map@ == old(self).map@.remove(s2s(key)) && final(self).order@ == rm1(old(self).order@, s2s(key))'),
                 ('miss_changes_nothing', ['C03', 'C04'], '!old(self).map@.contains_key(s2s(key)) ==> final(self).map@ == old(self).map@ && final(self).order@ == old(self).order@'),
                 ('hit_keeps_entries', ['C01', 'C03'], 'res is Some ==> final(self).map@.dom() == old(self).map@.dom() '
                  '&& forall|x: String| x != s2s(key) && old(self).map@.contains_key(x) ==> #[trigger] final(self).map@[x] == old(self).map@[x]'),
                 ('hit_keeps_value', ['C01', 'C06'], 'res is Some ==> final(self).map@[s2s(key)].value == old(self).map@[s2s(key)].value '
                  '&& final(self).map@[s2s(key)].inserted_at == old(self).map@[s2s(key)].inserted_at'),
                 ('hit_counts', ['C08'], 'res is Some ==> final(self).map@[s2s(key)].frequency == '
                  '(if hit_counts(old(self).policy) { bump(old(self).map@[s2s(key)].frequency) } else { old(self).map@[s2s(key)].frequency })'),
                 ('hit_recency', ['C07', 'C08'], 'res is Some ==> final(self).order@ == (if hit_touches(old(self).policy) { touch(old(self).order@, s2s(key)) } else { old(self).order@ })'),
                 ('one_counter', ['C15'], 'final(self).stats.hits.v == (if res is Some { old(self).stats.hits.v.wrapping_add(1) } else { old(self).stats.hits.v }) '
                  '&& final(self).stats.misses.v == (if res is Some { old(self).stats.misses.v } else { old(self).stats.misses.v.wrapping_add(1) })'),
             ]),
        dict(kind='fn', file=G, impl=IMPL, name='increment_frequency', label='GlobalCache::increment_frequency', engine='GlobalCache',
             ensures=[
                 CFG_FRAME,
                 ('frame', ['C01', 'C07'], 'final(self).order@ == old(self).order@ && final(self).stats == old(self).stats'),
                 ('absent_noop', ['C04'], '!old(self).map@.contains_key(s2s(key)) ==> final(self).map@ == old(self).map@'),
                 ('counts', ['C08'], 'old(self).map@.contains_key(s2s(key)) ==> final(self).map@.dom() == old(self).map@.dom() '
                  '&& final(self).map@[s2s(key)].frequency == bump(old(self).map@[s2s(key)].frequency) '
                  '&& final(self).map@[s2s(key)].value == old(self).map@[s2s(key)].value '
                  '&& final(self).map@[s2s(key)].inserted_at == old(self).map@[s2s(key)].inserted_at '
                  '&& forall|x: String| x != s2s(key) && old(self).map@.contains_key(x) ==> #[trigger] final(self).map@[x] == old(self).map@[x]'),
             ]),
        # ------------------------------------------------------------------ entry-limit eviction (R2: split receiver)
        dict(kind='fn', file=G, impl=IMPL, name='handle_entry_limit_eviction', label='GlobalCache::handle_entry_limit_eviction',
             engine='GlobalCache', split_self=True, rules=R4 + R5 + R1_TYPES,
             requires=[('wf', 'wf(old(map)@, old(o)@)'),
                       # call sites: the entry just stored sits at the back of the queue with zero hits
                       ('newcomer_unsaturated', 'old(o)@.len() > 0 ==> old(map)@.contains_key(old(o)@.last()) && old(map)@[old(o)@.last()].frequency < u64::MAX'),
                       # implied by wf; stated so that the terms are available to the solver
                       ('front_stored', 'old(o)@.len() > 0 ==> old(map)@.contains_key(old(o)@[0]) && old(o)@.contains(old(o)@[0])')],
             ensures=[
                 ('post_wf', ['C04'], 'wf(final(map)@, final(o)@)'),
                 ('no_overflow_noop', ['C04', 'C03'], '(limit is None || old(o)@.len() <= limit->Some_0) ==> final(map)@ == old(map)@ && final(o)@ == old(o)@'),
                 ('overflow_one_victim', ['C04', 'C07', 'C08'], '(limit is Some && old(o)@.len() > limit->Some_0) ==> '
                  'exists|v: String| sync_victim_ok(policy, old(map)@, old(o)@, v) && final(map)@ == #[trigger] old(map)@.remove(v) && final(o)@ == rm1(old(o)@, v)'),
             ],
             loops={0: dict(
                 invariant_except_break=[('nothing_popped', 'map_write@ == old(map)@ && o@ == old(o)@')],
                 invariant=[('wf0', 'wf(old(map)@, old(o)@) && old(o)@.len() > 0')],
                 ensures=[('front_evicted', 'evicted(old(map)@, old(o)@, map_write@, o@, old(o)@[0])')],
                 decreases='o@.len()')},
             ),
        # ------------------------------------------------------------------ insert
        dict(kind='fn', file=G, impl=IMPL, name='insert', label='GlobalCache::insert', engine='GlobalCache', rules=R4,
             requires=WF_PRE,
             ensures=[
                 CFG_FRAME,
                 ('post_wf', ['C04', 'C13'], 'wf(final(self).map@, final(self).order@)'),
                 ('stats_frame', ['C15'], 'final(self).stats == old(self).stats'),
                 ('fits_exact', ['C04', 'C03'], '(old(self).limit is None || touch(old(self).order@, s2s(key)).len() <= old(self).limit->Some_0) ==> '
                  'final(self).order@ == touch(old(self).order@, s2s(key)) && final(self).map@.dom() == old(self).map@.dom().insert(s2s(key))'),
                 ('overflow_one_victim', ['C04', 'C07', 'C08'], '(old(self).limit is Some && touch(old(self).order@, s2s(key)).len() > old(self).limit->Some_0) ==> '
                  'exists|v: String, e: CacheEntry<R>| e.value == value && e.frequency == 0 '
                  '&& sync_victim_ok(old(self).policy, old(self).map@.insert(s2s(key), e), touch(old(self).order@, s2s(key)), v) '
                  '&& final(self).map@ == #[trigger] old(self).map@.insert(s2s(key), e).remove(v) && final(self).order@ == rm1(touch(old(self).order@, s2s(key)), v)'),
                 ('survivors_unchanged', ['C01', 'C13'], 'forall|x: String| x != s2s(key) && #[trigger] final(self).map@.contains_key(x) ==> old(self).map@.contains_key(x) && final(self).map@[x] == old(self).map@[x]'),
                 ('last_store_wins', ['C01', 'C11'], 'final(self).map@.contains_key(s2s(key)) ==> final(self).map@[s2s(key)].value == value && final(self).map@[s2s(key)].frequency == 0'),
                 ('bound', ['C04'], '(old(self).limit is Some && old(self).limit->Some_0 >= 1 && old(self).order@.len() <= old(self).limit->Some_0) ==> final(self).order@.len() <= old(self).limit->Some_0'),
             ]),
    ],
)
