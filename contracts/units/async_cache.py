"""Unit `async_cache`: AsyncGlobalCache<R> (cachelito-core/src/async_global_cache.rs) under the sequential projection:
DashMap -> HashMap, Mutex erased (R1), receiver splitting (R2), clock reading -> clock_now_secs() (R5)."""
from extract.rules import R, R4, R5, R1_TYPES
from contracts.units.engine_common import COMMON, CFG_FRAME

A = 'cachelito-core/src/async_global_cache.rs'
IMPL = r"^impl<'a, R: Clone> AsyncGlobalCache<'a, R>$"
IMPL_MEM = r"^impl<'a, R: Clone \+ crate::MemoryEstimator> AsyncGlobalCache<'a, R>$"
LIFETIME = [R('R0.lifetime', r"< 'a , ", '<', "lifetime 'a of the erased references")]
M0 = 'old(self).cache@'
M1 = 'final(self).cache@'
K = 's2s(key)'

SPEC = dict(kind='raw', label='async_spec', text='''
pub open spec fn sat_sub(a: u64, b: u64) -> u64 { if a >= b { (a - b) as u64 } else { 0 } }

/// C06 (async, whole-second clock): expired iff a ttl is set and now - birth (saturating) >= ttl
pub open spec fn aexpired<R>(e: (R, u64, u64), ttl: Option<u64>) -> bool {
    ttl is Some && sat_sub(spec_clock_secs(), e.1) >= ttl->Some_0
}

pub open spec fn a_is_min_hits<R>(m: Map<String, (R, u64, u64)>, q: Seq<String>, k: String) -> bool {
    m.contains_key(k) && q.contains(k)
    && forall|j: int| 0 <= j < q.len() && m.contains_key(#[trigger] q[j]) ==> m[k].2 <= m[q[j]].2
}

/// counters never saturate (assumption reported in the evidence: 2^64 hits on one entry are unreachable)
pub open spec fn a_freq_ok<R>(m: Map<String, (R, u64, u64)>) -> bool {
    forall|k: String| m.contains_key(k) ==> (#[trigger] m[k]).2 < u64::MAX
}

// ---- documented scores (C08): rank = position in the queue + 1 (back of the queue = most recently used = highest rank)
pub open spec fn a_arc_score<R>(m: Map<String, (R, u64, u64)>, q: Seq<String>, i: int) -> f64 {
    s_fmul(s_to_f64(m[q[i]].2), s_to_f64((i + 1) as u64))
}
pub open spec fn a_age_factor(birth: u64, ttl: Option<u64>) -> f64 {
    if ttl is Some { s_fmax(s_fsub(s_one(), s_fmin(s_fdiv(s_to_f64(sat_sub(spec_clock_secs(), birth)), s_to_f64(ttl->Some_0)), s_one())), s_zero()) } else { s_one() }
}
pub open spec fn a_freq_component(hits: u64, fw: Option<f64>) -> f64 {
    if fw is Some { if s_flt(s_zero(), s_to_f64(hits)) { s_fpowf(s_to_f64(hits), fw->Some_0) } else { s_zero() } } else { s_to_f64(hits) }
}
/// hits^frequency_weight x rank x remaining-lifetime fraction
pub open spec fn a_tlru_score<R>(m: Map<String, (R, u64, u64)>, q: Seq<String>, i: int, ttl: Option<u64>, fw: Option<f64>) -> f64 {
    s_fmul(s_fmul(a_freq_component(m[q[i]].2, fw), s_to_f64((i + 1) as u64)), a_age_factor(m[q[i]].1, ttl))
}
pub open spec fn a_stored<R>(m: Map<String, (R, u64, u64)>, q: Seq<String>, i: int) -> bool { 0 <= i < q.len() && m.contains_key(q[i]) }
pub open spec fn a_arc_min_at<R>(m: Map<String, (R, u64, u64)>, q: Seq<String>, j: int) -> bool {
    a_stored(m, q, j) && forall|i: int| #[trigger] a_stored(m, q, i) ==> !s_flt(a_arc_score(m, q, i), a_arc_score(m, q, j))
}
pub open spec fn a_tlru_min_at<R>(m: Map<String, (R, u64, u64)>, q: Seq<String>, j: int, ttl: Option<u64>, fw: Option<f64>) -> bool {
    a_stored(m, q, j) && forall|i: int| #[trigger] a_stored(m, q, i) ==> !s_flt(a_tlru_score(m, q, i, ttl, fw), a_tlru_score(m, q, j, ttl, fw))
}
pub open spec fn tlru_cfg_ok(ttl: Option<u64>, fw: Option<f64>) -> bool {
    (fw is Some ==> nonneg(fw->Some_0) && !is_zero(fw->Some_0)) && (ttl is Some ==> ttl->Some_0 >= 1)
}
pub open spec fn pairs_indexed<K>(ks: Seq<(usize, &K)>) -> bool { forall|j: int| 0 <= j < ks.len() ==> (#[trigger] ks[j]).0 == j }

/// R4: `o.iter().enumerate()` -> the vector of (index, &element) pairs the iterator yields
#[verifier::external_body]
pub fn enum_collect<'a>(o: &'a VecDeque<String>) -> (r: Vec<(usize, &'a String)>)
    ensures r@.len() == o@.len(), r@.len() <= usize::MAX, pairs_indexed(r@), forall|j: int| #![trigger r@[j]] #![trigger o@[j]] 0 <= j < r@.len() ==> *r@[j].1 == o@[j],
{ unimplemented!() }

/// C07 / C08 victim choice of the async engine, over the residents (the new entry is not stored yet)
pub open spec fn evicted_a<R>(m0: Map<String, (R, u64, u64)>, q0: Seq<String>, m1: Map<String, (R, u64, u64)>, q1: Seq<String>, v: String) -> bool {
    m1 == m0.remove(v) && q1 == rm1(q0, v)
}

pub open spec fn async_victim_ok<R>(p: EvictionPolicy, m: Map<String, (R, u64, u64)>, q: Seq<String>, v: String, ttl: Option<u64>, fw: Option<f64>) -> bool {
    q.contains(v) && m.contains_key(v) && match p {
        EvictionPolicy::FIFO | EvictionPolicy::LRU => v == q[0],
        EvictionPolicy::LFU => a_is_min_hits(m, q, v),
        EvictionPolicy::Random => true,
        // C08: the victim minimises the documented score among the stored keys of the queue
        EvictionPolicy::ARC => exists|j: int| #[trigger] a_stored(m, q, j) && q[j] == v && a_arc_min_at(m, q, j),
        EvictionPolicy::TLRU => exists|j: int| #[trigger] a_stored(m, q, j) && q[j] == v && a_tlru_min_at(m, q, j, ttl, fw),
    }
}

pub open spec fn a_entry_mem<R: MemoryEstimator>() -> spec_fn((R, u64, u64)) -> nat { |e: (R, u64, u64)| e.0.mem() }

/// C05: total size of the cached values (async store)
pub open spec fn a_mem_total<R: MemoryEstimator>(m: Map<String, (R, u64, u64)>, q: Seq<String>) -> nat { total_q(m, q, a_entry_mem::<R>()) }

/// Machine arithmetic (ASSUMED): resident estimates plus the value being stored fit usize (see the sync twin).
pub broadcast axiom fn ax_resident_fits_a<R: MemoryEstimator>(m: Map<String, (R, u64, u64)>, q: Seq<String>, v: R)
    requires wf(m, q)
    ensures #[trigger] a_mem_total(m, q) + #[trigger] v.mem() <= usize::MAX;

pub open spec fn a_freq_far<R>(m: Map<String, (R, u64, u64)>) -> bool {
    forall|k: String| m.contains_key(k) ==> (#[trigger] m[k]).2 < u64::MAX - 1
}

/// R4: `cache.iter().map(|entry| entry.value().0.estimate_memory()).sum()` -- assumed contract: the sum of the estimates
/// over every stored entry, i.e. along any duplicate-free enumeration of the keys (for totals that fit usize).
#[verifier::external_body]
pub fn sum_estimates_a<R: MemoryEstimator>(m: &HashMap<String, (R, u64, u64)>) -> (r: usize)
    ensures forall|q: Seq<String>| #[trigger] wf(m@, q) ==> r == a_mem_total(m@, q)
{ unimplemented!() }

/// recency refresh happens on a hit iff the policy tracks recency and some bound is configured
pub open spec fn a_touches(p: EvictionPolicy, limit: Option<usize>, max_memory: Option<usize>) -> bool {
    (limit is Some || max_memory is Some) && hit_touches(p)
}
''')


SPEC_MIN = dict(kind='raw', label='async_spec_min', text='')


def fn(name, impl=IMPL, **kw):
    d = dict(kind='fn', file=A, impl=impl, name=name, label='AsyncGlobalCache::' + name, engine='AsyncGlobalCache',
             impl_rules=LIFETIME + [R('R0.crate_path', r'\bcrate :: MemoryEstimator\b', 'MemoryEstimator', 'crate:: path prefix')])
    d['rules'] = kw.pop('rules', []) + R1_TYPES
    d.update(kw)
    return d


WF = [('wf', 'wf(old(self).cache@, old(self).order@)')]

GET_ENS = [
    CFG_FRAME,
    ('post_wf', ['C04', 'C06', 'C13', 'C01', 'C03', 'C09', 'C10', 'C11', 'C05', 'C07', 'C08'], 'wf(%s, final(self).order@)' % M1),
    ('never_serves_expired', ['C06'], 'res is Some ==> %s.contains_key(%s) && !aexpired(%s[%s], old(self).ttl)' % (M0, K, M0, K)),
    ('value_of_key', ['C01'], 'res is Some ==> cloned(%s[%s].0, res->Some_0)' % (M0, K)),
    ('serves_unexpired', ['C03', 'C06'], '%s.contains_key(%s) && !aexpired(%s[%s], old(self).ttl) ==> res is Some' % (M0, K, M0, K)),
    ('purges_expired', ['C06', 'C04'], '%s.contains_key(%s) && aexpired(%s[%s], old(self).ttl) ==> %s == %s.remove(%s) && final(self).order@ == rm1(old(self).order@, %s)' % (M0, K, M0, K, M1, M0, K, K)),
    ('miss_changes_nothing', ['C03', 'C04', 'C20'], '!%s.contains_key(%s) ==> %s == %s && final(self).order@ == old(self).order@' % (M0, K, M1, M0)),
    ('hit_keeps_entries', ['C01', 'C03', 'C20'], 'res is Some ==> %s.dom() == %s.dom() && forall|x: String| x != %s && %s.contains_key(x) ==> #[trigger] %s[x] == %s[x]' % (M1, M0, K, M0, M1, M0)),
    ('hit_keeps_value', ['C01', 'C06'], 'res is Some ==> %s[%s].0 == %s[%s].0 && %s[%s].1 == %s[%s].1' % (M1, K, M0, K, M1, K, M0, K)),
    ('hit_counts', ['C08'], 'res is Some ==> %s[%s].2 == (if hit_counts(old(self).policy) { bump(%s[%s].2) } else { %s[%s].2 })' % (M1, K, M0, K, M0, K)),
    ('hit_recency', ['C07', 'C08'], 'res is Some ==> final(self).order@ == (if a_touches(old(self).policy, old(self).limit, old(self).max_memory) { touch(old(self).order@, %s) } else { old(self).order@ })' % K),
    ('one_counter', ['C15'], 'final(self).stats.hits.v == (if res is Some { old(self).stats.hits.v.wrapping_add(1) } else { old(self).stats.hits.v }) '
     '&& final(self).stats.misses.v == (if res is Some { old(self).stats.misses.v } else { old(self).stats.misses.v.wrapping_add(1) })'),
]

FIND_FRAME = ('frame', ['C01', 'C04'], 'final(cache)@ == old(cache)@')
STUB_ENS = [
    FIND_FRAME,
    ('some_is_resident', ['C04', 'C08'], 'res is Some ==> old(cache)@.contains_key(res->Some_0) && order@.contains(res->Some_0)'),
    ('none_only_if_no_resident', ['C04'], 'res is None ==> forall|j: int| 0 <= j < order@.len() ==> !old(cache)@.contains_key(#[trigger] order@[j])'),
]

FLOAT_HINT = (('fn_start',), 'float_axioms', 'broadcast use fl::group_float;')
ELEM_HINT = (('loop_start', 0), 'current_pair', 'broadcast use fl::group_float; assert(idx == it.index@ && *evict_key == order@[it.index@ as int]);')


def finder_loop(code, extra='true'):
    return dict(iter='it', invariant=[
        ('frame', 'cache@ == old(cache)@ && %s' % extra),
        ('snap', 'it.snapshot@.remaining().len() == order@.len() && order@.len() <= usize::MAX && pairs_indexed(it.snapshot@.remaining()) '
                 '&& forall|j: int| #![trigger it.snapshot@.remaining()[j]] #![trigger order@[j]] 0 <= j < order@.len() ==> *it.snapshot@.remaining()[j].1 == order@[j]'),
        ('none_yet', 'best_evict_key is None ==> best_score == s_max() && forall|i: int| 0 <= i < it.index@ ==> !cache@.contains_key(#[trigger] order@[i])'),
        ('best_so_far', 'best_evict_key is Some ==> exists|j: int| 0 <= j < it.index@ && a_stored(cache@, order@, j) && (#[trigger] order@[j]) == best_evict_key->Some_0 && best_score == ' + (code % 'j')),
        ('lower_bound', 'forall|i: int| 0 <= i < it.index@ && a_stored(cache@, order@, i) ==> !s_flt(#[trigger] ' + (code % 'i') + ', best_score)'),
    ])


EVICT_REQ = [('wf', 'wf(old(cache)@, old(order)@)'),
             ('counters_unsaturated', 'a_freq_ok(old(cache)@)'),
             ('limit_positive', 'limit is Some ==> limit->Some_0 >= 1'),
             ('tlru_cfg', 'policy is TLRU ==> tlru_cfg_ok(ttl, frequency_weight)'),
             ('front_stored', 'old(order)@.len() > 0 ==> old(cache)@.contains_key(old(order)@[0]) && old(order)@.contains(old(order)@[0])')]
EVICT_ENS = [
    ('post_wf', ['C04', 'C01', 'C03', 'C09', 'C10', 'C11', 'C05', 'C07', 'C08', 'C13'], 'wf(final(cache)@, final(order)@)'),
    ('survivors_unchanged', ['C01'], 'forall|x: String| #[trigger] final(cache)@.contains_key(x) ==> old(cache)@.contains_key(x) && final(cache)@[x] == old(cache)@[x]'),
    ('queue_shrinks', ['C04', 'C07'], 'final(order)@.len() <= old(order)@.len() && forall|x: String| #[trigger] final(order)@.contains(x) ==> old(order)@.contains(x)'),
    ('no_overflow_noop', ['C04', 'C03'], '(limit is None || old(cache)@.len() < limit->Some_0) ==> final(cache)@ == old(cache)@ && final(order)@ == old(order)@'),
    ('overflow_one_victim', ['C04', 'C07', 'C08'], '(limit is Some && old(cache)@.len() >= limit->Some_0) ==> '
     'exists|v: String| async_victim_ok(policy, old(cache)@, old(order)@, v, ttl, frequency_weight) && final(cache)@ == #[trigger] old(cache)@.remove(v) && final(order)@ == rm1(old(order)@, v)'),
]

MA = '%s.remove(%s)' % (M0, K)
QA = 'rm1(old(self).order@, %s)' % K
NEW = '(value, spec_clock_secs(), 0u64)'
# an existing key is replaced in place (never transiently absent) unless a memory bound forces the stale value out of the accounting first
REPL = '(%s.contains_key(%s) && old(self).max_memory is None)' % (M0, K)
INSERT_ENS = [
    CFG_FRAME,
    ('post_wf', ['C04', 'C13', 'C01', 'C03', 'C09', 'C10', 'C11', 'C05', 'C07', 'C08'], 'wf(%s, final(self).order@)' % M1),
    ('stats_frame', ['C15'], 'final(self).stats == old(self).stats'),
    ('last_store_wins', ['C01', 'C11', 'C03', 'C09', 'C10', 'C20', 'C06'], '%s.contains_key(%s) && %s[%s] == %s' % (M1, K, M1, K, NEW)),
    ('fits_exact', ['C04', 'C03', 'C20', 'C07', 'C08'], '(%s || old(self).limit is None || %s.len() < old(self).limit->Some_0) ==> '
     '%s == %s.insert(%s, %s) && final(self).order@ == touch(old(self).order@, %s)' % (REPL, MA, M1, M0, K, NEW, K)),
    ('overflow_one_victim', ['C04', 'C07', 'C08'], '(!%s && old(self).limit is Some && %s.len() >= old(self).limit->Some_0) ==> '
     'exists|v: String| async_victim_ok(old(self).policy, %s, %s, v, old(self).ttl, old(self).frequency_weight) && %s == (#[trigger] %s.remove(v)).insert(%s, %s) && final(self).order@ == rm1(%s, v).push(%s)'
     % (REPL, MA, MA, QA, M1, MA, K, NEW, QA, K)),
    ('survivors_unchanged', ['C01', 'C13'], 'forall|x: String| x != %s && #[trigger] %s.contains_key(x) ==> %s.contains_key(x) && %s[x] == %s[x]' % (K, M1, M0, M1, M0)),
    ('bound', ['C04'], '(old(self).limit is Some && %s.len() <= old(self).limit->Some_0) ==> %s.len() <= old(self).limit->Some_0' % (M0, M1)),
]
INSERT_REQ = WF + [('counters_unsaturated', 'a_freq_ok(old(self).cache@)'), ('limit_positive', 'old(self).limit is Some ==> old(self).limit->Some_0 >= 1'),
              ('tlru_cfg', 'old(self).policy is TLRU ==> tlru_cfg_ok(old(self).ttl, old(self).frequency_weight)')]

OVERSIZE = '(old(self).max_memory is Some && value.mem() > old(self).max_memory->Some_0)'
SA_TOTAL = 'a_mem_total(%s, %s)' % (MA, QA)
MEMFITS = '(old(self).max_memory is None || %s + value.mem() <= old(self).max_memory->Some_0)' % SA_TOTAL
INSERTM_REQ = INSERT_REQ
INSERTM_ENS = [
    CFG_FRAME,
    ('post_wf', ['C04', 'C05', 'C13', 'C01', 'C03', 'C09', 'C10', 'C11', 'C07', 'C08'], 'wf(%s, final(self).order@)' % M1),
    ('stats_frame', ['C15'], 'final(self).stats == old(self).stats'),
    ('oversize_not_cached', ['C05'], '%s ==> %s == %s && final(self).order@ == %s' % (OVERSIZE, M1, MA, QA)),
    ('total_le_max', ['C05'], '(old(self).max_memory is Some && !%s) ==> a_mem_total(%s, final(self).order@) <= old(self).max_memory->Some_0' % (OVERSIZE, M1)),
    ('last_store_wins', ['C01', 'C11', 'C03', 'C09', 'C10', 'C20', 'C06'], '!%s ==> %s.contains_key(%s) && %s[%s] == %s' % (OVERSIZE, M1, K, M1, K, NEW)),
    ('fits_no_eviction', ['C05', 'C03', 'C04'], '(!%s && %s && (old(self).limit is None || %s.len() < old(self).limit->Some_0)) ==> '
     '%s == %s.insert(%s, %s) && final(self).order@ == touch(old(self).order@, %s)' % (OVERSIZE, MEMFITS, MA, M1, M0, K, NEW, K)),
    ('survivors_unchanged', ['C01', 'C05'], 'forall|x: String| x != %s && #[trigger] %s.contains_key(x) ==> %s.contains_key(x) && %s[x] == %s[x]' % (K, M1, M0, M1, M0)),
    ('fifo_lru_oldest_first', ['C07', 'C05'], '(!%s && (old(self).policy is FIFO || old(self).policy is LRU)) ==> is_suffix(final(self).order@.drop_last(), %s) && final(self).order@.last() == %s' % (OVERSIZE, QA, K)),
    ('lfu_evicts_least_frequent', ['C08', 'C05'], '(!%s && old(self).policy is LFU) ==> forall|x: String, y: String| #![trigger %s.contains_key(x), %s.contains_key(y)] '
     '%s.contains_key(x) && !%s.contains_key(x) && %s.contains_key(y) && y != %s ==> %s[x].2 <= %s[y].2' % (OVERSIZE, MA, M1, MA, M1, M1, K, MA, MA)),
    ('bound', ['C04'], '(old(self).limit is Some && %s.len() <= old(self).limit->Some_0) ==> %s.len() <= old(self).limit->Some_0' % (M0, M1)),
]
MEMLOOP = dict(
    invariant=[
        ('wf', 'wf(self.cache@, order@)'),
        ('cfg', 'self.limit == old(self).limit && self.max_memory == old(self).max_memory && self.policy == old(self).policy && self.ttl == old(self).ttl '
                '&& self.frequency_weight == old(self).frequency_weight && self.stats == old(self).stats && self.max_memory == Some(max_mem) && value_size == value.mem() && value_size <= max_mem '
                '&& (self.policy is TLRU ==> tlru_cfg_ok(self.ttl, self.frequency_weight))'),
        ('counters', 'a_freq_ok(self.cache@)'),
        ('pre_facts', 'wf(%s, %s)' % (MA, QA)),
        ('submap', 'forall|x: String| #[trigger] self.cache@.contains_key(x) ==> x != %s && %s.contains_key(x) && self.cache@[x] == %s[x]' % (K, M0, M0)),
        ('key_absent', '!order@.contains(%s)' % K),
        ('total_bounded', 'a_mem_total(self.cache@, order@) <= %s' % SA_TOTAL),
        ('no_needless', '%s + value.mem() <= max_mem ==> self.cache@ == %s && order@ == %s' % (SA_TOTAL, MA, QA)),
        ('oldest_first', '(self.policy is FIFO || self.policy is LRU) ==> is_suffix(order@, %s)' % QA),
        ('shrinks', 'order@.len() <= %s.len()' % QA),
        # C08 under memory pressure: whatever has been evicted so far had no more hits than anything still resident
        ('lfu_order', 'self.policy is LFU ==> forall|x: String, y: String| #![trigger %s.contains_key(x), self.cache@.contains_key(y)] '
                      '%s.contains_key(x) && !self.cache@.contains_key(x) && self.cache@.contains_key(y) ==> %s[x].2 <= %s[y].2' % (MA, MA, MA, MA)),
    ],
    ensures=[('fits', 'a_mem_total(self.cache@, order@) + value.mem() <= max_mem')],
    decreases='order@.len()')

UNIT = dict(
    name='async_cache',
    prelude=['prelude.rs', 'prelude_float.rs'],
    items=COMMON + [SPEC,
        dict(kind='struct', file=A, name='AsyncGlobalCache', rules=R1_TYPES + LIFETIME),
        fn('new', ret='c', ensures=[('stores_arguments', ['C01', 'C04', 'C05', 'C06', 'C07', 'C08'], 'c.limit == limit && c.max_memory == max_memory && c.policy == policy && c.ttl == ttl && c.frequency_weight == frequency_weight && c.cache@ == cache@ && c.order@ == order@')]),
        fn('get', ret='res', rules=R4 + R5, requires=WF, ensures=GET_ENS),
        fn('is_already_key_inserted', split_self=True, split_always=('max_memory',), ret='r', rules=R4,
           requires=[('wf', 'wf(old(cache)@, old(order)@)')],
           ensures=[('replacing_in_place_iff_present_and_no_memory_bound', ['C01', 'C11', 'C03', 'C20', 'C09', 'C10', 'C04'], 'r == (old(cache)@.contains_key(s2s(key)) && max_memory is None)'),
                    ('stale_dropped', ['C01', 'C11', 'C04', 'C03', 'C05', 'C20'], 'max_memory is Some ==> final(cache)@ == old(cache)@.remove(s2s(key))'),
                    ('replaced_in_place_never_absent', ['C03', 'C01', 'C20'], 'max_memory is None ==> final(cache)@ == old(cache)@'),
                    ('unqueued', ['C01', 'C11', 'C04', 'C07', 'C08', 'C13', 'C05', 'C20'], 'final(order)@ == rm1(old(order)@, s2s(key))'),
                    ('post_wf', ['C04', 'C01', 'C03', 'C09', 'C10', 'C11', 'C05', 'C07', 'C08', 'C13'], 'wf(final(cache)@.remove(s2s(key)), final(order)@)')]),
        fn('find_min_frequency_key', split_self=True, ret='res',
           ensures=[FIND_FRAME,
                    ('argmin_hits', ['C08'], 'res is Some ==> a_is_min_hits(old(cache)@, order@, res->Some_0)'),
                    ('none_only_if_saturated', ['C04', 'C08'], 'res is None ==> forall|j: int| 0 <= j < order@.len() && old(cache)@.contains_key(#[trigger] order@[j]) ==> old(cache)@[order@[j]].2 == u64::MAX')],
           loops={0: dict(iter='it', invariant=[
               ('frame', 'cache@ == old(cache)@'),
               ('some_is_seen', 'min_freq_key is Some ==> cache@.contains_key(min_freq_key->Some_0) && order@.contains(min_freq_key->Some_0) && cache@[min_freq_key->Some_0].2 == min_freq'),
               ('lower_bound', 'forall|j: int| 0 <= j < it.index@ && cache@.contains_key(#[trigger] order@[j]) ==> min_freq <= cache@[order@[j]].2'),
               ('none_max', 'min_freq_key is None ==> min_freq == u64::MAX'),
           ])}),
        fn('find_arc_eviction_key', split_self=True, ret='res', rules=R4, r6=True, hints=[FLOAT_HINT, ELEM_HINT],
           ensures=[FIND_FRAME,
                    ('argmin_documented_score', ['C08'], 'res is Some ==> exists|j: int| #[trigger] a_stored(old(cache)@, order@, j) && order@[j] == res->Some_0 && a_arc_min_at(old(cache)@, order@, j)'),
                    STUB_ENS[2]],
           loops={0: finder_loop('a_arc_score(cache@, order@, %s)')}),
        fn('find_tlru_eviction_key', split_self=True, ret='res', rules=R4 + R5, r6=True, f64_vars=['weight'], hints=[FLOAT_HINT, ELEM_HINT],
           requires=[('cfg', 'tlru_cfg_ok(ttl, frequency_weight)')],
           ensures=[FIND_FRAME,
                    ('argmin_documented_score', ['C08'], 'res is Some ==> exists|j: int| #[trigger] a_stored(old(cache)@, order@, j) && order@[j] == res->Some_0 && a_tlru_min_at(old(cache)@, order@, j, ttl, frequency_weight)'),
                    STUB_ENS[2]],
           loops={0: finder_loop('a_tlru_score(cache@, order@, %s, ttl, frequency_weight)', 'tlru_cfg_ok(ttl, frequency_weight) && now == spec_clock_secs()')}),
        fn('handle_entry_limit_eviction', split_self=True, rules=R4 + R5, requires=EVICT_REQ, ensures=EVICT_ENS,
           loops={0: dict(
               invariant_except_break=[('nothing_popped', 'cache@ == old(cache)@ && order@ == old(order)@')],
               invariant=[('wf0', 'wf(old(cache)@, old(order)@) && old(order)@.len() > 0')],
               ensures=[('front_evicted', 'evicted_a(old(cache)@, old(order)@, cache@, order@, old(order)@[0])')],
               decreases='order@.len()')}),
        fn('insert', rules=R4 + R5, requires=INSERT_REQ, ensures=INSERT_ENS),
        fn('insert_with_memory', impl=IMPL_MEM, rules=R4 + R5, requires=INSERTM_REQ, ensures=INSERTM_ENS, loops={0: MEMLOOP},
           hints=[(('fn_start',), 'resident_fits', 'broadcast use ax_resident_fits_a;'),
                  (('loop_start', 0), 'resident_fits_loop', 'broadcast use ax_resident_fits_a; let ghost pre_cache = self.cache@; let ghost pre_order = order@;'),
                  # C07/C08 under memory pressure: EVERY eviction of the loop removes a victim the configured policy allows in the state it was chosen in
                  (('loop_end', 0), 'each_memory_eviction_is_a_policy_victim',
                   'assert(exists|v: String| async_victim_ok(self.policy, pre_cache, pre_order, v, self.ttl, self.frequency_weight) && self.cache@ == #[trigger] pre_cache.remove(v) && order@ == rm1(pre_order, v));')]),
    ],
)
