"""Unit `policy` (C07, C08: the policy attribute takes effect as written in the async flavour): #[cache_async] hands the policy
NAME to `EvictionPolicy::from(&str)` at run time; this unit proves on the real conversion that every documented policy name
maps to its own variant (the table below is the property's vocabulary: "fifo", "lru", "lfu", "arc", "random", "tlru")."""
from contracts.units.common import POLICY, POLICY_ITEMS

SPEC = dict(kind='raw', label='policy_spec', text='''
use vstd::string::*;
// ---------------------------------------------------------------- policy names
/// std lowercase mapping (String::to_lowercase), uninterpreted
pub uninterp spec fn lower(s: Seq<char>) -> Seq<char>;
/// R7: `x.to_lowercase().as_str()` (assumed contract on std)
#[verifier::external_body]
pub fn str_lower(s: &str) -> (r: String) ensures r@ == lower(s@) { unimplemented!() }
/// anything with a string view (String, &str)
pub trait StrView { spec fn sv(&self) -> Seq<char>; }
impl StrView for String { open spec fn sv(&self) -> Seq<char> { self@ } }
impl<'a> StrView for &'a str { open spec fn sv(&self) -> Seq<char> { self@ } }
/// R7: `==` / literal patterns on string slices compare the character sequences (assumed contract on std)
#[verifier::external_body]
pub fn str_is<S: StrView>(s: &S, lit: &str) -> (b: bool) ensures b == (s.sv() == lit@) { unimplemented!() }

/// the documented meaning of a policy name
pub open spec fn policy_named(s: Seq<char>) -> EvictionPolicy {
    if s == "fifo"@ { EvictionPolicy::FIFO }
    else if s == "lru"@ { EvictionPolicy::LRU }
    else if s == "lfu"@ { EvictionPolicy::LFU }
    else if s == "arc"@ { EvictionPolicy::ARC }
    else if s == "random"@ { EvictionPolicy::Random }
    else if s == "tlru"@ { EvictionPolicy::TLRU }
    else { EvictionPolicy::LRU }
}
/// vstd states `From::from` against FromSpec: the spec side says the conversion is exactly the documented table
impl vstd::std_specs::convert::FromSpecImpl<&str> for EvictionPolicy {
    open spec fn obeys_from_spec() -> bool { true }
    open spec fn from_spec(s: &str) -> Self { policy_named(lower(s@)) }
}
/// the six names are already lower case (std fact about to_lowercase on ASCII lower-case letters; assumed)
pub axiom fn ax_lower_names()
    ensures lower("fifo"@) == "fifo"@, lower("lru"@) == "lru"@, lower("lfu"@) == "lfu"@, lower("arc"@) == "arc"@, lower("random"@) == "random"@, lower("tlru"@) == "tlru"@;

/// the names are pairwise different strings, so each one selects its own variant
pub proof fn lemma_policy_names()
    ensures policy_named("fifo"@) == EvictionPolicy::FIFO, policy_named("lru"@) == EvictionPolicy::LRU, policy_named("lfu"@) == EvictionPolicy::LFU,
        policy_named("arc"@) == EvictionPolicy::ARC, policy_named("random"@) == EvictionPolicy::Random, policy_named("tlru"@) == EvictionPolicy::TLRU,
{
    reveal_strlit("fifo"); reveal_strlit("lru"); reveal_strlit("lfu"); reveal_strlit("arc"); reveal_strlit("random"); reveal_strlit("tlru");
    assert("lru"@[1] != "lfu"@[1]);
    assert("lru"@[0] != "arc"@[0]);
    assert("lfu"@[0] != "arc"@[0]);
    assert("fifo"@[0] != "tlru"@[0]);
}
''')

UNIT = dict(
    name='policy',
    lemma_props={'lemma_policy_names': ['C07', 'C08'], '*': ['C07', 'C08']},
    items=POLICY_ITEMS + [SPEC,
        dict(kind='fn', file=POLICY, impl=r'^impl EvictionPolicy$', name='default', label='EvictionPolicy::default', ret='p', props=['C07', 'C08'],
             ensures=[('documented_default', [], 'p == EvictionPolicy::LRU')]),
        dict(kind='fn', file=POLICY, impl=r'^impl From<&str> for EvictionPolicy$', name='from', label='EvictionPolicy::from', keep_private=True, r7=True, ret='p',
             props=['C07', 'C08'],
             ensures=[('name_selects_its_variant', ['C07', 'C08'], 'p == policy_named(lower(s@))')],
             hints=[(('fn_start',), 'literals', 'proof { reveal_strlit("fifo"); reveal_strlit("lru"); reveal_strlit("lfu"); reveal_strlit("arc"); reveal_strlit("random"); reveal_strlit("tlru"); '
                     'assert("lru"@[1] != "lfu"@[1]); assert("lru"@[0] != "arc"@[0]); assert("lfu"@[0] != "arc"@[0]); assert("fifo"@[0] != "tlru"@[0]); }')]),
    ],
)
