"""Spec vocabulary and items shared by the three engine units."""
from extract.rules import R
from contracts.units.common import ENTRY_ITEMS, ENTRY_SPEC, POLICY_ITEMS

STATS = 'cachelito-core/src/stats.rs'

# R7: &self -> &mut self on the counters (AtomicU64 is the sequential shim of the prelude)
STATS_SELF = R('R7.receiver', r'\( & self\b(?! \.)', r'(&mut self', 'CacheStats methods take &mut self over the sequential AtomicU64 shim')

STATS_ITEMS = [
    dict(kind='struct', file=STATS, name='CacheStats'),
    dict(kind='fn', file=STATS, impl=r'^impl CacheStats$', name='new', label='CacheStats::new', ret='s',
         ensures=[('zero', ['C15'], 's.hits.v == 0 && s.misses.v == 0')]),
    dict(kind='fn', file=STATS, impl=r'^impl CacheStats$', name='record_hit', label='CacheStats::record_hit', rules=[STATS_SELF],
         ensures=[('one_hit', ['C15'], 'final(self).hits.v == old(self).hits.v.wrapping_add(1) && final(self).misses.v == old(self).misses.v')]),
    dict(kind='fn', file=STATS, impl=r'^impl CacheStats$', name='record_miss', label='CacheStats::record_miss', rules=[STATS_SELF],
         ensures=[('one_miss', ['C15'], 'final(self).misses.v == old(self).misses.v.wrapping_add(1) && final(self).hits.v == old(self).hits.v')]),
    dict(kind='fn', file=STATS, impl=r'^impl CacheStats$', name='hits', label='CacheStats::hits', ret='r',
         ensures=[('reads_hits', ['C15'], 'r == self.hits.v')]),
    dict(kind='fn', file=STATS, impl=r'^impl CacheStats$', name='misses', label='CacheStats::misses', ret='r',
         ensures=[('reads_misses', ['C15'], 'r == self.misses.v')]),
    dict(kind='fn', file=STATS, impl=r'^impl CacheStats$', name='reset', label='CacheStats::reset', rules=[STATS_SELF],
         ensures=[('zero', ['C15'], 'final(self).hits.v == 0 && final(self).misses.v == 0')]),
]

ENGINE_SPEC = dict(kind='raw', label='engine_spec', text='''
/// policies under which a successful lookup counts a hit on the entry (C08)
pub open spec fn hit_counts(p: EvictionPolicy) -> bool { p is LFU || p is ARC || p is TLRU }
/// policies under which a successful lookup refreshes recency (C07, C08)
pub open spec fn hit_touches(p: EvictionPolicy) -> bool { p is LRU || p is ARC || p is TLRU }
pub open spec fn bump(f: u64) -> u64 { if f == u64::MAX { u64::MAX } else { (f + 1) as u64 } }

/// the entry limit is respected by a queue of this length
pub open spec fn within_limit(limit: Option<usize>, len: nat) -> bool { limit is Some ==> len <= limit->Some_0 }

/// k is a stored key of the queue with the fewest hits among the stored keys of the queue
pub open spec fn is_min_hits<R>(m: Map<String, CacheEntry<R>>, q: Seq<String>, k: String) -> bool {
    m.contains_key(k) && q.contains(k)
    && forall|j: int| 0 <= j < q.len() && m.contains_key(#[trigger] q[j]) ==> m[k].frequency <= m[q[j]].frequency
}

/// exactly the entry of v left store and queue
pub open spec fn evicted<R>(m0: Map<String, CacheEntry<R>>, q0: Seq<String>, m1: Map<String, CacheEntry<R>>, q1: Seq<String>, v: String) -> bool {
    m1 == m0.remove(v) && q1 == rm1(q0, v)
}
''')

SYNC_SPEC = dict(kind='raw', label='sync_spec', text='''
/// some stored entry of the queue has never been hit (after a store: the entry just stored)
pub open spec fn some_zero_hits<R>(m: Map<String, CacheEntry<R>>, q: Seq<String>) -> bool {
    exists|i: int| 0 <= i < q.len() && m.contains_key(#[trigger] q[i]) && m[q[i]].frequency == 0
}

/// C07 / C08 victim choice of the sync engines, over the store and queue AFTER the new entry was stored.
pub open spec fn sync_victim_ok<R>(p: EvictionPolicy, m: Map<String, CacheEntry<R>>, q: Seq<String>, v: String, ttl: Option<u64>) -> bool {
    q.contains(v) && m.contains_key(v) && match p {
        EvictionPolicy::FIFO | EvictionPolicy::LRU => v == q[0],
        EvictionPolicy::LFU => is_min_hits(m, q, v),
        EvictionPolicy::Random => true,
        // the entry just stored has zero hits, so the documented score hits x rank (x remaining lifetime) has minimum 0:
        // the victim has zero hits (TLRU: or no remaining lifetime); proved from the argmin contract of the scoring helpers
        EvictionPolicy::ARC => some_zero_hits(m, q) ==> m[v].frequency == 0,
        EvictionPolicy::TLRU => some_zero_hits(m, q) ==> (m[v].frequency == 0 || is_zero(age_factor_code(age_f64(m[v].inserted_at), ttl))),
    }
}

''')

MEM_SPEC = dict(kind='raw', label='mem_spec', text='''
/// size of one sync cache entry as the memory limit counts it: the estimate of its value
pub open spec fn entry_mem<R: MemoryEstimator>() -> spec_fn(CacheEntry<R>) -> nat { |e: CacheEntry<R>| e.value.mem() }

/// C05: total size of the cached values
pub open spec fn mem_total<R: MemoryEstimator>(m: Map<String, CacheEntry<R>>, q: Seq<String>) -> nat { total_q(m, q, entry_mem::<R>()) }

/// counters never saturate (assumption reported in the evidence: 2^64 hits on one entry are unreachable)
pub open spec fn freq_ok<R>(m: Map<String, CacheEntry<R>>) -> bool {
    forall|k: String| m.contains_key(k) ==> (#[trigger] m[k]).frequency < u64::MAX
}

/// Machine arithmetic (ASSUMED): the estimates of the resident values plus the value being stored sum to at most
/// usize::MAX -- estimates count bytes that distinct live values really occupy, so their sum is bounded by the
/// address space. (A user estimator returning absurd sizes is outside this assumption.)
pub broadcast axiom fn ax_resident_fits<R: MemoryEstimator>(m: Map<String, CacheEntry<R>>, q: Seq<String>, v: R)
    requires wf(m, q)
    ensures #[trigger] mem_total(m, q) + #[trigger] v.mem() <= usize::MAX;

/// counters stay clear of saturation even after one more hit (assumption reported in the evidence)
pub open spec fn freq_far<R>(m: Map<String, CacheEntry<R>>) -> bool {
    forall|k: String| m.contains_key(k) ==> (#[trigger] m[k]).frequency < u64::MAX - 1
}

/// R4: `map.values().map(|e| e.value.estimate_memory()).sum::<usize>()` -- assumed contract of the std adapters:
/// the sum of the estimates over every stored entry, i.e. along any duplicate-free enumeration of the keys
/// (machine arithmetic: the sum is assumed not to overflow usize, see ax_resident_fits).
#[verifier::external_body]
pub fn sum_estimates<R: MemoryEstimator>(m: &HashMap<String, CacheEntry<R>>) -> (r: usize)
    ensures forall|q: Seq<String>| #[trigger] wf(m@, q) ==> r == mem_total(m@, q)
{ unimplemented!() }

/// Result<T, E> as a cached value: its estimator impl (memory_estimator.rs) is put under contract in unit `memory_estimator`;
/// the engines only need that it is some pure function of the value.
pub uninterp spec fn result_mem<T, E>(r: Result<T, E>) -> nat;
impl<T: MemoryEstimator, E: MemoryEstimator> MemoryEstimator for Result<T, E> {
    open spec fn mem(&self) -> nat { result_mem(*self) }
    #[verifier::external_body]
    fn estimate_memory(&self) -> (r: usize) { unimplemented!() }
}

/// R4: `opt.map(|e| e.value.estimate_memory()).unwrap_or(0)`
#[verifier::external_body]
pub fn opt_estimate<R: MemoryEstimator>(o: Option<&CacheEntry<R>>) -> (r: usize)
    ensures r == (match o { Some(e) => e.value.mem(), None => 0 })
{ unimplemented!() }
''')

COMMON = ENTRY_ITEMS + [ENTRY_SPEC] + POLICY_ITEMS + STATS_ITEMS + [ENGINE_SPEC, MEM_SPEC]


# ---------------------------------------------------------------------------------------------
# Contract builders shared by the sync engines (field names differ: GlobalCache.map / ThreadLocalCache.cache)
def wf_pre(m):
    return [('wf', 'wf(old(self).%s@, old(self).order@)' % m)]


TLRU_CFG = ('tlru_cfg', 'old(self).policy is TLRU ==> tlru_cfg_ok(old(self).ttl, old(self).frequency_weight)')


def store_pre(m):
    """preconditions of the store operations: representation invariant + (TLRU only) a finite positive weight and ttl >= 1"""
    return wf_pre(m) + [TLRU_CFG]


CFG_FRAME = ('cfg_frame', ['C01', 'C04'],
             'final(self).limit == old(self).limit && final(self).max_memory == old(self).max_memory && final(self).policy == old(self).policy '
             '&& final(self).ttl == old(self).ttl && final(self).frequency_weight == old(self).frequency_weight')


def get_ensures(m, stats=True):
    M0 = 'old(self).%s@' % m
    M1 = 'final(self).%s@' % m
    K = 's2s(key)'
    e = [
        CFG_FRAME,
        ('post_wf', ['C04', 'C06', 'C13', 'C01', 'C03', 'C09', 'C10', 'C11', 'C05', 'C07', 'C08'], 'wf(%s, final(self).order@)' % M1),
        ('never_serves_expired', ['C06'], 'res is Some ==> %s.contains_key(%s) && !expired(%s[%s], old(self).ttl)' % (M0, K, M0, K)),
        ('value_of_key', ['C01'], 'res is Some ==> cloned(%s[%s].value, res->Some_0)' % (M0, K)),
        ('serves_unexpired', ['C03', 'C06'], '%s.contains_key(%s) && !expired(%s[%s], old(self).ttl) ==> res is Some' % (M0, K, M0, K)),
        ('purges_expired', ['C06', 'C04'], '%s.contains_key(%s) && expired(%s[%s], old(self).ttl) ==> '
         '%s == %s.remove(%s) && final(self).order@ == rm1(old(self).order@, %s)' % (M0, K, M0, K, M1, M0, K, K)),
        ('miss_changes_nothing', ['C03', 'C04', 'C20'], '!%s.contains_key(%s) ==> %s == %s && final(self).order@ == old(self).order@' % (M0, K, M1, M0)),
        ('hit_keeps_entries', ['C01', 'C03', 'C20'], 'res is Some ==> %s.dom() == %s.dom() '
         '&& forall|x: String| x != %s && %s.contains_key(x) ==> #[trigger] %s[x] == %s[x]' % (M1, M0, K, M0, M1, M0)),
        ('hit_keeps_value', ['C01', 'C06'], 'res is Some ==> %s[%s].value == %s[%s].value && %s[%s].inserted_at == %s[%s].inserted_at' % (M1, K, M0, K, M1, K, M0, K)),
        ('hit_counts', ['C08'], 'res is Some ==> %s[%s].frequency == (if hit_counts(old(self).policy) { bump(%s[%s].frequency) } else { %s[%s].frequency })' % (M1, K, M0, K, M0, K)),
        ('hit_recency', ['C07', 'C08'], 'res is Some ==> final(self).order@ == (if hit_touches(old(self).policy) { touch(old(self).order@, %s) } else { old(self).order@ })' % K),
    ]
    if stats:
        e.append(('one_counter', ['C15'], 'final(self).stats.hits.v == (if res is Some { old(self).stats.hits.v.wrapping_add(1) } else { old(self).stats.hits.v }) '
                  '&& final(self).stats.misses.v == (if res is Some { old(self).stats.misses.v } else { old(self).stats.misses.v.wrapping_add(1) })'))
    return e


def incr_ensures(m):
    M0 = 'old(self).%s@' % m
    M1 = 'final(self).%s@' % m
    K = 's2s(key)'
    return [
        CFG_FRAME,
        ('frame', ['C01', 'C07'], 'final(self).order@ == old(self).order@ && final(self).stats == old(self).stats'),
        ('absent_noop', ['C04'], '!%s.contains_key(%s) ==> %s == %s' % (M0, K, M1, M0)),
        ('counts', ['C08'], '%s.contains_key(%s) ==> %s.dom() == %s.dom() && %s[%s].frequency == bump(%s[%s].frequency) '
         '&& %s[%s].value == %s[%s].value && %s[%s].inserted_at == %s[%s].inserted_at '
         '&& forall|x: String| x != %s && %s.contains_key(x) ==> #[trigger] %s[x] == %s[x]'
         % (M0, K, M1, M0, M1, K, M0, K, M1, K, M0, K, M1, K, M0, K, K, M0, M1, M0)),
    ]


def evict_requires(m, o):
    return [('wf', 'wf(old(%s)@, old(%s)@)' % (m, o)),
            # call sites: some stored entry has an unsaturated hit counter (insert: the entry just stored has zero hits)
            ('some_unsaturated', 'old(%s)@.len() > 0 ==> exists|j: int| 0 <= j < old(%s)@.len() && old(%s)@[#[trigger] old(%s)@[j]].frequency < u64::MAX' % (o, o, m, o)),
            ('tlru_cfg', 'policy is TLRU ==> tlru_cfg_ok(ttl, frequency_weight)'),
            # implied by wf; stated so that the terms are available to the solver
            ('front_stored', 'old(%s)@.len() > 0 ==> old(%s)@.contains_key(old(%s)@[0]) && old(%s)@.contains(old(%s)@[0])' % (o, m, o, o, o))]


def evict_ensures(m, o):
    return [
        ('post_wf', ['C04', 'C01', 'C03', 'C09', 'C10', 'C11', 'C05', 'C07', 'C08', 'C13'], 'wf(final(%s)@, final(%s)@)' % (m, o)),
        ('no_overflow_noop', ['C04', 'C03'], '(limit is None || old(%s)@.len() <= limit->Some_0) ==> final(%s)@ == old(%s)@ && final(%s)@ == old(%s)@' % (o, m, m, o, o)),
        ('overflow_one_victim', ['C04', 'C07', 'C08'], '(limit is Some && old(%s)@.len() > limit->Some_0) ==> '
         'exists|v: String| sync_victim_ok(policy, old(%s)@, old(%s)@, v, ttl) && final(%s)@ == #[trigger] old(%s)@.remove(v) && final(%s)@ == rm1(old(%s)@, v)' % (o, m, o, m, m, o, o)),
    ]


def insert_ensures(m, stats=True):
    M0 = 'old(self).%s@' % m
    M1 = 'final(self).%s@' % m
    K = 's2s(key)'
    Q1 = 'touch(old(self).order@, %s)' % K
    e = [
        CFG_FRAME,
        ('post_wf', ['C04', 'C13', 'C01', 'C03', 'C09', 'C10', 'C11', 'C05', 'C07', 'C08'], 'wf(%s, final(self).order@)' % M1),
        ('fits_exact', ['C04', 'C03', 'C07', 'C08'], '(old(self).limit is None || %s.len() <= old(self).limit->Some_0) ==> '
         'final(self).order@ == %s && %s.dom() == %s.dom().insert(%s)' % (Q1, Q1, M1, M0, K)),
        ('overflow_one_victim', ['C04', 'C07', 'C08'], '(old(self).limit is Some && %s.len() > old(self).limit->Some_0) ==> '
         'exists|v: String, e: CacheEntry<R>| e.value == value && e.frequency == 0 '
         '&& sync_victim_ok(old(self).policy, %s.insert(%s, e), %s, v, old(self).ttl) '
         '&& %s == #[trigger] %s.insert(%s, e).remove(v) && final(self).order@ == rm1(%s, v)' % (Q1, M0, K, Q1, M1, M0, K, Q1)),
        ('survivors_unchanged', ['C01', 'C13'], 'forall|x: String| x != %s && #[trigger] %s.contains_key(x) ==> %s.contains_key(x) && %s[x] == %s[x]' % (K, M1, M0, M1, M0)),
        ('last_store_wins', ['C01', 'C11', 'C03', 'C09', 'C10', 'C06'], '%s.contains_key(%s) ==> %s[%s].value == value && %s[%s].frequency == 0 && taken_now(%s[%s].inserted_at)' % (M1, K, M1, K, M1, K, M1, K)),
        ('bound', ['C04'], '(old(self).limit is Some && old(self).limit->Some_0 >= 1 && old(self).order@.len() <= old(self).limit->Some_0) ==> final(self).order@.len() <= old(self).limit->Some_0'),
    ]
    if stats:
        e.append(('stats_frame', ['C15'], 'final(self).stats == old(self).stats'))
    return e


def insertm_requires(m):
    return store_pre(m) + [
        ('counters_unsaturated', 'freq_ok(old(self).%s@)' % m),
    ]


def insertm_ensures(m):
    M0 = 'old(self).%s@' % m
    M1 = 'final(self).%s@' % m
    K = 's2s(key)'
    Q0 = 'old(self).order@'
    Q1 = 'touch(old(self).order@, %s)' % K
    OVERSIZE = '(old(self).max_memory is Some && value.mem() > old(self).max_memory->Some_0)'
    MEMFITS = '(old(self).max_memory is None || mem_total(%s.remove(%s), rm1(%s, %s)) + value.mem() <= old(self).max_memory->Some_0)' % (M0, K, Q0, K)
    return [
        CFG_FRAME,
        ('post_wf', ['C04', 'C05', 'C13', 'C01', 'C03', 'C09', 'C10', 'C11', 'C07', 'C08'], 'wf(%s, final(self).order@)' % M1),
        ('stats_frame', ['C15'], 'final(self).stats == old(self).stats'),
        ('oversize_not_cached', ['C05'], '%s ==> %s == %s.remove(%s) && final(self).order@ == rm1(%s, %s)' % (OVERSIZE, M1, M0, K, Q0, K)),
        ('total_le_max', ['C05'], '(old(self).max_memory is Some && !%s) ==> mem_total(%s, final(self).order@) <= old(self).max_memory->Some_0' % (OVERSIZE, M1)),
        ('fits_no_eviction', ['C05', 'C03', 'C04'], '(!%s && %s && (old(self).limit is None || %s.len() <= old(self).limit->Some_0)) ==> '
         'final(self).order@ == %s && %s.dom() == %s.dom().insert(%s)' % (OVERSIZE, MEMFITS, Q1, Q1, M1, M0, K)),
        ('survivors_unchanged', ['C01', 'C05'], 'forall|x: String| x != %s && #[trigger] %s.contains_key(x) ==> %s.contains_key(x) && %s[x] == %s[x]' % (K, M1, M0, M1, M0)),
        ('last_store_wins', ['C01', 'C11', 'C03', 'C09', 'C10', 'C06'], '%s.contains_key(%s) ==> %s[%s].value == value && %s[%s].frequency == 0 && taken_now(%s[%s].inserted_at)' % (M1, K, M1, K, M1, K, M1, K)),
        ('fifo_lru_oldest_first', ['C07', 'C05'], '(!%s && (old(self).policy is FIFO || old(self).policy is LRU)) ==> is_suffix(final(self).order@, %s)' % (OVERSIZE, Q1)),
        # C08 under memory pressure: every evicted entry (the zero-hit newcomer included) had no more hits than any survivor
        ('lfu_evicts_least_frequent', ['C08', 'C05'], '(!%s && old(self).policy is LFU) ==> forall|x: String, y: String| #![trigger %s.contains_key(x), %s.contains_key(y)] '
         '%s.contains_key(x) && x != %s && !%s.contains_key(x) && %s.contains_key(y) && y != %s ==> %s[x].frequency <= %s[y].frequency' % (OVERSIZE, M0, M1, M0, K, M1, M1, K, M0, M0)),
        ('bound', ['C04'], '(old(self).limit is Some && old(self).limit->Some_0 >= 1 && old(self).order@.len() <= old(self).limit->Some_0) ==> final(self).order@.len() <= old(self).limit->Some_0'),
    ]


def mem_hints(m, o):
    """Hints of the sync evict-until-fits loop: the stated usize assumption, and (C07/C08 under memory pressure) the per-iteration
    obligation that EVERY eviction removes a victim the configured policy allows in the state it was chosen in."""
    return [(('fn_start',), 'resident_fits', 'broadcast use ax_resident_fits;'),
            (('loop_start', 0), 'resident_fits_loop', 'broadcast use ax_resident_fits; broadcast use fl::group_float; broadcast use b_arc_min_zero; broadcast use b_tlru_min_zero; let ghost pre_map = self.%s@; let ghost pre_order = %s@;' % (m, o)),
            (('loop_end', 0), 'each_memory_eviction_is_a_policy_victim',
             'assert(exists|v: String| sync_victim_ok(self.policy, pre_map, pre_order, v, self.ttl) && self.%s@ == #[trigger] pre_map.remove(v) && %s@ == rm1(pre_order, v));' % (m, o))]


MEM_HINTS = [(('fn_start',), 'resident_fits', 'broadcast use ax_resident_fits;'), (('loop_start', 0), 'resident_fits_loop', 'broadcast use ax_resident_fits;')]


def memloop_spec(m, o, K='s2s(key)'):
    """Invariant of the evict-until-fits loop of the sync insert_with_memory (m: store field, o: queue guard local,
    K: the key as a String in the scope of the loop)."""
    MS = 'self.%s@' % m
    M0 = 'old(self).%s@' % m
    REST = 'mem_total(%s.remove(%s), rm1(old(self).order@, %s)) + value.mem()' % (M0, K, K)
    return dict(
        invariant=[
            ('wf', 'wf(%s, %s@)' % (MS, o)),
            ('cfg', 'self.limit == old(self).limit && self.max_memory == old(self).max_memory && self.policy == old(self).policy && self.ttl == old(self).ttl '
                    '&& self.frequency_weight == old(self).frequency_weight && self.stats == old(self).stats && self.max_memory == Some(max_mem) '
                    '&& (self.policy is TLRU ==> tlru_cfg_ok(self.ttl, self.frequency_weight))'),
            ('counters', 'freq_ok(%s)' % MS),
            ('pre_facts', 'wf(%s, old(self).order@)' % M0),
            ('submap', 'forall|x: String| #[trigger] %s.contains_key(x) ==> (if x == %s { %s[x].value == value && %s[x].frequency == 0 && taken_now(%s[x].inserted_at) } else { %s.contains_key(x) && %s[x] == %s[x] })'
             % (MS, K, MS, MS, MS, M0, MS, M0)),
            ('total_bounded', 'mem_total(%s, %s@) <= %s' % (MS, o, REST)),
            ('no_needless', '%s <= max_mem ==> %s@ == touch(old(self).order@, %s) && %s.dom() == %s.dom().insert(%s)' % (REST, o, K, MS, M0, K)),
            ('oldest_first', '(self.policy is FIFO || self.policy is LRU) ==> is_suffix(%s@, touch(old(self).order@, %s))' % (o, K)),
            ('shrinks', '%s@.len() <= touch(old(self).order@, %s).len()' % (o, K)),
            ('lfu_order', 'self.policy is LFU ==> forall|x: String, y: String| #![trigger %s.contains_key(x), %s.contains_key(y)] '
                          '%s.contains_key(x) && x != %s && !%s.contains_key(x) && %s.contains_key(y) && y != %s ==> %s[x].frequency <= %s[y].frequency' % (M0, MS, M0, K, MS, MS, K, M0, M0)),
        ],
        ensures=[('fits', 'mem_total(%s, %s@) <= max_mem' % (MS, o))],
        decreases='%s@.len()' % o)


def insert_result_ensures(m):
    """C09 (core part): an Err is never stored and changes nothing; an Ok is stored exactly like insert(key, Ok(clone))."""
    M0 = 'old(self).%s@' % m
    M1 = 'final(self).%s@' % m
    K = 's2s(key)'
    Q1 = 'touch(old(self).order@, %s)' % K
    return [
        CFG_FRAME,
        ('err_changes_nothing', ['C09'], 'value is Err ==> %s == %s && final(self).order@ == old(self).order@ && final(self).stats == old(self).stats' % (M1, M0)),
        ('post_wf', ['C04', 'C09', 'C01', 'C03', 'C10', 'C11', 'C05', 'C07', 'C08', 'C13'], 'wf(%s, final(self).order@)' % M1),
        ('ok_stored', ['C09', 'C01', 'C06'], '(value is Ok && %s.contains_key(%s)) ==> %s[%s].value is Ok && cloned(value->Ok_0, %s[%s].value->Ok_0) && %s[%s].frequency == 0 && taken_now(%s[%s].inserted_at)'
         % (M1, K, M1, K, M1, K, M1, K, M1, K)),
        ('ok_fits_exact', ['C09', 'C03', 'C04'], '(value is Ok && (old(self).limit is None || %s.len() <= old(self).limit->Some_0)) ==> '
         'final(self).order@ == %s && %s.dom() == %s.dom().insert(%s)' % (Q1, Q1, M1, M0, K)),
        ('survivors_unchanged', ['C01', 'C09'], 'forall|x: String| x != %s && #[trigger] %s.contains_key(x) ==> %s.contains_key(x) && %s[x] == %s[x]' % (K, M1, M0, M1, M0)),
        ('stats_frame', ['C15'], 'final(self).stats == old(self).stats'),
    ]
