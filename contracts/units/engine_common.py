"""Spec vocabulary and items shared by the three engine units."""
from extract.rules import R
from contracts.units.common import ENTRY_ITEMS, ENTRY_SPEC, POLICY_ITEMS

STATS = 'cachelito-core/src/stats.rs'

# R7: &self -> &mut self on the counters (AtomicU64 is the sequential shim of the prelude)
STATS_SELF = R('R7.receiver', r'\( & self\b', r'(&mut self', 'CacheStats methods take &mut self over the sequential AtomicU64 shim')

STATS_ITEMS = [
    dict(kind='struct', file=STATS, name='CacheStats'),
    dict(kind='fn', file=STATS, impl=r'^impl CacheStats$', name='new', label='CacheStats::new', ret='s',
         ensures=[('zero', ['C15'], 's.hits.v == 0 && s.misses.v == 0')]),
    dict(kind='fn', file=STATS, impl=r'^impl CacheStats$', name='record_hit', label='CacheStats::record_hit', rules=[STATS_SELF],
         ensures=[('one_hit', ['C15'], 'final(self).hits.v == old(self).hits.v.wrapping_add(1) && final(self).misses.v == old(self).misses.v')]),
    dict(kind='fn', file=STATS, impl=r'^impl CacheStats$', name='record_miss', label='CacheStats::record_miss', rules=[STATS_SELF],
         ensures=[('one_miss', ['C15'], 'final(self).misses.v == old(self).misses.v.wrapping_add(1) && final(self).hits.v == old(self).hits.v')]),
    dict(kind='fn', file=STATS, impl=r'^impl CacheStats$', name='hits', label='CacheStats::hits', ret='r',
         ensures=[('reads_hits', ['C15'], 'r == self.hits.v')]),
    dict(kind='fn', file=STATS, impl=r'^impl CacheStats$', name='misses', label='CacheStats::misses', ret='r',
         ensures=[('reads_misses', ['C15'], 'r == self.misses.v')]),
    dict(kind='fn', file=STATS, impl=r'^impl CacheStats$', name='reset', label='CacheStats::reset', rules=[STATS_SELF],
         ensures=[('zero', ['C15'], 'final(self).hits.v == 0 && final(self).misses.v == 0')]),
]

ENGINE_SPEC = dict(kind='raw', label='engine_spec', text='''
/// policies under which a successful lookup counts a hit on the entry (C08)
pub open spec fn hit_counts(p: EvictionPolicy) -> bool { p is LFU || p is ARC || p is TLRU }
/// policies under which a successful lookup refreshes recency (C07, C08)
pub open spec fn hit_touches(p: EvictionPolicy) -> bool { p is LRU || p is ARC || p is TLRU }
pub open spec fn bump(f: u64) -> u64 { if f == u64::MAX { u64::MAX } else { (f + 1) as u64 } }

/// the entry limit is respected by a queue of this length
pub open spec fn within_limit(limit: Option<usize>, len: nat) -> bool { limit is Some ==> len <= limit->Some_0 }

/// k is a stored key of the queue with the fewest hits among the stored keys of the queue
pub open spec fn is_min_hits<R>(m: Map<String, CacheEntry<R>>, q: Seq<String>, k: String) -> bool {
    m.contains_key(k) && q.contains(k)
    && forall|j: int| 0 <= j < q.len() && m.contains_key(#[trigger] q[j]) ==> m[k].frequency <= m[q[j]].frequency
}

/// C07 / C08 victim choice of the sync engines, over the store and queue AFTER the new entry was stored.
pub open spec fn sync_victim_ok<R>(p: EvictionPolicy, m: Map<String, CacheEntry<R>>, q: Seq<String>, v: String) -> bool {
    q.contains(v) && m.contains_key(v) && match p {
        EvictionPolicy::FIFO | EvictionPolicy::LRU => v == q[0],
        EvictionPolicy::LFU => is_min_hits(m, q, v),
        EvictionPolicy::Random => true,
        EvictionPolicy::ARC | EvictionPolicy::TLRU => true,
    }
}

/// exactly the entry of v left store and queue
pub open spec fn evicted<R>(m0: Map<String, CacheEntry<R>>, q0: Seq<String>, m1: Map<String, CacheEntry<R>>, q1: Seq<String>, v: String) -> bool {
    m1 == m0.remove(v) && q1 == rm1(q0, v)
}
''')

COMMON = ENTRY_ITEMS + [ENTRY_SPEC] + POLICY_ITEMS + STATS_ITEMS + [ENGINE_SPEC]
