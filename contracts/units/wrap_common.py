"""Wrapper units (rule R9): contracts on what the real proc-macros emit for the fixture corpus, generated from the
fixtures' ATTRIBUTES. One unit per flavour: engine methods appear as external_body stubs carrying exactly the
contracts verified in the engine units; the wrapper tails are verified against them."""
import re

from extract import expand, wrappers as W
from extract.rules import R

WRAP_SPEC = dict(kind='raw', label='wrap_spec', text='''
// ---------------------------------------------------------------- effect log (ghost): what ran, what was consulted
pub struct Fx {
    pub body_runs: Ghost<int>,
    /// keys the cache_if predicate was consulted with, in order
    pub keep_calls: Ghost<Seq<String>>,
    /// keys the invalidate_on check was consulted with, in order
    pub stale_calls: Ghost<Seq<String>>,
}
#[verifier::external_body]
pub fn fx_body(fx: &mut Fx)
    ensures final(fx).body_runs@ == old(fx).body_runs@ + 1, final(fx).keep_calls == old(fx).keep_calls, final(fx).stale_calls == old(fx).stale_calls
{ }

// ---------------------------------------------------------------- keys (C02)
/// Debug rendering of a value (std; assumed)
pub uninterp spec fn debug_str<T>(x: T) -> Seq<char>;
/// the String with these characters
pub uninterp spec fn key_str(s: Seq<char>) -> String;
pub broadcast axiom fn ax_key_str(s: Seq<char>) ensures (#[trigger] key_str(s))@ == s;
pub open spec fn bar() -> Seq<char> { seq!['|'] }
pub broadcast axiom fn ax_bar_literal() ensures #[trigger] ("|")@ == bar();

pub open spec fn join_strs(v: Seq<String>, sep: Seq<char>) -> Seq<char>
    decreases v.len()
{
    if v.len() == 0 { Seq::empty() } else if v.len() == 1 { v[0]@ } else { v[0]@ + sep + join_strs(v.skip(1), sep) }
}
pub broadcast proof fn b_join1(v: Seq<String>, sep: Seq<char>)
    requires v.len() == 1 ensures #[trigger] join_strs(v, sep) == v[0]@ { }
pub broadcast proof fn b_join2(v: Seq<String>, sep: Seq<char>)
    requires v.len() == 2 ensures #[trigger] join_strs(v, sep) == v[0]@ + sep + v[1]@
{ reveal_with_fuel(join_strs, 3); assert(v.skip(1).len() == 1); assert(v.skip(1)[0] == v[1]); }
pub broadcast proof fn b_join3(v: Seq<String>, sep: Seq<char>)
    requires v.len() == 3 ensures #[trigger] join_strs(v, sep) == v[0]@ + sep + (v[1]@ + sep + v[2]@)
{ reveal_with_fuel(join_strs, 3); b_join2(v.skip(1), sep); assert(v.skip(1)[0] == v[1] && v.skip(1)[1] == v[2]); }

pub broadcast proof fn b_join4(v: Seq<String>, sep: Seq<char>)
    requires v.len() == 4 ensures #[trigger] join_strs(v, sep) == v[0]@ + sep + (v[1]@ + sep + (v[2]@ + sep + v[3]@))
{ reveal_with_fuel(join_strs, 3); b_join3(v.skip(1), sep); assert(v.skip(1)[0] == v[1] && v.skip(1)[1] == v[2] && v.skip(1)[2] == v[3]); }
pub broadcast proof fn b_join5(v: Seq<String>, sep: Seq<char>)
    requires v.len() == 5 ensures #[trigger] join_strs(v, sep) == v[0]@ + sep + (v[1]@ + sep + (v[2]@ + sep + (v[3]@ + sep + v[4]@)))
{ reveal_with_fuel(join_strs, 3); b_join4(v.skip(1), sep); assert(v.skip(1)[0] == v[1] && v.skip(1)[1] == v[2] && v.skip(1)[2] == v[3] && v.skip(1)[3] == v[4]); }

/// R4: Vec<String>::join(sep)
#[verifier::external_body]
pub fn vec_join(v: &Vec<String>, sep: &str) -> (r: String) ensures r@ == join_strs(v@, sep@) { unimplemented!() }
/// expanded format!("{:?}", x)
#[verifier::external_body]
pub fn debug_fmt<T>(x: &T) -> (r: String) ensures r@ == debug_str(*x) { unimplemented!() }

/// sync key parts: CacheableKey::to_cache_key (keys.rs: the blanket impl is the Debug rendering; verified in unit `keys`)
pub trait CacheableKey: Sized {
    fn to_cache_key(&self) -> (r: String) ensures r@ == debug_str(*self);
}
impl CacheableKey for u32 { #[verifier::external_body] fn to_cache_key(&self) -> String { unimplemented!() } }
impl CacheableKey for String { #[verifier::external_body] fn to_cache_key(&self) -> String { unimplemented!() } }
pub struct Recv { pub id: u32 }
impl CacheableKey for Recv { #[verifier::external_body] fn to_cache_key(&self) -> String { unimplemented!() } }
impl CacheableKey for Vec<u32> { #[verifier::external_body] fn to_cache_key(&self) -> String { unimplemented!() } }
impl CacheableKey for (u32, u32) { #[verifier::external_body] fn to_cache_key(&self) -> String { unimplemented!() } }

// ---------------------------------------------------------------- fixture bodies and predicates (user code: deterministic, assumed)
pub uninterp spec fn body2_spec(a: u32, b: String) -> u64;
#[verifier::external_body] pub fn body2(a: u32, b: String) -> (r: u64) ensures r == body2_spec(a, b) { unimplemented!() }
pub uninterp spec fn body1_spec(a: u32) -> u64;
#[verifier::external_body] pub fn body1(a: u32) -> (r: u64) ensures r == body1_spec(a) { unimplemented!() }
pub uninterp spec fn body3_spec(a: u32, b: String, c: u32) -> u64;
#[verifier::external_body] pub fn body3(a: u32, b: String, c: u32) -> (r: u64) ensures r == body3_spec(a, b, c) { unimplemented!() }
pub uninterp spec fn body5_spec(a: u32, b: String, c: u32, d: u32, e: String) -> u64;
#[verifier::external_body] pub fn body5(a: u32, b: String, c: u32, d: u32, e: String) -> (r: u64) ensures r == body5_spec(a, b, c, d, e) { unimplemented!() }
pub uninterp spec fn body_v_spec(a: Vec<u32>, b: Vec<u32>) -> u64;
#[verifier::external_body] pub fn body_v(a: Vec<u32>, b: Vec<u32>) -> (r: u64) ensures r == body_v_spec(a, b) { unimplemented!() }
pub uninterp spec fn body_t_spec(p: (u32, u32), c: u32) -> u64;
#[verifier::external_body] pub fn body_t(p: (u32, u32), c: u32) -> (r: u64) ensures r == body_t_spec(p, c) { unimplemented!() }
pub uninterp spec fn body_res_path_spec(a: u32) -> Result<u64, std::fmt::Error>;
#[verifier::external_body] pub fn body_res_path(a: u32) -> (r: Result<u64, std::fmt::Error>) ensures r == body_res_path_spec(a) { unimplemented!() }
pub uninterp spec fn body_res_spec(a: u32) -> Result<u64, String>;
#[verifier::external_body] pub fn body_res(a: u32) -> (r: Result<u64, String>) ensures r == body_res_spec(a) { unimplemented!() }
pub uninterp spec fn keep_spec(k: String, v: u64) -> bool;
#[verifier::external_body] pub fn keep(key: &String, v: &u64, fx: &mut Fx) -> (r: bool)
    ensures r == keep_spec(*key, *v), final(fx).keep_calls@ == old(fx).keep_calls@.push(*key), final(fx).body_runs == old(fx).body_runs, final(fx).stale_calls == old(fx).stale_calls
{ unimplemented!() }
pub uninterp spec fn keep_res_spec(k: String, v: Result<u64, String>) -> bool;
#[verifier::external_body] pub fn keep_res(key: &String, v: &Result<u64, String>, fx: &mut Fx) -> (r: bool)
    ensures r == keep_res_spec(*key, *v), final(fx).keep_calls@ == old(fx).keep_calls@.push(*key), final(fx).body_runs == old(fx).body_runs, final(fx).stale_calls == old(fx).stale_calls
{ unimplemented!() }
pub uninterp spec fn stale_res_spec(k: String, v: Result<u64, String>) -> bool;
#[verifier::external_body] pub fn stale_res(key: &String, v: &Result<u64, String>, fx: &mut Fx) -> (r: bool)
    ensures r == stale_res_spec(*key, *v), final(fx).stale_calls@ == old(fx).stale_calls@.push(*key), final(fx).body_runs == old(fx).body_runs, final(fx).keep_calls == old(fx).keep_calls
{ unimplemented!() }
pub uninterp spec fn stale_spec(k: String, v: u64) -> bool;
#[verifier::external_body] pub fn stale(key: &String, v: &u64, fx: &mut Fx) -> (r: bool)
    ensures r == stale_spec(*key, *v), final(fx).stale_calls@ == old(fx).stale_calls@.push(*key), final(fx).body_runs == old(fx).body_runs, final(fx).keep_calls == old(fx).keep_calls
{ unimplemented!() }

/// primitive values: the default estimator (size_of_val); verified against memory_estimator.rs in unit `memory_estimator`
impl MemoryEstimator for u64 {
    open spec fn mem(&self) -> nat { 8 }
    #[verifier::external_body] fn estimate_memory(&self) -> (r: usize) { unimplemented!() }
}
pub uninterp spec fn string_mem(s: String) -> nat;
impl MemoryEstimator for String {
    open spec fn mem(&self) -> nat { string_mem(*self) }
    #[verifier::external_body] fn estimate_memory(&self) -> (r: usize) { unimplemented!() }
}

/// Result<T, E>::clone (std; vstd has no specification for it)
pub assume_specification<T: Clone, E: Clone> [<Result<T, E> as Clone>::clone] (r: &Result<T, E>) -> (c: Result<T, E>)
    ensures c == *r;

/// Clone of a cached value yields an equal value (assumed contract on Clone for the value types of the corpus)
pub broadcast axiom fn ax_cloned_eq<T: Clone>(a: T, b: T) ensures #[trigger] cloned(a, b) ==> a == b;

pub broadcast group group_wrap { ax_key_str, ax_bar_literal, b_join1, b_join2, b_join3, b_join4, b_join5, ax_cloned_eq }
''')

AWAIT_TEXT = '''
// ---------------------------------------------------------------- the user body runs with no cache lock held (interference projection)
/// While the body runs (async: while the call is suspended at the .await) no lock is held (lock / await obligations), so every
/// other thread / task may run any cache operation. Each of them preserves the representation invariant and the configuration
/// (postconditions post_wf / cfg_frame of the engine units): that is the RELY condition stated here; everything else about store,
/// queue and statistics is arbitrary afterwards.
#[verifier::external_body]
pub fn await_point<R: Clone>(c: &mut %(engine)s<R>)
    ensures
        final(c).limit == old(c).limit && final(c).max_memory == old(c).max_memory && final(c).policy == old(c).policy
            && final(c).ttl == old(c).ttl && final(c).frequency_weight == old(c).frequency_weight,
        wf(final(c).%(m)s@, final(c).order@),
        %(far)s(final(c).%(m)s@),
{ }
'''


def await_spec(flavour):
    fl = FLAV[flavour]
    return dict(kind='raw', label='await_spec', text=AWAIT_TEXT % dict(engine=fl['engine'], m=fl['m'], far='a_freq_far' if flavour == 'async' else 'freq_far'))


CB_SPEC = dict(kind='raw', label='callback_spec', text='''
// ---------------------------------------------------------------- invalidation callbacks registered by the macros (C12, C13)
/// R8: the key predicate handed to a conditional-invalidation callback (`&dyn Fn(&str) -> bool`) as an opaque value with a spec meaning
pub struct Pred { pub id: u64 }
pub uninterp spec fn pred_holds(p: Pred, k: String) -> bool;

/// R4: `map.keys().filter(|k| p(k.as_str())).cloned().collect()` and the DashMap `iter().filter(..).map(|e| e.key().clone()).collect()`
/// form (assumed contract of the std adapters: exactly the stored keys satisfying the predicate, each once)
#[verifier::external_body]
pub fn keys_matching<V>(m: &HashMap<String, V>, p: &Pred) -> (r: Vec<String>)
    ensures r@.no_duplicates(), forall|k: String| #[trigger] r@.contains(k) <==> (m@.contains_key(k) && pred_holds(*p, k)),
{ unimplemented!() }

/// q with the keys ks removed one after the other (relative order of the others preserved)
pub open spec fn rm_seq(q: Seq<String>, ks: Seq<String>) -> Seq<String>
    decreases ks.len()
{
    if ks.len() == 0 { q } else { rm1(rm_seq(q, ks.drop_last()), ks.last()) }
}
pub broadcast proof fn b_rm_seq_step(q: Seq<String>, ks: Seq<String>, i: int)
    requires 0 <= i < ks.len()
    ensures #[trigger] rm_seq(q, ks.take(i + 1)) == rm1(rm_seq(q, ks.take(i)), ks[i])
{
    assert(ks.take(i + 1).drop_last() =~= ks.take(i));
    assert(ks.take(i + 1).last() == ks[i]);
}
pub broadcast proof fn b_rm_seq_empty(q: Seq<String>, ks: Seq<String>)
    ensures #[trigger] rm_seq(q, ks.take(0)) == q
{ assert(ks.take(0).len() == 0); }
pub broadcast group group_cb { b_rm_seq_step, b_rm_seq_empty }
''')

BODY_SPEC = {'body1(a)': 'body1_spec(a)', 'body_res_path(a)': 'body_res_path_spec(a)', 'body5(a, b, c, d, e)': 'body5_spec(a, b, c, d, e)', 'body3(a, b, c)': 'body3_spec(a, b, c)', 'body_v(a, b)': 'body_v_spec(a, b)', 'body_t((x, y), c)': 'body_t_spec(p0, c)',
             'body2(a, b)': 'body2_spec(a, b)', 'body_res(a)': 'body_res_spec(a)', '0': '0u64'}
HINT = (('fn_start',), 'wrap_axioms', 'broadcast use group_wrap;')


def key_expr(attrs):
    parts = []
    if attrs['has_self']:
        parts.append('debug_str(*self_)')
    parts += ['debug_str(%s)' % n for n, _t in attrs['params']]
    if not parts:
        return 'key_str(Seq::<char>::empty())'
    e = parts[-1]
    for p in reversed(parts[:-1]):
        e = '%s + bar() + (%s)' % (p, e) if len(parts) > 2 and p is not parts[-2] else '%s + bar() + %s' % (p, e)
    # closed forms used by the b_join lemmas: p1 ; p1+sep+p2 ; p1+sep+(p2+sep+p3) ; ... (right-nested)
    if len(parts) > 5:
        raise ValueError('fixture arity > 5 not supported')
    e = parts[-1]
    for i, p_ in enumerate(reversed(parts[:-1])):
        e = '%s + bar() + %s' % (p_, e if i == 0 else '(%s)' % e)
    return 'key_str(%s)' % e


def body_spec(name, attrs, fixture_src):
    m = re.search(r'fn\s+%s\s*\(.*?\)\s*->\s*[^{]+\{\s*(.*?)\s*\}' % re.escape(name), fixture_src, re.S)
    b = ' '.join(m.group(1).split())
    if b not in BODY_SPEC:
        raise ValueError('fixture body %r has no spec' % b)
    return BODY_SPEC[b]


FLAV = {
    'global': dict(engine='GlobalCache', unit='global_cache', m='map', val='%s.value', exp='expired(%s, %s)'),
    'thread': dict(engine='ThreadLocalCache', unit='thread_local_cache', m='cache', val='%s.value', exp='expired(%s, %s)'),
    'async': dict(engine='AsyncGlobalCache', unit='async_cache', m='cache', val='%s.0', exp='aexpired(%s, %s)'),
}


def contract(name, attrs, info, fixture_src):
    fl = FLAV[info['scope']]
    m = fl['m']
    K = key_expr(attrs)
    M0, M1 = 'old(__cache).%s@' % m, 'final(__cache).%s@' % m
    Q0, Q1 = 'old(__cache).order@', 'final(__cache).order@'
    V0 = fl['val'] % ('%s[%s]' % (M0, K))
    V1 = fl['val'] % ('%s[%s]' % (M1, K))
    HIT = '(%s.contains_key(%s) && !%s)' % (M0, K, fl['exp'] % ('%s[%s]' % (M0, K), 'old(__cache).ttl'))
    BODY = body_spec(name, attrs, fixture_src)
    RUNS0, RUNS1 = 'old(fx).body_runs@', 'final(fx).body_runs@'
    NOT_STORED = '%s == %s.remove(%s) && %s == rm1(%s, %s)' % (M1, M0, K, Q1, Q0, K)
    # async stores after evicting, so the fresh entry is always resident; sync may evict the zero-hit newcomer right away
    STORED = ('(%s.contains_key(%s) && %s == ret)' if info['scope'] == 'async' else '(%s.contains_key(%s) ==> %s == ret)') % (M1, K, V1)
    if info['scope'] == 'async' and attrs.get('max_memory') is not None:
        # a value that alone exceeds max_memory is (rightly) not cached
        STORED = '(ret.mem() <= old(__cache).max_memory->Some_0 ==> %s)' % STORED
    req = [('wf', 'wf(%s, %s)' % (M0, Q0))]
    # configuration: what the macro passes to ...Cache::new
    a = info['ctor_args']
    cfg = ['old(__cache).limit == %s' % norm(a[2]), 'old(__cache).max_memory == %s' % norm(a[3]), 'old(__cache).ttl == %s' % norm(a[5]),
           'old(__cache).frequency_weight == %s' % norm(a[6])]
    if info['scope'] != 'async':
        cfg.append('old(__cache).policy == %s' % norm(a[4]))
    req.append(('config_as_emitted', ' && '.join(cfg)))
    has_mem = attrs.get('max_memory') is not None
    if info['scope'] == 'async':
        req += [('counters_far_from_saturation', 'a_freq_far(%s)' % M0), ('tlru_cfg', 'old(__cache).policy is TLRU ==> tlru_cfg_ok(old(__cache).ttl, old(__cache).frequency_weight)')]
    else:
        req.append(('tlru_cfg', 'old(__cache).policy is TLRU ==> tlru_cfg_ok(old(__cache).ttl, old(__cache).frequency_weight)'))
        if has_mem:
            req += [('counters_far_from_saturation', 'freq_far(%s)' % M0)]
    ens = [('post_wf', ['C04', 'C01', 'C05', 'C07', 'C08', 'C13'], 'wf(%s, %s)' % (M1, Q1)),
           # C15 at the macro level: one call = one lookup = exactly one counter, a hit exactly when an unexpired entry was found
           # (the stale-entry path of invalidate_on counts as the hit it was; stores and predicates count nothing)
           ('one_lookup_counted_per_call', ['C15'],
            'final(__cache).stats.hits.v == (if %s { old(__cache).stats.hits.v.wrapping_add(1) } else { old(__cache).stats.hits.v }) '
            '&& final(__cache).stats.misses.v == (if %s { old(__cache).stats.misses.v } else { old(__cache).stats.misses.v.wrapping_add(1) })' % (HIT, HIT))]
    inval, cif, res = attrs.get('invalidate_on'), attrs.get('cache_if'), attrs['is_result']
    sync_result_ok = ' && ret is Ok' if (res and info['scope'] != 'async') else ''
    if inval:
        STALE = '%s_spec(%s, %s)' % (inval, K, V0)
        SERVE = '(%s && !%s)' % (HIT, STALE)
        ens += [
            ('valid_served_without_body', ['C11', 'C03', 'C01', 'C02', 'C06'], '%s ==> ret == %s && %s == %s' % (SERVE, V0, RUNS1, RUNS0)),
            ('stale_never_served_body_reruns', ['C11'], '(%s && %s) ==> %s == %s + 1 && ret == %s' % (HIT, STALE, RUNS1, RUNS0, BODY)),
            ('check_consulted_once_per_hit', ['C11'], 'final(fx).stale_calls@ == (if %s { old(fx).stale_calls@.push(%s) } else { old(fx).stale_calls@ })' % (HIT, K)),
        ]
    else:
        SERVE = HIT
        ens += [('hit_served_without_body', ['C03', 'C01', 'C02', 'C06'], '%s ==> ret == %s && %s == %s' % (HIT, V0, RUNS1, RUNS0)),
                ('no_check_consulted', ['C11'], 'final(fx).stale_calls == old(fx).stale_calls')]
    MISS = '!%s' % SERVE
    ens.append(('miss_runs_body_once', ['C03', 'C01', 'C06'], '%s ==> %s == %s + 1 && ret == %s' % (MISS, RUNS1, RUNS0, BODY)))
    if cif:
        KEEP = '%s_spec(%s, ret)' % (cif, K)
        ens += [
            ('predicate_consulted_once_per_body_run', ['C10'], 'final(fx).keep_calls@ == (if %s { old(fx).keep_calls@.push(%s) } else { old(fx).keep_calls@ })' % (MISS, K)),
            ('rejected_not_stored', ['C10'], '(!%s && !%s) ==> %s' % (HIT, KEEP, NOT_STORED)),
            ('accepted_stored', ['C10', 'C01', 'C02'], '(%s && %s%s) ==> %s' % (MISS, KEEP, sync_result_ok, STORED)),
        ]
        if inval:
            ens.append(('rejected_refresh_keeps_old_entry', ['C10', 'C11'], '(%s && %s && !%s) ==> %s.dom() == %s.dom() && %s == %s' % (HIT, STALE, KEEP, M1, M0, V1, V0)))
        if sync_result_ok:
            ens.append(('accepted_err_not_stored', ['C10', 'C09'], '(!%s && ret is Err) ==> %s' % (HIT, NOT_STORED)))
    else:
        ens.append(('no_predicate_consulted', ['C10'], 'final(fx).keep_calls == old(fx).keep_calls'))
        if res and inval:
            ens.append(('failed_refresh_keeps_old_entry', ['C09', 'C11'], '(%s && %s && ret is Err) ==> %s.dom() == %s.dom() && %s == %s' % (HIT, STALE, M1, M0, V1, V0)))
        if res:
            ens += [('err_never_cached', ['C09'], '(!%s && ret is Err) ==> %s' % (HIT, NOT_STORED)),
                    ('ok_cached', ['C09', 'C01', 'C02'], '(%s && ret is Ok) ==> %s' % (MISS, STORED))]
        else:
            ens.append(('miss_stores_result', ['C03', 'C01', 'C11', 'C02'], '%s ==> %s' % (MISS, STORED)))
            if attrs.get('limit') is None and not has_mem and attrs.get('ttl') is None and not inval:
                ens.append(('unbounded_cache_keeps_everything', ['C03'], '%s.dom() == %s.dom().insert(%s)' % (M1, M0, K)))
    return req, ens


def contract_await(name, attrs, info, fixture_src):
    """Only schedule-independent clauses: what must hold whatever other threads / tasks did while the body ran."""
    req, _ens = contract(name, attrs, info, fixture_src)
    fl = FLAV[info['scope']]
    K = key_expr(attrs)
    M0, M1 = 'old(__cache).%s@' % fl['m'], 'final(__cache).%s@' % fl['m']
    V0, V1 = fl['val'] % ('%s[%s]' % (M0, K)), fl['val'] % ('%s[%s]' % (M1, K))
    HIT = '(%s.contains_key(%s) && !%s)' % (M0, K, fl['exp'] % ('%s[%s]' % (M0, K), 'old(__cache).ttl'))
    RUNS0, RUNS1 = 'old(fx).body_runs@', 'final(fx).body_runs@'
    RAN = '%s == %s + 1' % (RUNS1, RUNS0)
    if info['scope'] == 'async':
        STORED = '(%s.contains_key(%s) && %s == ret)' % (M1, K, V1)
        if attrs.get('max_memory') is not None:
            STORED = '(ret.mem() <= old(__cache).max_memory->Some_0 ==> %s)' % STORED
    else:
        # sync stores first and evicts afterwards: the zero-hit newcomer may be the victim; if it is resident it holds this result
        STORED = '(%s.contains_key(%s) ==> %s == ret)' % (M1, K, V1)
    accept = []
    if attrs.get('cache_if'):
        accept.append('%s_spec(%s, ret)' % (attrs['cache_if'], K))
        if attrs['is_result'] and info['scope'] != 'async':
            accept.append('ret is Ok')
    elif attrs['is_result']:
        accept.append('ret is Ok')
    ens = [('post_wf', ['C20', 'C04'], 'wf(%s, final(__cache).order@)' % M1),
           ('body_at_most_once', ['C20', 'C03'], '%s == %s || %s' % (RUNS1, RUNS0, RAN)),
           ('resumed_call_stores_its_result', ['C20', 'C03', 'C01'], '(%s) ==> %s' % (' && '.join([RAN] + accept), STORED))]
    if not attrs.get('invalidate_on'):
        ens.append(('hit_is_served_before_any_suspension', ['C20', 'C03'], '%s ==> ret == %s && %s == %s' % (HIT, V0, RUNS1, RUNS0)))
    if info['scope'] != 'async' and attrs.get('max_memory') is None and not any(r[0] == 'counters_far_from_saturation' for r in req):
        req.append(('counters_far_from_saturation', 'freq_far(%s)' % M0))
    return req, ens


def norm(arg):
    arg = ' '.join(arg.split())
    arg = re.sub(r'\bcachelito_core\s*::\s*', '', arg)
    arg = re.sub(r'Option\s*::\s*<\s*\w+\s*>\s*::\s*None', 'None', arg)
    if arg == 'None':
        return 'None'
    return arg


def callback_items(name, info, flavour):
    """The clear / conditional-invalidation callbacks the macro registers for this cache, as Verus functions over the
    cache's statics (R1: locks erased; the lock order is checked by the rank obligations on the same text)."""
    fl = FLAV[flavour]
    items = []
    entry = 'CacheEntry<%s>' % info['ret'] if flavour == 'global' else '(%s, u64, u64)' % info['ret']
    for kind, cb in sorted(info['callbacks'].items()):
        body = cb['body']
        log = []
        rules = [
            R('R1.static_write', r'\b(?:GLOBAL_OR_THREAD_CACHE_\w+) \. write \( \)', '(&mut *cache_static)', 'store lock acquisition on the static -> &mut borrow'),
            R('R1.static_lock', r'\b(?:GLOBAL_OR_THREAD_ORDER_\w+|__ORDER_\w+) \. lock \( \)', '(&mut *order_static)', 'queue lock acquisition on the static -> &mut borrow'),
            R('R4.keys_matching_sync', r'(@ID@) \. keys \( \) \. filter \( \| (@ID@) \| (@ID@) \( \2 \. as_str \( \) \) \) \. cloned \( \) \. collect \( \)', r'keys_matching(&*\1, \3)',
              'keys().filter(pred).cloned().collect() -> keys_matching (assumed contract of the std adapters)'),
            R('R4.keys_matching_async', r'\b__CACHE_\w+ \. iter \( \) \. filter \( \| (@ID@) \| (@ID@) \( \1 \. key \( \) \. as_str \( \) \) \) \. map \( \| (@ID@) \| \3 \. key \( \) \. clone \( \) \) \. collect \( \)',
              r'keys_matching(&*cache_static, \2)', 'DashMap iter().filter(pred).map(key.clone).collect() -> keys_matching (assumed contract)'),
            R('R1.dashmap_static', r'\b__CACHE_\w+ \. (remove|clear) \(', r'cache_static.\1(', 'DashMap static -> HashMap (R1)'),
            R('R4.retain_in', r'(@ID@) \. retain \( \| (@ID@) \| (@ID@) \. contains_key \( \2 \) \)', r'vd_retain_in(&mut *\1, &*\3)',
              'retain(|k| m.contains_key(k)) -> keep exactly the stored keys, in order (std adapter, assumed contract)'),
            R('R4.position_ref', r'(@ID@) \. iter \( \) \. position \( \| (@ID@) \| \2 == (@ID@) \)', r'vd_position_str(&*\1, \3)', 'iter().position(|k| k == key) -> first index (assumed contract)'),
        ]
        from extract import gen as G
        body = G._apply_rules(body, rules, log, cb['line'], 'callback')
        if kind == 'check':
            pname = re.search(r'\|\s*(\w+)\s*:\s*&\s*dyn\s+Fn', ' ').group(1) if False else None
            sig = 'fn cb_check_%s(cache_static: &mut HashMap<String, %s>, order_static: &mut VecDeque<String>, CHECKFN: &Pred) ' % (name, entry)
            # the closure parameter name (check_fn / invalidation_check) is whatever the macro emitted
            mparam = re.search(r'keys_matching\(&\*\w+, (\w+)\)', body)
            pn = mparam.group(1) if mparam else 'check_fn'
            sig = sig.replace('CHECKFN', pn)
            M0, M1, Q0, Q1 = 'old(cache_static)@', 'final(cache_static)@', 'old(order_static)@', 'final(order_static)@'
            ens = [
                ('post_wf', ['C13', 'C04', 'C05'], 'wf(%s, %s)' % (M1, Q1)),
                ('removes_exactly_matching', ['C13'], 'forall|k: String| #[trigger] %s.contains_key(k) <==> (%s.contains_key(k) && !pred_holds(*%s, k))' % (M1, M0, pn)),
                ('survivors_untouched', ['C13', 'C01'], 'forall|k: String| #[trigger] %s.contains_key(k) ==> %s[k] == %s[k]' % (M1, M1, M0)),
                ('queue_order_preserved', ['C13', 'C07', 'C08'], 'exists|ks: Seq<String>| ks.no_duplicates() && (forall|k: String| #[trigger] ks.contains(k) <==> (%s.contains_key(k) && pred_holds(*%s, k))) && %s == rm_seq(%s, ks)' % (M0, pn, Q1, Q0)),
            ]
            loops = {0: dict(iter='it', invariant=[
                ('wf', 'wf(cache_static@, order_write@)' if flavour == 'async' else 'wf(map_write@, order_write@)'),
                ('snap', 'it.snapshot@.remaining().len() == keys_to_remove@.len() && forall|j: int| 0 <= j < keys_to_remove@.len() ==> *(#[trigger] it.snapshot@.remaining()[j]) == keys_to_remove@[j]'),
                ('keys', 'keys_to_remove@.no_duplicates() && forall|k: String| #[trigger] keys_to_remove@.contains(k) <==> (%s.contains_key(k) && pred_holds(*%s, k))' % (M0, pn)),
                ('store', 'forall|k: String| #[trigger] %s.contains_key(k) <==> (%s.contains_key(k) && !keys_to_remove@.take(it.index@ as int).contains(k))' % ('cache_static@' if flavour == 'async' else 'map_write@', M0)),
                ('frame', 'forall|k: String| #[trigger] %s.contains_key(k) ==> %s[k] == %s[k]' % ('cache_static@' if flavour == 'async' else 'map_write@', 'cache_static@' if flavour == 'async' else 'map_write@', M0)),
                ('queue', 'order_write@ == rm_seq(%s, keys_to_remove@.take(it.index@ as int))' % Q0),
            ])}
            hints = [(('fn_start',), 'cb_axioms', 'broadcast use group_cb;'), (('loop_start', 0), 'cb_axioms_loop', 'broadcast use group_cb; assert(*key == keys_to_remove@[it.index@ as int]);')]
            items.append(dict(kind='fn', name='cb_check_' + name, label='callback::check::' + name, sig_text=sig, body_text=body, src_line=cb['line'],
                              src_file='macro-expansion of fixtures/src/lib.rs', requires=[('wf', 'wf(%s, %s)' % (M0, Q0))], ensures=ens, loops=loops, hints=hints,
                              props=['C13']))
        else:
            sig = 'fn cb_clear_%s(cache_static: &mut HashMap<String, %s>, order_static: &mut VecDeque<String>) ' % (name, entry)
            ens = [('empties_store_and_queue', ['C12'], 'final(cache_static)@.len() == 0 && final(order_static)@.len() == 0 && final(cache_static)@.dom() == Set::<String>::empty()'),
                   ('post_wf', ['C12', 'C04', 'C05'], 'wf(final(cache_static)@, final(order_static)@)')]
            items.append(dict(kind='fn', name='cb_clear_' + name, label='callback::clear::' + name, sig_text=sig, body_text=body, src_line=cb['line'],
                              src_file='macro-expansion of fixtures/src/lib.rs', ensures=ens, props=['C12']))
    return items


CALLBACK_EQUIV = {}


def build(flavour, await_interference=False):
    """Items of the wrapper unit of one flavour. await_interference: the async wrappers with `await_point` (arbitrary
    interference preserving the invariant) at the .await of the body, against the schedule-independent clauses only."""
    import importlib
    from contracts.units import engine_common  # noqa: F401
    exp = expand.expand_fixtures()
    attrs_all = W.parse_attrs()
    fixture_src = open(W.VERIF + '/fixtures/src/lib.rs').read()
    fl = FLAV[flavour]
    eng = importlib.import_module('contracts.units.' + fl['unit']).UNIT
    items = []
    for it in eng['items']:
        if it.get('kind') == 'fn' and it.get('engine'):
            items.append(dict(it, stub=True, loops={}, hints=[]))
        elif it.get('kind') == 'fn' and it.get('file', '').endswith('utils.rs'):
            continue
        else:
            items.append(it)
    items.append(WRAP_SPEC)
    if await_interference:
        items.append(await_spec(flavour))
    items.append(CB_SPEC)
    exp_stripped = exp
    seen_shapes, same_as = {}, []
    for name in sorted(attrs_all):
        attrs = attrs_all[name]
        info = W.extract(exp_stripped, name, attrs)
        if info['scope'] != flavour:
            continue
        req, ens = (contract_await if await_interference else contract)(name, attrs, info, fixture_src)
        params = ''.join(', %s: %s' % (n, t) for n, t in attrs['params'])
        selfp = ', self_: &Recv' if attrs['has_self'] else ''
        sig = 'fn w_%s(__cache: &mut %s<%s>%s%s, fx: &mut Fx) -> %s ' % (name, fl['engine'], attrs['ret'], selfp, params, attrs['ret'])
        log = []
        body = W.apply_tail_rules(info['tail'], attrs, log, info['tail_line'], 'w_' + name, await_interference=await_interference,
                                  cache_static=re.sub(r'[^\w]', '', info['ctor_args'][0]) if info['scope'] == 'async' else None,
                                  stats_static=re.sub(r'[^\w]', '', info['ctor_args'][-1]) if info['scope'] in ('async', 'global') and 'STATS' in info['ctor_args'][-1] else None)
        body = re.sub(r'debug_fmt\(&self_\)', 'debug_fmt(self_)', body)
        rebind = ''.join('let %s = %s; ' % (pat, pn) for pn, pat in sorted(attrs.get('patterns', {}).items()))
        if rebind:
            log.append(dict(rule='R9.pattern_param', item='w_' + name, line=info['tail_line'], old=', '.join(attrs['patterns'].values()), new=rebind))
            body = rebind + body
        items.append(dict(kind='fn', name='w_' + name, label=('wrapper[await]::' if await_interference else 'wrapper::') + name, sig_text=sig, body_text='{\n' + body + '\n}', src_line=info['tail_line'],
                          src_file='macro-expansion of fixtures/src/lib.rs', ret='ret', requires=req, ensures=ens, hints=[HINT], pre_log=log, option_map=True,
                          props=['C20', 'C03'] if await_interference else ['C01', 'C02', 'C03', 'C09', 'C10', 'C11', 'C04', 'C05', 'C07', 'C08', 'C13', 'C15']))
        if flavour in ('global', 'async') and not await_interference:
            info['ret'] = attrs['ret']
            cbs = callback_items(name, info, flavour)
            for cb in cbs:
                # every cache gets the same callback text up to the names of its statics and its value type: verify one
                # representative per shape, and require the others to be token-identical after renaming (structural obligation)
                shape = re.sub(r'\s+', ' ', cb['body_text'])
                kind = cb['label'].split('::')[1]
                key = (kind, shape)
                if key in seen_shapes:
                    same_as.append((cb['label'], seen_shapes[key]))
                else:
                    seen_shapes[key] = cb['label']
                    items.append(cb)
    CALLBACK_EQUIV[flavour] = same_as
    return items
