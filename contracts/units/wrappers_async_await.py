"""Unit wrappers_async_await (C20, concurrent sentence of C03): what #[cache_async] emits, with arbitrary interference (preserving the
representation invariant and the configuration) at the .await of the user body, against the schedule-independent clauses only."""
from contracts.units import wrap_common

UNIT = dict(name='wrappers_async_await', prelude=['prelude.rs', 'prelude_float.rs'], items=wrap_common.build('async', await_interference=True))
