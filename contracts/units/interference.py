"""Unit `interference` (C15 under concurrency, C16): the lookup functions of the global and async engines under the
INTERFERENCE projection: every lock acquisition / DashMap operation first lets the guarded data change arbitrarily
(what other threads may do while this thread does not hold the lock). Under that projection only schedule-independent
obligations are stated: exactly one statistics counter is bumped by exactly one per lookup, and the lookup cannot panic."""
from extract.rules import R, R4, R5, R1_TYPES
from contracts.units.engine_common import COMMON
from contracts.units.global_cache import UTILS_FNS
from contracts.units import async_cache as AC

G = 'cachelito-core/src/global_cache.rs'
A = 'cachelito-core/src/async_global_cache.rs'

ONE = ('one_counter_per_lookup_under_interference', ['C15'],
       'final(self).stats.hits.v == (if res is Some { old(self).stats.hits.v.wrapping_add(1) } else { old(self).stats.hits.v }) '
       '&& final(self).stats.misses.v == (if res is Some { old(self).stats.misses.v } else { old(self).stats.misses.v.wrapping_add(1) })')

UNIT = dict(
    name='interference',
    items=COMMON + UTILS_FNS + [AC.SPEC_MIN,
        dict(kind='struct', file=G, name='GlobalCache', rules=R1_TYPES),
        dict(kind='fn', file=G, impl=r"^impl<R: Clone \+ 'static> GlobalCache<R>$", name='get', label='GlobalCache::get[interference]', engine='GlobalCache',
             interference=True, ret='res', ensures=[ONE]),
        dict(kind='fn', file=G, impl=r"^impl<R: Clone \+ 'static> GlobalCache<R>$", name='increment_frequency', label='GlobalCache::increment_frequency[interference]',
             engine='GlobalCache', interference=True, ensures=[('stats_frame', ['C15'], 'final(self).stats == old(self).stats')]),
        dict(kind='struct', file=A, name='AsyncGlobalCache', rules=R1_TYPES + AC.LIFETIME),
        dict(kind='fn', file=A, impl=AC.IMPL, name='get', label='AsyncGlobalCache::get[interference]', engine='AsyncGlobalCache', interference=True, ret='res',
             rules=R4 + R5 + R1_TYPES, impl_rules=AC.LIFETIME, ensures=[ONE]),
    ],
)
