"""Unit `interference` (C15 under concurrency, C16): the lookup functions of the global and async engines under the
INTERFERENCE projection: every lock acquisition / DashMap operation first lets the guarded data change arbitrarily
(what other threads may do while this thread does not hold the lock). Under that projection only schedule-independent
obligations are stated: exactly one statistics counter is bumped by exactly one per lookup, and the lookup cannot panic."""
from extract.rules import R, R4, R5, R1_TYPES
from contracts.units.engine_common import COMMON
from contracts.units.global_cache import UTILS_FNS, SCORE_STUBS
from contracts.units import async_cache as AC

# the shared helpers of utils.rs work on data the caller has already locked (no acquisition inside): they appear with the
# contracts verified in unit `utils`, so edits inside them are judged there (and by that unit's stand-in), not here
UTILS_STUBS = [dict(it, stub=True, loops={}, hints=[]) for it in UTILS_FNS]

G = 'cachelito-core/src/global_cache.rs'
A = 'cachelito-core/src/async_global_cache.rs'

SUM_A = dict(kind='raw', label='async_sum_spec', text='''
/// R4: DashMap `iter().map(|e| e.value().0.estimate_memory()).sum()` (under interference only its type matters)
#[verifier::external_body]
pub fn sum_estimates_a<R: MemoryEstimator>(m: &HashMap<String, (R, u64, u64)>) -> (r: usize)
    // the estimates of the resident values and of the value being stored count bytes that are live at the same time (assumption ax_resident_fits_a)
    ensures forall|v: R| r + #[trigger] v.mem() <= usize::MAX
{ unimplemented!() }
''')

ONE = ('one_counter_per_lookup_under_interference', ['C15'],
       'final(self).stats.hits.v == (if res is Some { old(self).stats.hits.v.wrapping_add(1) } else { old(self).stats.hits.v }) '
       '&& final(self).stats.misses.v == (if res is Some { old(self).stats.misses.v } else { old(self).stats.misses.v.wrapping_add(1) })')

UNIT = dict(
    name='interference',
    auto_helpers=True,
    prelude=['prelude.rs', 'prelude_float.rs'],
    items=COMMON + UTILS_STUBS + SCORE_STUBS + [AC.SPEC_MIN, SUM_A,
        dict(kind='struct', file=G, name='GlobalCache', rules=R1_TYPES),
        dict(kind='fn', file=G, impl=r"^impl<R: Clone \+ 'static> GlobalCache<R>$", name='get', label='GlobalCache::get[interference]', engine='GlobalCache',
             interference=True, ret='res', ensures=[ONE]),
        dict(kind='fn', file=G, impl=r"^impl<R: Clone \+ 'static> GlobalCache<R>$", name='increment_frequency', label='GlobalCache::increment_frequency[interference]',
             engine='GlobalCache', interference=True, ensures=[('stats_frame', ['C15'], 'final(self).stats == old(self).stats')]),
        # panic freedom and termination of the store path under interference (C16): no functional postconditions are claimed
        dict(kind='fn', file=G, impl=r"^impl<R: Clone \+ 'static> GlobalCache<R>$", name='handle_entry_limit_eviction', label='GlobalCache::handle_entry_limit_eviction[interference]',
             engine='GlobalCache', split_self=True, interference=True, rules=R4 + R5 + R1_TYPES, props=['C16'],
             requires=[('tlru_cfg', 'policy is TLRU ==> tlru_cfg_ok(ttl, frequency_weight)')],
             loops={0: dict(decreases='o@.len()')}),
        dict(kind='fn', file=G, impl=r"^impl<R: Clone \+ 'static> GlobalCache<R>$", name='insert', label='GlobalCache::insert[interference]', engine='GlobalCache',
             interference=True, rules=R4, props=['C16'], requires=[('tlru_cfg', 'old(self).policy is TLRU ==> tlru_cfg_ok(old(self).ttl, old(self).frequency_weight)')]),
        dict(kind='struct', file=A, name='AsyncGlobalCache', rules=R1_TYPES + AC.LIFETIME),
        dict(kind='fn', file=G, impl=r"MemoryEstimator> GlobalCache<R>$", impl_rules=[R('R0.crate_path', r'\bcrate :: MemoryEstimator\b', 'MemoryEstimator', 'crate:: path prefix')],
             name='insert_with_memory', label='GlobalCache::insert_with_memory[interference]', engine='GlobalCache', interference=True, rules=R4 + R5, props=['C16'],
             requires=[('tlru_cfg', 'old(self).policy is TLRU ==> tlru_cfg_ok(old(self).ttl, old(self).frequency_weight)')],
             loops={0: dict(invariant=[('cfg', 'self.policy == old(self).policy && self.ttl == old(self).ttl && self.frequency_weight == old(self).frequency_weight && self.limit == old(self).limit && (self.policy is TLRU ==> tlru_cfg_ok(self.ttl, self.frequency_weight))')], decreases='o@.len()'),
                    1: dict(invariant_except_break=[('flag', '!successfully_evicted && o@.len() <= o_len0')], ensures=[('popped', 'successfully_evicted ==> o@.len() < o_len0')], decreases='o@.len()')},
             hints=[(('before_loop', 1), 'len0', 'let ghost o_len0 = o@.len();')]),
        dict(kind='fn', file=A, impl=AC.IMPL, name='get', label='AsyncGlobalCache::get[interference]', engine='AsyncGlobalCache', interference=True, ret='res',
             rules=R4 + R5 + R1_TYPES, impl_rules=AC.LIFETIME, ensures=[ONE]),
        dict(kind='fn', file=A, impl=AC.IMPL, name='is_already_key_inserted', label='AsyncGlobalCache::is_already_key_inserted[interference]', engine='AsyncGlobalCache',
             split_self=True, split_always=('max_memory',), interference=True, rules=R4 + R1_TYPES, impl_rules=AC.LIFETIME, props=['C16']),
        dict(kind='fn', file=A, impl=AC.IMPL, name='find_min_frequency_key', label='AsyncGlobalCache::find_min_frequency_key[interference]', engine='AsyncGlobalCache',
             split_self=True, interference=True, rules=R1_TYPES, impl_rules=AC.LIFETIME, props=['C16'], ret='res',
             ensures=[('result_from_queue', ['C16'], 'res is Some ==> order@.contains(res->Some_0)')],
             loops={0: dict(iter='it', invariant=[('seen', 'min_freq_key is Some ==> order@.contains(min_freq_key->Some_0)')])}),
        dict(kind='fn', file=A, impl=AC.IMPL, name='find_arc_eviction_key', label='AsyncGlobalCache::find_arc_eviction_key[interference]', engine='AsyncGlobalCache',
             split_self=True, stub=True, rules=R1_TYPES, impl_rules=AC.LIFETIME, ret='res', ensures=[('result_from_queue', ['C16'], 'res is Some ==> order@.contains(res->Some_0)')]),
        dict(kind='fn', file=A, impl=AC.IMPL, name='find_tlru_eviction_key', label='AsyncGlobalCache::find_tlru_eviction_key[interference]', engine='AsyncGlobalCache',
             split_self=True, stub=True, rules=R1_TYPES, impl_rules=AC.LIFETIME, ret='res', ensures=[('result_from_queue', ['C16'], 'res is Some ==> order@.contains(res->Some_0)')]),
        dict(kind='fn', file=A, impl=AC.IMPL, name='handle_entry_limit_eviction', label='AsyncGlobalCache::handle_entry_limit_eviction[interference]', engine='AsyncGlobalCache',
             split_self=True, interference=True, rules=R4 + R5 + R1_TYPES, impl_rules=AC.LIFETIME, props=['C16'],
             ensures=[('queue_never_grows', ['C16'], 'final(order)@.len() <= old(order)@.len()')],
             loops={0: dict(invariant=[('shrinks', 'order@.len() <= old(order)@.len()')], decreases='order@.len()')}),
        dict(kind='fn', file=A, impl=AC.IMPL, name='insert', label='AsyncGlobalCache::insert[interference]', engine='AsyncGlobalCache', interference=True,
             rules=R4 + R5 + R1_TYPES, impl_rules=AC.LIFETIME, props=['C16']),
        # the async memory-aware store under interference: panic freedom and termination (every evicting arm shortens the queue)
        dict(kind='fn', file=A, impl=AC.IMPL_MEM, name='insert_with_memory', label='AsyncGlobalCache::insert_with_memory[interference]', engine='AsyncGlobalCache',
             interference=True, rules=R4 + R5 + R1_TYPES, impl_rules=AC.LIFETIME + [R('R0.crate_path', r'\bcrate :: MemoryEstimator\b', 'MemoryEstimator', 'crate:: path prefix')],
             props=['C16'], requires=[('tlru_cfg', 'old(self).policy is TLRU ==> tlru_cfg_ok(old(self).ttl, old(self).frequency_weight)')],
             loops={0: dict(invariant=[('cfg', 'self.policy == old(self).policy && self.ttl == old(self).ttl && self.frequency_weight == old(self).frequency_weight && self.limit == old(self).limit && (self.policy is TLRU ==> tlru_cfg_ok(self.ttl, self.frequency_weight))'), ('size', 'value_size == value.mem()')],
                            decreases='order@.len()')}),
    ],
)
