"""Unit `keys` (C02): the default cache key is the Debug rendering (keys.rs blanket impl), and '|'-joined keys of
'|'-safe, injective renderings are injective on argument tuples (lemmas; the std facts about Debug are axioms)."""
import glob
import os
import re

from extract import rustsrc
from extract.gen import REPO
from extract.rules import R

KEYS = 'cachelito-core/src/keys.rs'

SPEC = dict(kind='raw', label='keys_spec', text='''
/// Debug rendering of a value (std; uninterpreted)
pub uninterp spec fn debug_str<T: ?Sized>(x: &T) -> Seq<char>;

/// expanded / unexpanded format!("{:?}", x)
#[verifier::external_body]
pub fn debug_fmt<T: ?Sized>(x: &T) -> (r: String) ensures r@ == debug_str(x) { unimplemented!() }

pub trait DefaultCacheableKey { }
pub trait CacheableKey {
    /// C02: the default key of a value is exactly its Debug rendering
    fn to_cache_key(&self) -> (r: String) ensures r@ == debug_str(self);
}

pub open spec fn bar() -> Seq<char> { seq!['|'] }

/// std facts about Debug for a key type T (ASSUMED for the built-in key types, see the axioms below):
/// the rendering is injective ...
pub open spec fn debug_injective<T>() -> bool {
    forall|x: T, y: T| #[trigger] debug_str(&x) == #[trigger] debug_str(&y) ==> x == y
}
/// ... and self-delimiting with respect to the separator: no rendering followed by '|' is a prefix of a different
/// rendering followed by '|' (digits / true / false / floats contain no '|'; strings and chars are quoted with quotes
/// and backslashes escaped; containers are built from such tokens with brackets and ", ")
pub open spec fn debug_bar_safe<T>() -> bool {
    forall|x: T, y: T, r1: Seq<char>, r2: Seq<char>|
        #[trigger] (debug_str(&x) + bar() + r1) == #[trigger] (debug_str(&y) + bar() + r2) ==> debug_str(&x) == debug_str(&y)
}
pub uninterp spec fn builtin_key_type<T>() -> bool;
pub broadcast axiom fn ax_builtin_debug<T>()
    requires builtin_key_type::<T>()
    ensures #[trigger] debug_injective::<T>(), #[trigger] debug_bar_safe::<T>();
pub axiom fn ax_builtin_types()
    ensures builtin_key_type::<u8>(), builtin_key_type::<u16>(), builtin_key_type::<u32>(), builtin_key_type::<u64>(), builtin_key_type::<u128>(), builtin_key_type::<usize>(),
        builtin_key_type::<i8>(), builtin_key_type::<i16>(), builtin_key_type::<i32>(), builtin_key_type::<i64>(), builtin_key_type::<i128>(), builtin_key_type::<isize>(),
        builtin_key_type::<bool>(), builtin_key_type::<char>(), builtin_key_type::<String>(), builtin_key_type::<&str>();
// (f32 / f64: injective except for distinct NaN payloads; tuples, Option, Vec, slices of built-in key types: by the same argument)

proof fn lemma_cancel(p: Seq<char>, a: Seq<char>, b: Seq<char>)
    requires p + a == p + b
    ensures a == b
{
    assert(a =~= (p + a).skip(p.len() as int));
    assert(b =~= (p + b).skip(p.len() as int));
}

/// C02, one argument: distinct values never share a key
pub proof fn lemma_key1_injective<A>(a1: A, a2: A)
    requires debug_injective::<A>(), debug_str(&a1) == debug_str(&a2)
    ensures a1 == a2
{ }

/// C02, two key parts joined with '|': distinct tuples never share a key, whatever the strings contain
pub proof fn lemma_key2_injective<A, B>(a1: A, b1: B, a2: A, b2: B)
    requires debug_injective::<A>(), debug_bar_safe::<A>(), debug_injective::<B>(),
        debug_str(&a1) + bar() + debug_str(&b1) == debug_str(&a2) + bar() + debug_str(&b2)
    ensures a1 == a2 && b1 == b2
{
    let (p1, q1, p2, q2) = (debug_str(&a1), debug_str(&b1), debug_str(&a2), debug_str(&b2));
    assert(p1 == p2);
    assert(p1 + bar() + q1 =~= (p1 + bar()) + q1);
    assert(p2 + bar() + q2 =~= (p1 + bar()) + q2);
    lemma_cancel(p1 + bar(), q1, q2);
}

/// C02, three key parts (e.g. receiver + two arguments)
pub proof fn lemma_key3_injective<A, B, C>(a1: A, b1: B, c1: C, a2: A, b2: B, c2: C)
    requires debug_injective::<A>(), debug_bar_safe::<A>(), debug_injective::<B>(), debug_bar_safe::<B>(), debug_injective::<C>(),
        debug_str(&a1) + bar() + (debug_str(&b1) + bar() + debug_str(&c1)) == debug_str(&a2) + bar() + (debug_str(&b2) + bar() + debug_str(&c2))
    ensures a1 == a2 && b1 == b2 && c1 == c2
{
    let (p1, p2) = (debug_str(&a1), debug_str(&a2));
    let r1 = debug_str(&b1) + bar() + debug_str(&c1);
    let r2 = debug_str(&b2) + bar() + debug_str(&c2);
    assert(p1 == p2);
    assert(p1 + bar() + r1 =~= (p1 + bar()) + r1);
    assert(p2 + bar() + r2 =~= (p1 + bar()) + r2);
    lemma_cancel(p1 + bar(), r1, r2);
    lemma_key2_injective(b1, c1, b2, c2);
}

/// '|'-joined concatenation of any number of renderings (the shape the key builders produce: Vec<String>::join("|"))
pub open spec fn join_r(p: Seq<Seq<char>>) -> Seq<char>
    decreases p.len()
{
    if p.len() == 0 { Seq::empty() } else if p.len() == 1 { p[0] } else { p[0] + bar() + join_r(p.skip(1)) }
}
/// two renderings are separable: followed by the separator, one is never a proper prefix of the other followed by it
pub open spec fn separable(x: Seq<char>, y: Seq<char>) -> bool {
    forall|r1: Seq<char>, r2: Seq<char>| #[trigger] (x + bar() + r1) == #[trigger] (y + bar() + r2) ==> x == y
}
/// renderings of two values of a '|'-safe key type are separable
pub proof fn lemma_bar_safe_separable<T>(x: T, y: T)
    requires debug_bar_safe::<T>()
    ensures separable(debug_str(&x), debug_str(&y))
{ }
/// C02 for ANY number of key parts (the property quantifies over 1-5 arguments plus a receiver): position-wise separable
/// renderings joined with '|' are equal only if every part is; with injective renderings the argument tuples are equal
pub proof fn lemma_join_injective(p: Seq<Seq<char>>, q: Seq<Seq<char>>)
    requires p.len() == q.len(), forall|i: int| 0 <= i < p.len() - 1 ==> separable(#[trigger] p[i], q[i]), join_r(p) == join_r(q)
    ensures p == q
    decreases p.len()
{
    if p.len() == 0 { assert(p =~= q); }
    else if p.len() == 1 { assert(p =~= q); }
    else {
        let (rp, rq) = (join_r(p.skip(1)), join_r(q.skip(1)));
        assert(separable(p[0], q[0]));
        assert(p[0] + bar() + rp == q[0] + bar() + rq);
        assert(p[0] == q[0]);
        assert(p[0] + bar() + rp =~= (p[0] + bar()) + rp);
        assert(q[0] + bar() + rq =~= (p[0] + bar()) + rq);
        lemma_cancel(p[0] + bar(), rp, rq);
        assert forall|i: int| 0 <= i < p.skip(1).len() - 1 implies separable(#[trigger] p.skip(1)[i], q.skip(1)[i]) by {
            assert(p.skip(1)[i] == p[i + 1] && q.skip(1)[i] == q[i + 1]);
            assert(separable(p[i + 1], q[i + 1]));
        }
        lemma_join_injective(p.skip(1), q.skip(1));
        assert(p =~= q) by {
            assert forall|i: int| 0 <= i < p.len() implies p[i] == q[i] by {
                if i > 0 { assert(p.skip(1)[i - 1] == p[i]); assert(q.skip(1)[i - 1] == q[i]); }
            }
        }
    }
}

/// the separator matters: without it two different integer pairs collide (1,23) / (12,3) -- the lemma above has no
/// counterpart for the empty separator, so a key builder that drops '|' cannot meet the wrapper contracts.
''')

FORMAT_RULE = R('R9.format_debug', r'format ! \( "\{:\?\}" , self \)', 'debug_fmt(self)', 'format!("{:?}", self) -> debug_fmt(self) (Debug rendering, assumed contract on std)')
BLANKET = r'^impl<T> CacheableKey for T where T: DefaultCacheableKey \+ \?Sized,?$'


def other_impls():
    """Every further `impl .. CacheableKey for ..` block of cachelito-core (there is none on the pinned tree: all built-in key types
    go through the blanket impl). Each one is put under the trait contract; because a different but still injective rendering
    would not be a defect, a failure there is arbitrated by the bounded search (arbitrate=True), never reported on its own."""
    items = []
    for path in sorted(glob.glob(os.path.join(REPO, 'cachelito-core', 'src', '*.rs'))):
        text = rustsrc.strip_comments(open(path).read())
        for m in re.finditer(r'(?m)^impl\b[^{;]*\{', text):
            header = re.sub(r'\s+', ' ', m.group(0)[:-1]).strip()
            if not re.search(r'\bCacheableKey for\b', header) or re.search(r'\bDefaultCacheableKey for\b', header) or re.search(BLANKET, header):
                continue
            items.append(dict(kind='fn', file=os.path.relpath(path, REPO), impl='^' + re.escape(header) + '$', name='to_cache_key',
                              label='CacheableKey::to_cache_key[%s]' % header, keep_private=True, props=['C02'], arbitrate=True, rules=[FORMAT_RULE]))
    return items


UNIT = dict(
    name='keys',
    lemma_props={'lemma_join_injective': ['C02'], 'lemma_bar_safe_separable': ['C02'], 'lemma_key1_injective': ['C02'], 'lemma_key2_injective': ['C02'], 'lemma_key3_injective': ['C02'], 'lemma_cancel': ['C02'], '*': ['C02']},
    items=[SPEC,
           dict(kind='fn', file=KEYS, impl=BLANKET, name='to_cache_key', label='CacheableKey::to_cache_key', keep_private=True, props=['C02'], rules=[FORMAT_RULE]),
           ] + other_impls(),
)
