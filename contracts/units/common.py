"""Items shared by several units: CacheEntry (cache_entry.rs), EvictionPolicy (eviction_policy.rs)."""
from extract.rules import R

ENTRY = 'cachelito-core/src/cache_entry.rs'
POLICY = 'cachelito-core/src/eviction_policy.rs'

ENTRY_ITEMS = [
    dict(kind='struct', file=ENTRY, name='CacheEntry'),
    dict(kind='fn', file=ENTRY, impl=r'^impl<R> CacheEntry<R>$', name='new', label='CacheEntry::new', ret='e',
         ensures=[
             ('stores_value', ['C01', 'C11'], 'e.value == value'),
             ('zero_hits', ['C08'], 'e.frequency == 0'),
             ('fresh', ['C06', 'C11'], 'taken_now(e.inserted_at)'),
         ]),
    dict(kind='fn', file=ENTRY, impl=r'^impl<R> CacheEntry<R>$', name='is_expired', label='CacheEntry::is_expired', ret='b',
         ensures=[
             # taken from the property statement (C06): expired iff a ttl is set and the age in whole seconds is >= ttl
             ('iff_age_ge_ttl', ['C06'], 'b == expired(*self, ttl)'),
         ]),
    dict(kind='fn', file=ENTRY, impl=r'^impl<R> CacheEntry<R>$', name='increment_frequency', label='CacheEntry::increment_frequency',
         ensures=[
             ('counts_one_hit', ['C08'], 'final(self).frequency == (if old(self).frequency == u64::MAX { u64::MAX } else { (old(self).frequency + 1) as u64 })'),
             ('frame', ['C01', 'C06'], 'final(self).value == old(self).value && final(self).inserted_at == old(self).inserted_at'),
         ]),
]

ENTRY_SPEC = dict(kind='raw', label='entry_spec', text='''
/// C06: an entry is expired iff a ttl is configured and its age in whole seconds is >= ttl.
pub open spec fn expired<R>(e: CacheEntry<R>, ttl: Option<u64>) -> bool {
    ttl is Some && age_secs(e.inserted_at) >= ttl->Some_0
}
''')

POLICY_ITEMS = [
    dict(kind='enum', file=POLICY, name='EvictionPolicy', derive='#[derive(Clone, Copy)]'),
    dict(kind='raw', label='policy_eq_spec', text='''
// The repo implements PartialEq for EvictionPolicy by hand; the spec side says it must be structural equality,
// and Verus checks the extracted `eq` below against it.
impl vstd::std_specs::cmp::PartialEqSpecImpl for EvictionPolicy {
    open spec fn obeys_eq_spec() -> bool { true }
    open spec fn eq_spec(&self, other: &Self) -> bool { *self == *other }
}
'''),
    dict(kind='fn', file=POLICY, impl=r'^impl PartialEq for EvictionPolicy$', name='eq', label='EvictionPolicy::eq', keep_private=True),
]
