"""Unit `scores`: the ARC / TLRU scoring helpers of utils.rs (generic over K), with f64 arithmetic as named ops (R6).
Proved: the result is a stored key whose CODE score is minimal under `<` (argmin), None only if no key is stored,
and -- what the sync engines rely on for C08 -- if some stored key has zero hits then the result has zero hits
(ARC) or zero hits / zero remaining lifetime (TLRU)."""
from extract.rules import R, R4
from contracts.units.common import ENTRY_ITEMS, ENTRY_SPEC

U = 'cachelito-core/src/utils.rs'

SIG_RULES = [
    R('R4.iter_param', r'keys_iter : I ,', r"keys_iter: Vec<(usize, &'a K)>,", 'iterator parameter -> the vector of (index, &key) pairs it yields (iterator = the sequence it yields)'),
    R('R4.iter_generic', r"< 'a , K , V , I >", r"<'a, K, V>", 'generic iterator type parameter dropped'),
    R('R4.iter_bound', r"I : Iterator < Item = \( usize , & 'a K \) > ,", r'', 'iterator bound dropped'),
]

SPEC = dict(kind='raw', label='score_spec', text='''
pub open spec fn pairs_indexed<K>(ks: Seq<(usize, &K)>) -> bool { forall|j: int| 0 <= j < ks.len() ==> (#[trigger] ks[j]).0 == j }
pub open spec fn stored_at<K, V>(m: Map<K, CacheEntry<V>>, ks: Seq<(usize, &K)>, i: int) -> bool { 0 <= i < ks.len() && m.contains_key(*ks[i].1) }

/// the score the sync ARC helper computes for the i-th pair: hits x (len - i)
pub open spec fn arc_code<K, V>(m: Map<K, CacheEntry<V>>, ks: Seq<(usize, &K)>, i: int) -> f64 {
    s_fmul(s_to_f64(m[*ks[i].1].frequency), s_to_f64((ks.len() - i) as u64))
}
pub open spec fn age_factor_code(age: f64, ttl: Option<u64>) -> f64 {
    if ttl is Some { s_fmax(s_fsub(s_one(), s_fmin(s_fdiv(age, s_to_f64(ttl->Some_0)), s_one())), s_zero()) } else { s_one() }
}
/// the score the sync TLRU helper computes: (hits [x weight]) x (len - i) x age_factor
pub open spec fn tlru_code<K, V>(m: Map<K, CacheEntry<V>>, ks: Seq<(usize, &K)>, i: int, ttl: Option<u64>, fw: Option<f64>) -> f64 {
    let f = s_to_f64(m[*ks[i].1].frequency);
    let fc = if fw is Some { s_fmul(f, fw->Some_0) } else { f };
    s_fmul(s_fmul(fc, s_to_f64((ks.len() - i) as u64)), age_factor_code(age_f64(m[*ks[i].1].inserted_at), ttl))
}
/// j is a stored pair whose code score is minimal under `<`
pub open spec fn arc_min_at<K, V>(m: Map<K, CacheEntry<V>>, ks: Seq<(usize, &K)>, j: int) -> bool {
    stored_at(m, ks, j) && ks.len() <= usize::MAX && forall|i: int| #[trigger] stored_at(m, ks, i) ==> !s_flt(arc_code(m, ks, i), arc_code(m, ks, j))
}
pub open spec fn tlru_min_at<K, V>(m: Map<K, CacheEntry<V>>, ks: Seq<(usize, &K)>, j: int, ttl: Option<u64>, fw: Option<f64>) -> bool {
    stored_at(m, ks, j) && ks.len() <= usize::MAX && forall|i: int| #[trigger] stored_at(m, ks, i) ==> !s_flt(tlru_code(m, ks, i, ttl, fw), tlru_code(m, ks, j, ttl, fw))
}

/// C08 for the sync engines: when some stored pair has zero hits (the entry just stored), a minimal pair has zero hits too.
pub broadcast proof fn b_arc_min_zero<K, V>(m: Map<K, CacheEntry<V>>, ks: Seq<(usize, &K)>, j: int, i: int)
    requires #[trigger] arc_min_at(m, ks, j), stored_at(m, ks, i), m[*(#[trigger] ks[i]).1].frequency == 0
    ensures m[*ks[j].1].frequency == 0
{
    broadcast use fl::group_float;
    let ci = arc_code(m, ks, i);
    let cj = arc_code(m, ks, j);
    assert(is_zero(ci));
    assert(nonneg(cj));
    if !is_zero(cj) { assert(s_flt(ci, cj)); }
    assert(!is_zero(s_to_f64((ks.len() - j) as u64)));
}

/// TLRU: ... a minimal pair has zero hits or no remaining lifetime.
pub broadcast proof fn b_tlru_min_zero<K, V>(m: Map<K, CacheEntry<V>>, ks: Seq<(usize, &K)>, j: int, i: int, ttl: Option<u64>, fw: Option<f64>)
    requires #[trigger] tlru_min_at(m, ks, j, ttl, fw), stored_at(m, ks, i), m[*(#[trigger] ks[i]).1].frequency == 0, tlru_cfg_ok(ttl, fw)
    ensures m[*ks[j].1].frequency == 0 || is_zero(age_factor_code(age_f64(m[*ks[j].1].inserted_at), ttl))
{
    broadcast use fl::group_float;
    let ci = tlru_code(m, ks, i, ttl, fw);
    let cj = tlru_code(m, ks, j, ttl, fw);
    lemma_age_factor_nonneg(age_f64(m[*ks[i].1].inserted_at), ttl);
    lemma_age_factor_nonneg(age_f64(m[*ks[j].1].inserted_at), ttl);
    assert(is_zero(ci));
    assert(nonneg(cj));
    if !is_zero(cj) { assert(s_flt(ci, cj)); }
    assert(!is_zero(s_to_f64((ks.len() - j) as u64)));
}

pub proof fn lemma_age_factor_nonneg(age: f64, ttl: Option<u64>)
    requires nonneg(age), ttl is Some ==> ttl->Some_0 >= 1
    ensures nonneg(age_factor_code(age, ttl))
{ broadcast use fl::group_float; }

/// configuration assumptions of the TLRU score: a finite positive weight, ttl >= 1
pub open spec fn tlru_cfg_ok(ttl: Option<u64>, fw: Option<f64>) -> bool {
    (fw is Some ==> nonneg(fw->Some_0) && !is_zero(fw->Some_0)) && (ttl is Some ==> ttl->Some_0 >= 1)
}
''')

HINT = (('fn_start',), 'snapshot', 'let ghost ks = keys_iter@;')


def arc_min(j, ks='ks'):
    return 'arc_min_at(map@, %s, %s)' % (ks, j)


def tlru_min(j, ks='ks'):
    return 'tlru_min_at(map@, %s, %s, ttl, frequency_weight)' % (ks, j)


def loop_inv(code, extra='true'):
    return dict(iter='it', invariant=[
        ('cfg', extra),
        ('snap', 'it.snapshot@.remaining() == ks && total_len == ks.len() && pairs_indexed(ks) && vstd::std_specs::hash::obeys_key_model::<K>()'),
        ('none_yet', 'best_evict_key is None ==> best_score == s_max() && forall|i: int| 0 <= i < it.index@ ==> !map@.contains_key(*(#[trigger] ks[i]).1)'),
        ('best_so_far', 'best_evict_key is Some ==> exists|j: int| 0 <= j < it.index@ && stored_at(map@, ks, j) && cloned(*(#[trigger] ks[j]).1, best_evict_key->Some_0) '
                        '&& best_score == %s' % code('j')),
        ('lower_bound', 'forall|i: int| 0 <= i < it.index@ && stored_at(map@, ks, i) ==> !s_flt(#[trigger] %s, best_score)' % code('i')),
    ])


def ens(min_at):
    return [
        ('argmin_code_score', ['C08'], 'res is Some ==> exists|j: int| #[trigger] stored_at(map@, keys_iter@, j) && %s && cloned(*keys_iter@[j].1, res->Some_0)' % min_at('j', 'keys_iter@')),
        ('none_only_if_nothing_stored', ['C04', 'C08'], 'res is None ==> forall|i: int| 0 <= i < keys_iter@.len() ==> !map@.contains_key(*(#[trigger] keys_iter@[i]).1)'),
    ]


def arc(i, ks='ks'):
    return 'arc_code(map@, %s, %s)' % (ks, i)


def tlru(i, ks='ks'):
    return 'tlru_code(map@, %s, %s, ttl, frequency_weight)' % (ks, i)


PRE = [('key_model', 'vstd::std_specs::hash::obeys_key_model::<K>()'), ('enumerated', 'pairs_indexed(keys_iter@)')]

ARC_ITEM = dict(kind='fn', file=U, name='find_arc_eviction_key', ret='res', sig_rules=SIG_RULES, rules=R4, r6=True,
                requires=PRE, ensures=ens(arc_min), loops={0: loop_inv(arc)}, hints=[HINT])

TLRU_ITEM = dict(kind='fn', file=U, name='find_tlru_eviction_key', ret='res', sig_rules=SIG_RULES, rules=R4, r6=True, f64_vars=['weight'],
                 requires=PRE + [('cfg', 'tlru_cfg_ok(ttl, frequency_weight)')], ensures=ens(tlru_min),
                 loops={0: loop_inv(tlru, 'tlru_cfg_ok(ttl, frequency_weight)')}, hints=[HINT])

UNIT = dict(
    name='scores',
    float_broadcast=True,
    prelude=['prelude.rs', 'prelude_float.rs'],
    items=ENTRY_ITEMS + [ENTRY_SPEC, SPEC, ARC_ITEM, TLRU_ITEM],
)
