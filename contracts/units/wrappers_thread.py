"""Unit wrappers_thread: what #[cache] / #[cache_async] emit for the thread-scope fixtures, against contracts generated from the attributes."""
from contracts.units import wrap_common

UNIT = dict(name='wrappers_thread', prelude=['prelude.rs', 'prelude_float.rs'], items=wrap_common.build('thread'))
