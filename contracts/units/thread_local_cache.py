"""Unit `thread_local_cache`: ThreadLocalCache<R> under R1 (RefCell/LocalKey erased), R2, R3 (LocalKey::with inlined)."""
from extract.rules import R, R4, R5, R1_TYPES
from contracts.units.engine_common import (COMMON, SYNC_SPEC, wf_pre, store_pre, get_ensures, incr_ensures, evict_requires, evict_ensures, insert_ensures, CFG_FRAME, insertm_requires, insertm_ensures, memloop_spec, insert_result_ensures, MEM_HINTS, mem_hints)
from contracts.units.global_cache import UTILS_FNS, SCORE_STUBS

T = 'cachelito-core/src/thread_local_cache.rs'
IMPL = r"^impl<R: Clone \+ 'static> ThreadLocalCache<R>$"
M = 'cache'
IMPL_MEM = r"^impl<R: Clone \+ 'static \+ crate::MemoryEstimator> ThreadLocalCache<R>$"
IMPL_RULES = [R('R0.crate_path', r'\bcrate :: MemoryEstimator\b', 'MemoryEstimator', 'crate:: path prefix')]


def fn(name, **kw):
    d = dict(kind='fn', file=T, impl=IMPL, name=name, label='ThreadLocalCache::' + name, engine='ThreadLocalCache', r3=True)
    d.update(kw)
    return d


UNIT = dict(
    name='thread_local_cache',
    prelude=['prelude.rs', 'prelude_float.rs'],
    items=COMMON + UTILS_FNS + SCORE_STUBS + [SYNC_SPEC,
        dict(kind='struct', file=T, name='ThreadLocalCache', rules=R1_TYPES),
        fn('new', ret='c', rules=R1_TYPES, ensures=[('stores_arguments', ['C01', 'C04', 'C05', 'C06', 'C07', 'C08'], 'c.limit == limit && c.max_memory == max_memory && c.policy == policy && c.ttl == ttl && c.frequency_weight == frequency_weight && c.cache@ == cache@ && c.order@ == order@')]),
        fn('get', ret='res', requires=wf_pre(M), ensures=get_ensures(M)),
        fn('move_to_end',
           ensures=[CFG_FRAME,
                    ('frame', ['C01', 'C08'], 'final(self).cache@ == old(self).cache@ && final(self).stats == old(self).stats'),
                    ('moves_to_back', ['C07', 'C08'], 'old(self).order@.contains(s2s(key)) ==> final(self).order@ == touch(old(self).order@, s2s(key))'),
                    ('absent_untouched', ['C07', 'C04'], '!old(self).order@.contains(s2s(key)) ==> final(self).order@ == old(self).order@')]),
        fn('increment_frequency', ensures=incr_ensures(M)),
        fn('remove_key',
           ensures=[CFG_FRAME,
                    ('store_removed', ['C06', 'C04'], 'final(self).cache@ == old(self).cache@.remove(s2s(key))'),
                    ('queue_removed', ['C06', 'C04'], 'final(self).order@ == rm1(old(self).order@, s2s(key))'),
                    ('stats_frame', ['C15'], 'final(self).stats == old(self).stats')]),
        fn('remove_key_with_order', split_self=True,
           ensures=[('store_removed', ['C04', 'C08'], 'final(cache)@ == old(cache)@.remove(s2s(key))'),
                    ('queue_removed', ['C04', 'C08'], 'final(order)@ == rm1(old(order)@, s2s(key))')]),
        fn('handle_entry_limit_eviction', split_self=True,
           hints=[(('fn_start',), 'float_axioms', 'broadcast use fl::group_float; broadcast use b_arc_min_zero; broadcast use b_tlru_min_zero; broadcast use ax_cloned_string;')], rules=R4 + R5,
           requires=evict_requires('cache', 'order'), ensures=evict_ensures('cache', 'order'),
           loops={0: dict(
               invariant_except_break=[('nothing_popped', 'cache@ == old(cache)@ && order@ == old(order)@')],
               invariant=[('wf0', 'wf(old(cache)@, old(order)@) && old(order)@.len() > 0')],
               ensures=[('front_evicted', 'evicted(old(cache)@, old(order)@, cache@, order@, old(order)@[0])')],
               decreases='order@.len()')}),
        fn('insert', rules=R4, requires=store_pre(M), ensures=insert_ensures(M)),
        fn('insert_with_memory', impl=IMPL_MEM, impl_rules=IMPL_RULES, rules=R4 + R5,
           requires=insertm_requires(M), ensures=insertm_ensures(M),
           loops={0: memloop_spec(M, 'order', K='key')}, hints=mem_hints(M, 'order')),
        fn('insert_result', impl=r"^impl<T: Clone \+ Debug \+ 'static, E: Clone \+ Debug \+ 'static> ThreadLocalCache<Result<T, E>>$", requires=store_pre(M), ensures=insert_result_ensures(M)),
        fn('insert_result_with_memory', impl=r"MemoryEstimator,? > ThreadLocalCache<Result<T, E>>$", impl_rules=IMPL_RULES,
           requires=store_pre(M) + [('counters_unsaturated', 'freq_ok(old(self).%s@)' % M)],
           ensures=[e for e in insert_result_ensures(M) if e[0] in ('cfg_frame', 'err_changes_nothing', 'post_wf', 'survivors_unchanged', 'stats_frame')]
                   + [('ok_stored', ['C09', 'C01'], '(value is Ok && final(self).%s@.contains_key(s2s(key))) ==> final(self).%s@[s2s(key)].value is Ok && cloned(value->Ok_0, final(self).%s@[s2s(key)].value->Ok_0)' % (M, M, M))]),
    ],
)
