"""Unit `utils`: CacheEntry + the shared eviction helpers of cachelito-core/src/utils.rs (integer part).
The engines only see these contracts, so they are as strong as Verus will bear: full view of the result,
frame on everything else."""
from extract.rules import R, R4, R1_TYPES
from contracts.units.common import ENTRY_ITEMS, ENTRY_SPEC

U = 'cachelito-core/src/utils.rs'

SPEC = dict(kind='raw', label='utils_spec', text='''
/// frequency of the entry stored under k
pub open spec fn hits_of<R>(m: Map<String, CacheEntry<R>>, k: String) -> u64 { m[k].frequency }

/// k is a stored key of the queue with the fewest hits among the stored keys of the queue
pub open spec fn is_min_hits<R>(m: Map<String, CacheEntry<R>>, q: Seq<String>, k: String) -> bool {
    m.contains_key(k) && q.contains(k)
    && forall|j: int| 0 <= j < q.len() && m.contains_key(#[trigger] q[j]) ==> m[k].frequency <= m[q[j]].frequency
}
''')

UNIT = dict(
    name='utils',
    items=ENTRY_ITEMS + [ENTRY_SPEC, SPEC,
        dict(kind='fn', file=U, name='move_key_to_end', rules=R4,
             ensures=[
                 ('moves_to_back', ['C07', 'C08'], 'old(order)@.contains(s2s(key)) ==> final(order)@ == touch(old(order)@, s2s(key))'),
                 ('absent_untouched', ['C07', 'C04'], '!old(order)@.contains(s2s(key)) ==> final(order)@ == old(order)@'),
             ]),
        dict(kind='fn', file=U, name='find_min_frequency_key', ret='res',
             ensures=[
                 ('argmin_hits', ['C08'], 'res is Some ==> is_min_hits(map@, order@, res->Some_0)'),
                 ('none_only_if_saturated', ['C04', 'C08'],
                  'res is None ==> forall|j: int| 0 <= j < order@.len() && map@.contains_key(#[trigger] order@[j]) ==> map@[order@[j]].frequency == u64::MAX'),
                 # ground instance of the clause above for the queue front, stated so that the term is available to callers
                 ('none_front_saturated', ['C04'], 'res is None && order@.len() > 0 && map@.contains_key(order@[0]) ==> map@[order@[0]].frequency == u64::MAX'),
             ],
             loops={0: dict(iter='it', invariant=[
                 ('some_is_seen', 'min_freq_key is Some ==> map@.contains_key(min_freq_key->Some_0) && order@.contains(min_freq_key->Some_0) && map@[min_freq_key->Some_0].frequency == min_freq'),
                 ('lower_bound', 'forall|j: int| 0 <= j < it.index@ && map@.contains_key(#[trigger] order@[j]) ==> min_freq <= map@[order@[j]].frequency'),
                 ('none_max', 'min_freq_key is None ==> min_freq == u64::MAX'),
             ])}),
        dict(kind='fn', file=U, name='remove_from_maps', rules=R4, ret='r',
             ensures=[
                 ('store_removed', ['C04', 'C06', 'C13'], 'final(map)@ == old(map)@.remove(s2s(key))'),
                 ('queue_removed', ['C04', 'C06', 'C13'], 'final(order)@ == rm1(old(order)@, s2s(key))'),
                 ('flags', ['C04'], 'r.0 == old(map)@.contains_key(s2s(key)) && r.1 == old(order)@.contains(s2s(key))'),
             ]),
        dict(kind='fn', file=U, name='remove_key_from_global_cache', rules=R1_TYPES, ret='r',
             ensures=[
                 ('store_removed', ['C04', 'C06'], 'final(map)@ == old(map)@.remove(s2s(key))'),
                 ('queue_removed', ['C04', 'C06'], 'final(order)@ == rm1(old(order)@, s2s(key))'),
                 ('flag', ['C04'], 'r == (old(map)@.contains_key(s2s(key)) || old(order)@.contains(s2s(key)))'),
             ]),
        dict(kind='fn', file=U, name='remove_key_from_cache_local', ret='r',
             ensures=[
                 ('store_removed', ['C04', 'C06'], 'final(map)@ == old(map)@.remove(s2s(key))'),
                 ('queue_removed', ['C04', 'C06'], 'final(order)@ == rm1(old(order)@, s2s(key))'),
                 ('flag', ['C04'], 'r == (old(map)@.contains_key(s2s(key)) || old(order)@.contains(s2s(key)))'),
             ]),
    ],
)
