"""Unit `registry` (C12, C13): InvalidationRegistry (cachelito-core/src/invalidation.rs) under R1 (RwLock erased) and
R8 (dyn callbacks -> identified callbacks with an explicit effect log)."""
from extract.rules import R, R4

I = 'cachelito-core/src/invalidation.rs'
IMPL = r'^impl InvalidationRegistry$'

TYPE_RULES = [
    R('R1.type.rwlock_field', r'RwLock < (HashMap < String , (?:HashSet < String >|InvalidationMetadata|ClearCb|CheckCb) >) >', r'\1', 'RwLock<T> field -> T'),
]
CB_TYPES = [
    R('R8.clear_cb_type', r'Arc < dyn Fn \( \) \+ Send \+ Sync >', 'ClearCb', 'Arc<dyn Fn()> -> identified clear callback'),
    R('R8.check_cb_type', r'Arc < dyn Fn \( & dyn Fn \( & str \) -> bool \) \+ Send \+ Sync >', 'CheckCb', 'Arc<dyn Fn(&dyn Fn(&str)->bool)> -> identified check callback'),
]

SPEC = dict(kind='raw', label='registry_spec', text='''
// ---------------------------------------------------------------- R8: callbacks as identified values + effect log
pub struct ClearCb { pub id: u64 }
pub struct CheckCb { pub id: u64 }
/// a key predicate by identity (R8): `pid` names the user predicate; for invalidate_all_with the closure the registry
/// builds around the user predicate is "the predicate of that cache name" (pid, Some(name))
pub struct Fx {
    /// ids of the clear callbacks invoked so far
    pub cleared: Ghost<Set<u64>>,
    pub n_cleared: Ghost<nat>,
    /// (callback id, predicate id, cache name the predicate was specialised to) of the check callbacks invoked so far
    pub checked: Ghost<Set<(u64, u64, Option<String>)>>,
    pub n_checked: Ghost<nat>,
}
impl ClearCb {
    #[verifier::external_body]
    pub fn invoke(&self, fx: &mut Fx)
        ensures final(fx).cleared@ == old(fx).cleared@.insert(self.id), final(fx).n_cleared@ == old(fx).n_cleared@ + 1,
            final(fx).checked == old(fx).checked, final(fx).n_checked == old(fx).n_checked
    { }
}
impl CheckCb {
    #[verifier::external_body]
    pub fn invoke_with(&self, fx: &mut Fx, pid: u64, specialised_to: Option<String>)
        ensures final(fx).checked@ == old(fx).checked@.insert((self.id, pid, specialised_to)), final(fx).n_checked@ == old(fx).n_checked@ + 1,
            final(fx).cleared == old(fx).cleared, final(fx).n_cleared == old(fx).n_cleared
    { }
}

/// cache names registered under key k of a tag / event / dependency table
pub open spec fn under(t: Map<String, HashSet<String>>, k: String) -> Set<String> {
    if t.contains_key(k) { t[k]@ } else { Set::empty() }
}

/// R4: `m.entry(k).or_insert_with(HashSet::new).insert(v)` (assumed contract of the std entry API)
#[verifier::external_body]
pub fn multimap_add(m: &mut HashMap<String, HashSet<String>>, k: String, v: String)
    ensures forall|x: String| #[trigger] under(final(m)@, x) == (if x == k { under(old(m)@, k).insert(v) } else { under(old(m)@, x) })
{ unimplemented!() }

/// R4: `table.get(key).cloned().unwrap_or_default()`
#[verifier::external_body]
pub fn set_or_empty(m: &HashMap<String, HashSet<String>>, key: &str) -> (r: HashSet<String>)
    ensures r@ == under(m@, s2s(key))
{ unimplemented!() }

/// R4: `for name in set` -> the elements the iterator yields: each element exactly once (iterator = the sequence it yields)
#[verifier::external_body]
pub fn set_elems<'a>(s: &'a HashSet<String>) -> (r: Vec<&'a String>)
    ensures r@.len() == s@.len(), forall|i: int, j: int| 0 <= i < j < r@.len() ==> *r@[i] != *r@[j],
        forall|k: String| s@.contains(k) <==> exists|j: int| 0 <= j < r@.len() && *(#[trigger] r@[j]) == k,
{ unimplemented!() }

/// R4: `callbacks.iter()` -> the (name, callback) pairs the iterator yields, each entry exactly once
#[verifier::external_body]
pub fn map_pairs<'a>(m: &'a HashMap<String, CheckCb>) -> (r: Vec<(&'a String, &'a CheckCb)>)
    ensures r@.len() == m@.len(), forall|i: int, j: int| 0 <= i < j < r@.len() ==> *r@[i].0 != *r@[j].0,
        forall|j: int| 0 <= j < r@.len() ==> m@.contains_key(*(#[trigger] r@[j]).0) && m@[*r@[j].0] == *r@[j].1,
        forall|k: String| m@.contains_key(k) ==> exists|j: int| 0 <= j < r@.len() && *(#[trigger] r@[j]).0 == k,
{ unimplemented!() }

/// the registered names among `names`
pub open spec fn matching(names: Set<String>, cbs: Map<String, ClearCb>) -> Set<String> { names.filter(|n: String| cbs.contains_key(n)) }
pub open spec fn ids_of(names: Set<String>, cbs: Map<String, ClearCb>) -> Set<u64> {
    Set::new(|id: u64| exists|n: String| names.contains(n) && cbs.contains_key(n) && #[trigger] cbs[n].id == id)
}

/// how many of the first i yielded names are registered
pub open spec fn hits(es: Seq<&String>, cbs: Map<String, ClearCb>, i: int) -> nat
    decreases i
{
    if i <= 0 { 0 } else { hits(es, cbs, i - 1) + (if cbs.contains_key(*es[i - 1]) { 1nat } else { 0nat }) }
}

/// a duplicate-free enumeration of a finite set hits exactly |names /\\ dom(cbs)| registered names
pub proof fn lemma_hits_card(es: Seq<&String>, names: Set<String>, cbs: Map<String, ClearCb>)
    requires names.finite(), es.len() == names.len(),
        forall|i: int, j: int| 0 <= i < j < es.len() ==> *es[i] != *es[j],
        forall|k: String| names.contains(k) <==> exists|j: int| 0 <= j < es.len() && *(#[trigger] es[j]) == k,
    ensures hits(es, cbs, es.len() as int) == matching(names, cbs).len()
{
    lemma_hits_prefix(es, cbs, es.len() as int);
    let pre = prefix_set(es, es.len() as int);
    assert(pre =~= names) by {
        assert forall|k: String| pre.contains(k) <==> names.contains(k) by { }
    }
}
pub open spec fn prefix_set(es: Seq<&String>, i: int) -> Set<String> {
    Set::new(|k: String| exists|j: int| 0 <= j < i && j < es.len() && *(#[trigger] es[j]) == k)
}
pub proof fn lemma_hits_prefix(es: Seq<&String>, cbs: Map<String, ClearCb>, i: int)
    requires 0 <= i <= es.len(), forall|a: int, b: int| 0 <= a < b < es.len() ==> *es[a] != *es[b],
    ensures prefix_set(es, i).finite(), hits(es, cbs, i) == matching(prefix_set(es, i), cbs).len(),
    decreases i
{
    if i == 0 {
        assert(prefix_set(es, 0) =~= Set::<String>::empty());
        assert(matching(prefix_set(es, 0), cbs) =~= Set::<String>::empty());
    } else {
        lemma_hits_prefix(es, cbs, i - 1);
        let k = *es[i - 1];
        let p0 = prefix_set(es, i - 1);
        let p1 = prefix_set(es, i);
        assert(p1 =~= p0.insert(k)) by {
            assert forall|x: String| p1.contains(x) <==> p0.insert(k).contains(x) by {
                if p1.contains(x) {
                    let j = choose|j: int| 0 <= j < i && j < es.len() && *(#[trigger] es[j]) == x;
                    if j < i - 1 { assert(p0.contains(x)); }
                }
                if p0.contains(x) {
                    let j = choose|j: int| 0 <= j < i - 1 && j < es.len() && *(#[trigger] es[j]) == x;
                    assert(*es[j] == x);
                }
                if x == k { assert(*es[i - 1] == x); }
            }
        }
        assert(!p0.contains(k)) by {
            if p0.contains(k) {
                let j = choose|j: int| 0 <= j < i - 1 && j < es.len() && *(#[trigger] es[j]) == k;
                assert(*es[j] != *es[i - 1]);
            }
        }
        if cbs.contains_key(k) {
            assert(matching(p1, cbs) =~= matching(p0, cbs).insert(k));
        } else {
            assert(matching(p1, cbs) =~= matching(p0, cbs));
        }
    }
}
''')


def fn(name, **kw):
    d = dict(kind='fn', file=I, impl=IMPL, name=name, label='InvalidationRegistry::' + name, engine='InvalidationRegistry')
    d['rules'] = kw.pop('rules', []) + CB_TYPES
    d.update(kw)
    return d


T0 = lambda f: 'old(self).%s@' % f
T1 = lambda f: 'final(self).%s@' % f
OTHERS = lambda keep: ' && '.join('final(self).%s@ == old(self).%s@' % (f, f) for f in
                                  ['tag_to_caches', 'event_to_caches', 'dependency_to_caches', 'cache_metadata', 'clear_callbacks', 'invalidation_check_callbacks'] if f not in keep)

REG_LOOP = lambda field, coll: dict(iter='it', invariant=[
    ('snap', 'it.snapshot@.remaining().len() == metadata.%s@.len() && forall|j: int| 0 <= j < metadata.%s@.len() ==> *(#[trigger] it.snapshot@.remaining()[j]) == metadata.%s@[j]' % (coll, coll, coll)),
    ('table', 'forall|x: String| #[trigger] under(%s@, x) == (if metadata.%s@.take(it.index@ as int).contains(x) { under(old(self).%s@, x).insert(s2s(cache_name)) } else { under(old(self).%s@, x) })' % (field[0], coll, field[1], field[1])),
])

BY_KEY = lambda table: [
    ('tables_unchanged', ['C12', 'C13'], OTHERS([])),
    ('invokes_exactly_the_registered_matching_caches', ['C12', 'C13'],
     'final(fx).cleared@ == old(fx).cleared@.union(ids_of(under(old(self).%s@, s2s(KEY)), old(self).clear_callbacks@))' % table),
    ('count_is_number_of_caches_cleared', ['C12'],
     'count == matching(under(old(self).%s@, s2s(KEY)), old(self).clear_callbacks@).len() && final(fx).n_cleared@ == old(fx).n_cleared@ + count' % table),
    ('no_check_callback_invoked', ['C13'], 'final(fx).checked == old(fx).checked && final(fx).n_checked == old(fx).n_checked'),
]


def by_key(fname, table, keyparam):
    return fn(fname, ret='count', rules=[R('R4.set_or_empty', r'self \. %s \. read \( \) \. get \( %s \) \. cloned \( \) \. unwrap_or_default \( \)' % (table, keyparam),
                                             'set_or_empty(&self.%s, %s)' % (table, keyparam), 'get(key).cloned().unwrap_or_default() -> the registered set or the empty set (R1: read lock erased)'),
                                           R('R8.fx_call', r'self \. invalidate_caches \( & cache_names \)', 'self.invalidate_caches(&cache_names, fx)', 'effect log threaded through (R8)')],
              sig_rules=[R('R8.fx_param', r'\) -> usize', ', fx: &mut Fx) -> usize', 'effect-log parameter (R8)')],
              ensures=[(l, p, t.replace('KEY', keyparam)) for (l, p, t) in BY_KEY(table)])


UNIT = dict(
    name='registry',
    lemma_props={'lemma_hits_card': ['C12'], 'lemma_hits_prefix': ['C12'], '*': ['C12', 'C13']},
    items=[SPEC,
        dict(kind='struct', file=I, name='InvalidationMetadata'),
        dict(kind='struct', file=I, name='InvalidationRegistry', rules=CB_TYPES + TYPE_RULES),
        fn('register', rules=[R('R4.multimap_add', r'(@ID@) \. entry \( (@ID@) \. clone \( \) \) \. or_insert_with \( HashSet :: new \) \. insert \( cache_name \. to_string \( \) \)',
                                r'multimap_add(&mut *\1, \2.clone(), cache_name.to_string())', 'entry().or_insert_with(HashSet::new).insert() -> multimap_add (assumed contract of the entry API)')],
           ensures=[
               ('tags_table', ['C12', 'C13'], 'forall|x: String| #[trigger] under(final(self).tag_to_caches@, x) == (if metadata.tags@.contains(x) { under(old(self).tag_to_caches@, x).insert(s2s(cache_name)) } else { under(old(self).tag_to_caches@, x) })'),
               ('events_table', ['C12', 'C13'], 'forall|x: String| #[trigger] under(final(self).event_to_caches@, x) == (if metadata.events@.contains(x) { under(old(self).event_to_caches@, x).insert(s2s(cache_name)) } else { under(old(self).event_to_caches@, x) })'),
               ('dependencies_table', ['C12', 'C13'], 'forall|x: String| #[trigger] under(final(self).dependency_to_caches@, x) == (if metadata.dependencies@.contains(x) { under(old(self).dependency_to_caches@, x).insert(s2s(cache_name)) } else { under(old(self).dependency_to_caches@, x) })'),
               ('callbacks_untouched', ['C12', 'C13'], 'final(self).clear_callbacks@ == old(self).clear_callbacks@ && final(self).invalidation_check_callbacks@ == old(self).invalidation_check_callbacks@'),
           ],
           loops={0: REG_LOOP(('tag_map', 'tag_to_caches'), 'tags'), 1: REG_LOOP(('event_map', 'event_to_caches'), 'events'), 2: REG_LOOP(('dep_map', 'dependency_to_caches'), 'dependencies')},
           hints=[(('loop_start', n), 'elem%d' % n, 'broadcast use b_take_contains_g; assert(*%s == metadata.%s@[it.index@ as int]);' % (v, c)) for n, (v, c) in enumerate([('tag', 'tags'), ('event', 'events'), ('dep', 'dependencies')])]
                 + [(('fn_end',), 'take_full', 'assert(metadata.tags@.take(metadata.tags@.len() as int) =~= metadata.tags@); assert(metadata.events@.take(metadata.events@.len() as int) =~= metadata.events@); assert(metadata.dependencies@.take(metadata.dependencies@.len() as int) =~= metadata.dependencies@);')]),
        fn('register_callback', sig_rules=[R('R8.cb_param', r'< F > \( & self , cache_name : & str , callback : F \) where F : Fn \( \) \+ Send \+ Sync \+ \'static ,', '(&self, cache_name: &str, callback: ClearCb)', 'generic closure parameter -> identified callback')],
           rules=[R('R8.arc_new', r'Arc :: new \( callback \)', 'callback', 'Arc::new(closure) -> the identified callback')],
           ensures=[('registers_under_name', ['C12'], 'final(self).clear_callbacks@ == old(self).clear_callbacks@.insert(s2s(cache_name), callback)'),
                    ('others_untouched', ['C12', 'C13'], OTHERS(['clear_callbacks']))]),
        fn('invalidate_caches', ret='count', rules=[R('R4.set_elems', r'for name in cache_names \{', 'for name in set_elems(cache_names) {', 'for x in &HashSet -> the elements the iterator yields (each once)'),
                                                      R('R8.invoke', r'callback \( \) ;', 'callback.invoke(fx);', 'dyn callback call -> identified invoke with effect log')],
           sig_rules=[R('R8.fx_param', r'\) -> usize', ', fx: &mut Fx) -> usize', 'effect-log parameter (R8)')],
           ensures=[
               ('tables_unchanged', ['C12', 'C13'], OTHERS([])),
               ('invokes_exactly_the_registered_matching_caches', ['C12', 'C13'], 'final(fx).cleared@ == old(fx).cleared@.union(ids_of(cache_names@, old(self).clear_callbacks@))'),
               ('count_is_number_of_caches_cleared', ['C12'], 'count == matching(cache_names@, old(self).clear_callbacks@).len() && final(fx).n_cleared@ == old(fx).n_cleared@ + count'),
               ('no_check_callback_invoked', ['C13'], 'final(fx).checked == old(fx).checked && final(fx).n_checked == old(fx).n_checked'),
           ],
           loops={0: dict(iter='it', invariant=[
               ('frame', OTHERS([]).replace('final(self)', 'self') + ' && callbacks@ == old(self).clear_callbacks@ && fx.checked == old(fx).checked && fx.n_checked == old(fx).n_checked'),
               ('snap', 'it.snapshot@.remaining() == es && es.len() == cache_names@.len() && (forall|i: int, j: int| 0 <= i < j < es.len() ==> *es[i] != *es[j]) '
                        '&& (forall|k: String| cache_names@.contains(k) <==> exists|j: int| 0 <= j < es.len() && *(#[trigger] es[j]) == k)'),
               ('count', 'count == hits(es, callbacks@, it.index@ as int) && count <= it.index@ && fx.n_cleared@ == old(fx).n_cleared@ + count'),
               ('cleared', 'fx.cleared@ == old(fx).cleared@.union(ids_of(prefix_set(es, it.index@ as int), callbacks@))'),
           ])},
           hints=[(('before_loop', 0), 'enumeration', 'let ghost es: Seq<&String>;'), ]),
    ],
)
