"""Unit `registry` (C12, C13): InvalidationRegistry (cachelito-core/src/invalidation.rs) under R1 (RwLock erased) and
R8 (dyn callbacks -> identified callbacks with an explicit effect log)."""
from extract.rules import R, R4

I = 'cachelito-core/src/invalidation.rs'
IMPL = r'^impl InvalidationRegistry$'

TYPE_RULES = [
    R('R1.type.rwlock_field', r'RwLock < (HashMap < String , (?:HashSet < String >|InvalidationMetadata|ClearCb|CheckCb) >) >', r'\1', 'RwLock<T> field -> T'),
]
CB_TYPES = [
    R('R8.clear_cb_type', r'Arc < dyn Fn \( \) \+ Send \+ Sync >', 'ClearCb', 'Arc<dyn Fn()> -> identified clear callback'),
    R('R8.check_cb_type', r'Arc < dyn Fn \( & dyn Fn \( & str \) -> bool \) \+ Send \+ Sync >', 'CheckCb', 'Arc<dyn Fn(&dyn Fn(&str)->bool)> -> identified check callback'),
]

SPEC = dict(kind='raw', label='registry_spec', text='''
// ---------------------------------------------------------------- R8: callbacks as identified values + effect log
pub struct ClearCb { pub id: u64 }
pub struct CheckCb { pub id: u64 }
/// a key predicate by identity (R8): `pid` names the user predicate; for invalidate_all_with the closure the registry
/// builds around the user predicate is "the predicate of that cache name" (pid, Some(name))
pub struct Fx {
    /// ids of the clear callbacks invoked so far
    pub cleared: Ghost<Set<u64>>,
    pub n_cleared: Ghost<nat>,
    /// (callback id, predicate id, cache name the predicate was specialised to) of the check callbacks invoked so far
    pub checked: Ghost<Set<(u64, u64, Option<String>)>>,
    pub n_checked: Ghost<nat>,
}
impl ClearCb {
    #[verifier::external_body]
    pub fn invoke(&self, fx: &mut Fx)
        ensures final(fx).cleared@ == old(fx).cleared@.insert(self.id), final(fx).n_cleared@ == old(fx).n_cleared@ + 1,
            final(fx).checked == old(fx).checked, final(fx).n_checked == old(fx).n_checked
    { }
}
impl CheckCb {
    #[verifier::external_body]
    pub fn invoke_with(&self, fx: &mut Fx, pid: u64, specialised_to: Option<String>)
        ensures final(fx).checked@ == old(fx).checked@.insert((self.id, pid, specialised_to)), final(fx).n_checked@ == old(fx).n_checked@ + 1,
            final(fx).cleared == old(fx).cleared, final(fx).n_cleared == old(fx).n_cleared
    { }
    /// the check callback invoked with a closure the registry wrote itself (not a user predicate): one more check-callback
    /// invocation, with an unknown predicate
    #[verifier::external_body]
    pub fn invoke_with_closure(&self, fx: &mut Fx)
        ensures final(fx).n_checked@ == old(fx).n_checked@ + 1, final(fx).cleared == old(fx).cleared, final(fx).n_cleared == old(fx).n_cleared
    { }
}

/// R8: a user predicate by identity
pub struct PredId { pub id: u64 }

/// cache names registered under key k of a tag / event / dependency table
pub open spec fn under(t: Map<String, HashSet<String>>, k: String) -> Set<String> {
    if t.contains_key(k) { t[k]@ } else { Set::empty() }
}

/// R4: `m.entry(k).or_insert_with(HashSet::new).insert(v)` (assumed contract of the std entry API)
#[verifier::external_body]
pub fn multimap_add(m: &mut HashMap<String, HashSet<String>>, k: String, v: String)
    ensures forall|x: String| #[trigger] under(final(m)@, x) == (if x == k { under(old(m)@, k).insert(v) } else { under(old(m)@, x) })
{ unimplemented!() }

/// R4: `table.get(key).cloned().unwrap_or_default()`
#[verifier::external_body]
pub fn set_or_empty(m: &HashMap<String, HashSet<String>>, key: &str) -> (r: HashSet<String>)
    ensures r@ == under(m@, s2s(key))
{ unimplemented!() }

/// R4: `for name in set` -> the elements the iterator yields: each element exactly once (iterator = the sequence it yields)
#[verifier::external_body]
pub fn set_elems<'a>(s: &'a HashSet<String>) -> (r: Vec<&'a String>)
    ensures r@.len() == s@.len(), r@.len() <= usize::MAX, forall|i: int, j: int| 0 <= i < j < r@.len() ==> *r@[i] != *r@[j],
        forall|k: String| s@.contains(k) <==> exists|j: int| 0 <= j < r@.len() && *(#[trigger] r@[j]) == k,
{ unimplemented!() }

/// R4: `callbacks.iter()` -> the (name, callback) pairs the iterator yields, each entry exactly once
#[verifier::external_body]
pub fn map_pairs<'a>(m: &'a HashMap<String, CheckCb>) -> (r: Vec<(&'a String, &'a CheckCb)>)
    ensures r@.len() == m@.len(), forall|i: int, j: int| 0 <= i < j < r@.len() ==> *r@[i].0 != *r@[j].0,
        forall|j: int| 0 <= j < r@.len() ==> m@.contains_key(*(#[trigger] r@[j]).0) && m@[*r@[j].0] == *r@[j].1,
        r@.len() <= usize::MAX,
        forall|k: String| m@.contains_key(k) ==> exists|j: int| 0 <= j < r@.len() && *(#[trigger] r@[j]).0 == k,
{ unimplemented!() }

/// the registered names among `names`
pub open spec fn matching(names: Set<String>, cbs: Map<String, ClearCb>) -> Set<String> { names.filter(|n: String| cbs.contains_key(n)) }
/// id is the id of the callback registered for one of `names`
pub open spec fn id_among(id: u64, names: Set<String>, cbs: Map<String, ClearCb>) -> bool {
    exists|n: String| names.contains(n) && cbs.contains_key(n) && #[trigger] cbs[n].id == id
}

/// how many of the first i yielded names are registered
pub open spec fn hits(es: Seq<&String>, cbs: Map<String, ClearCb>, i: int) -> nat
    decreases i
{
    if i <= 0 { 0 } else { hits(es, cbs, i - 1) + (if cbs.contains_key(*es[i - 1]) { 1nat } else { 0nat }) }
}
/// the first i yielded names as a set
pub open spec fn prefix_set(es: Seq<&String>, i: int) -> Set<String>
    decreases i
{
    if i <= 0 { Set::empty() } else { prefix_set(es, i - 1).insert(*es[i - 1]) }
}
pub proof fn lemma_prefix_mem(es: Seq<&String>, i: int, k: String)
    requires 0 <= i <= es.len()
    ensures prefix_set(es, i).contains(k) <==> exists|j: int| 0 <= j < i && *(#[trigger] es[j]) == k
    decreases i
{
    if i > 0 {
        lemma_prefix_mem(es, i - 1, k);
        if prefix_set(es, i).contains(k) {
            if *es[i - 1] == k { assert(*es[i - 1] == k); } else {
                let j = choose|j: int| 0 <= j < i - 1 && *(#[trigger] es[j]) == k;
                assert(*es[j] == k);
            }
        }
        if exists|j: int| 0 <= j < i && *(#[trigger] es[j]) == k {
            let j = choose|j: int| 0 <= j < i && *(#[trigger] es[j]) == k;
            if j < i - 1 { assert(*es[j] == k); }
        }
    }
}
pub proof fn lemma_hits_prefix(es: Seq<&String>, cbs: Map<String, ClearCb>, i: int)
    requires 0 <= i <= es.len(), forall|a: int, b: int| 0 <= a < b < es.len() ==> *es[a] != *es[b],
    ensures hits(es, cbs, i) == matching(prefix_set(es, i), cbs).len(), hits(es, cbs, i) <= i,
    decreases i
{
    if i == 0 {
        assert(matching(prefix_set(es, 0), cbs) =~= Set::<String>::empty());
    } else {
        lemma_hits_prefix(es, cbs, i - 1);
        let k = *es[i - 1];
        let p0 = prefix_set(es, i - 1);
        lemma_prefix_mem(es, i - 1, k);
        assert(!p0.contains(k)) by {
            if p0.contains(k) {
                let j = choose|j: int| 0 <= j < i - 1 && *(#[trigger] es[j]) == k;
                assert(*es[j] != *es[i - 1]);
            }
        }
        if cbs.contains_key(k) {
            assert(matching(p0.insert(k), cbs) =~= matching(p0, cbs).insert(k));
        } else {
            assert(matching(p0.insert(k), cbs) =~= matching(p0, cbs));
        }
    }
}
/// a duplicate-free enumeration of a set hits exactly |names /\\ dom(cbs)| registered names
pub proof fn lemma_hits_card(es: Seq<&String>, names: Set<String>, cbs: Map<String, ClearCb>)
    requires es.len() == names.len(),
        forall|i: int, j: int| 0 <= i < j < es.len() ==> *es[i] != *es[j],
        forall|k: String| names.contains(k) <==> exists|j: int| 0 <= j < es.len() && *(#[trigger] es[j]) == k,
    ensures hits(es, cbs, es.len() as int) == matching(names, cbs).len(), prefix_set(es, es.len() as int) == names
{
    lemma_hits_prefix(es, cbs, es.len() as int);
    let pre = prefix_set(es, es.len() as int);
    assert forall|k: String| pre.contains(k) <==> names.contains(k) by { lemma_prefix_mem(es, es.len() as int, k); }
    assert(pre =~= names);
}
''')


# R8: every function that (transitively) invokes a callback takes the effect log; calls among them pass it on (call graph, not by hand)
FX_FNS = 'invalidate_by_tag|invalidate_by_event|invalidate_by_dependency|invalidate_cache|invalidate_caches'
FX_CALL = R('R8.fx_call', r'self \. (%s) \( ([^()]*?) \)' % FX_FNS, r'self.\1(\2, fx)', 'effect log threaded through calls between callback-invoking functions (R8)')


def fn(name, **kw):
    d = dict(kind='fn', file=I, impl=IMPL, name=name, label='InvalidationRegistry::' + name, engine='InvalidationRegistry')
    d['body_rules'] = [FX_CALL]
    d['rules'] = kw.pop('rules', []) + CB_TYPES
    d.update(kw)
    return d


T0 = lambda f: 'old(self).%s@' % f
T1 = lambda f: 'final(self).%s@' % f
OTHERS = lambda keep: ' && '.join('final(self).%s@ == old(self).%s@' % (f, f) for f in
                                  ['tag_to_caches', 'event_to_caches', 'dependency_to_caches', 'cache_metadata', 'clear_callbacks', 'invalidation_check_callbacks'] if f not in keep)

REG_LOOP = lambda field, coll: dict(iter='it', invariant=[
    ('snap', 'it.snapshot@.remaining().len() == metadata.%s@.len() && forall|j: int| 0 <= j < metadata.%s@.len() ==> *(#[trigger] it.snapshot@.remaining()[j]) == metadata.%s@[j]' % (coll, coll, coll)),
    ('table', 'forall|x: String| #[trigger] under(%s@, x) == (if metadata.%s@.take(it.index@ as int).contains(x) { under(old(self).%s@, x).insert(s2s(cache_name)) } else { under(old(self).%s@, x) })' % (field[0], coll, field[1], field[1])),
])

BY_KEY = lambda table: [
    ('tables_unchanged', ['C12', 'C13'], OTHERS([])),
    ('invokes_exactly_the_registered_matching_caches', ['C12', 'C13'],
     'forall|id: u64| #[trigger] final(fx).cleared@.contains(id) <==> (old(fx).cleared@.contains(id) || id_among(id, under(old(self).%s@, s2s(KEY)), old(self).clear_callbacks@))' % table),
    ('count_is_number_of_caches_cleared', ['C12'],
     'count == matching(under(old(self).%s@, s2s(KEY)), old(self).clear_callbacks@).len() && final(fx).n_cleared@ == old(fx).n_cleared@ + count' % table),
    ('no_check_callback_invoked', ['C13'], 'final(fx).checked == old(fx).checked && final(fx).n_checked == old(fx).n_checked'),
]


def by_key(fname, table, keyparam):
    return fn(fname, ret='count', rules=[R('R4.set_or_empty', r'self \. %s \. read \( \) \. get \( %s \) \. cloned \( \) \. unwrap_or_default \( \)' % (table, keyparam),
                                             'set_or_empty(&self.%s, %s)' % (table, keyparam), 'get(key).cloned().unwrap_or_default() -> the registered set or the empty set (R1: read lock erased)'),
                                           ],
              sig_rules=[R('R8.fx_param', r'\) -> usize', ', fx: &mut Fx) -> usize', 'effect-log parameter (R8)')],
              ensures=[(l, p, t.replace('KEY', keyparam)) for (l, p, t) in BY_KEY(table)])


# a registration invokes nothing: the effect log is unchanged (C03: no entry leaves a cache because some cache registered;
# C12 / C13: only the invalidation entry points invoke callbacks)
NO_CB = 'final(fx).cleared == old(fx).cleared && final(fx).n_cleared == old(fx).n_cleared && final(fx).checked == old(fx).checked && final(fx).n_checked == old(fx).n_checked'
# inside the registration functions: a local bound to a stored callback that is called -> identified invoke with effect log
REG_INVOKE = [R('R8.invoke_local', r'(@ID@) \( \) ;', r'\1.invoke(fx);', 'dyn clear-callback call through a local -> identified invoke with effect log'),
              R('R8.invoke_local_closure', r'(@ID@) \( & \| [^|;{}]* \| [^;{}]* \) ;', r'\1.invoke_with_closure(fx);', 'dyn check-callback call with a closure written by the registry -> one more check-callback invocation, predicate unknown')]

UNIT = dict(
    name='registry',
    lemma_props={'lemma_hits_card': ['C12'], 'lemma_hits_prefix': ['C12'], 'lemma_prefix_mem': ['C12'], '*': ['C12', 'C13']},
    items=[SPEC,
        dict(kind='struct', file=I, name='InvalidationMetadata'),
        dict(kind='struct', file=I, name='InvalidationRegistry', rules=CB_TYPES + TYPE_RULES),
        fn('register', rules=[R('R4.multimap_add', r'(@ID@) \. entry \( (@ID@) \. clone \( \) \) \. or_insert_with \( HashSet :: new \) \. insert \( cache_name \. to_string \( \) \)',
                                r'multimap_add(&mut *\1, \2.clone(), cache_name.to_string())', 'entry().or_insert_with(HashSet::new).insert() -> multimap_add (assumed contract of the entry API)')],
           sig_rules=[R('R8.fx_param', r'metadata : InvalidationMetadata \)', 'metadata: InvalidationMetadata, fx: &mut Fx)', 'effect-log parameter (R8)')],
           ensures=[
               ('registration_invokes_no_callback', ['C03', 'C12', 'C13'], NO_CB),
               ('tags_table', ['C12', 'C13'], 'forall|x: String| #[trigger] under(final(self).tag_to_caches@, x) == (if metadata.tags@.contains(x) { under(old(self).tag_to_caches@, x).insert(s2s(cache_name)) } else { under(old(self).tag_to_caches@, x) })'),
               ('events_table', ['C12', 'C13'], 'forall|x: String| #[trigger] under(final(self).event_to_caches@, x) == (if metadata.events@.contains(x) { under(old(self).event_to_caches@, x).insert(s2s(cache_name)) } else { under(old(self).event_to_caches@, x) })'),
               ('dependencies_table', ['C12', 'C13'], 'forall|x: String| #[trigger] under(final(self).dependency_to_caches@, x) == (if metadata.dependencies@.contains(x) { under(old(self).dependency_to_caches@, x).insert(s2s(cache_name)) } else { under(old(self).dependency_to_caches@, x) })'),
               ('callbacks_untouched', ['C12', 'C13'], 'final(self).clear_callbacks@ == old(self).clear_callbacks@ && final(self).invalidation_check_callbacks@ == old(self).invalidation_check_callbacks@'),
           ],
           loops={0: REG_LOOP(('tag_map', 'tag_to_caches'), 'tags'), 1: REG_LOOP(('event_map', 'event_to_caches'), 'events'), 2: REG_LOOP(('dep_map', 'dependency_to_caches'), 'dependencies')},
           hints=[(('loop_start', n), 'elem%d' % n, 'assert(*%s == metadata.%s@[it.index@ as int]);' % (v, c)) for n, (v, c) in enumerate([('tag', 'tags'), ('event', 'events'), ('dep', 'dependencies')])]
                 + [(('fn_end',), 'take_full', 'assert(metadata.tags@.take(metadata.tags@.len() as int) =~= metadata.tags@); assert(metadata.events@.take(metadata.events@.len() as int) =~= metadata.events@); assert(metadata.dependencies@.take(metadata.dependencies@.len() as int) =~= metadata.dependencies@);')]),
        fn('register_callback', sig_rules=[R('R8.cb_param', r'< F > \( & self , cache_name : & str , callback : F \) where F : Fn \( \) \+ Send \+ Sync \+ \'static ,', '(&self, cache_name: &str, callback: ClearCb, fx: &mut Fx)', 'generic closure parameter -> identified callback; effect log')],
           rules=[R('R8.arc_new', r'Arc :: new \( callback \)', 'callback', 'Arc::new(closure) -> the identified callback')] + REG_INVOKE,
           ensures=[('registration_invokes_no_callback', ['C03', 'C12', 'C13'], NO_CB),
                    ('registers_under_name', ['C12'], 'final(self).clear_callbacks@ == old(self).clear_callbacks@.insert(s2s(cache_name), callback)'),
                    ('others_untouched', ['C12', 'C13'], OTHERS(['clear_callbacks']))]),
        fn('invalidate_caches', ret='count', rules=[R('R4.set_elems', r'for name in cache_names \{', 'let __elems = set_elems(cache_names); for name in __elems {', 'for x in &HashSet -> the elements the iterator yields (each once), bound to a local'),
                                                      R('R8.invoke', r'callback \( \) ;', 'callback.invoke(fx);', 'dyn callback call -> identified invoke with effect log')],
           sig_rules=[R('R8.fx_param', r'\) -> usize', ', fx: &mut Fx) -> usize', 'effect-log parameter (R8)')],
           ensures=[
               ('tables_unchanged', ['C12', 'C13'], OTHERS([])),
               ('invokes_exactly_the_registered_matching_caches', ['C12', 'C13'], 'forall|id: u64| #[trigger] final(fx).cleared@.contains(id) <==> (old(fx).cleared@.contains(id) || id_among(id, cache_names@, old(self).clear_callbacks@))'),
               ('count_is_number_of_caches_cleared', ['C12'], 'count == matching(cache_names@, old(self).clear_callbacks@).len() && final(fx).n_cleared@ == old(fx).n_cleared@ + count'),
               ('no_check_callback_invoked', ['C13'], 'final(fx).checked == old(fx).checked && final(fx).n_checked == old(fx).n_checked'),
           ],
           loops={0: dict(iter='it', invariant=[
               ('frame', OTHERS([]).replace('final(self)', 'self') + ' && callbacks@ == old(self).clear_callbacks@ && fx.checked == old(fx).checked && fx.n_checked == old(fx).n_checked'),
               ('snap', 'it.snapshot@.remaining() == es && es.len() == cache_names@.len() && (forall|i: int, j: int| 0 <= i < j < es.len() ==> *es[i] != *es[j]) '
                        '&& (forall|k: String| cache_names@.contains(k) <==> exists|j: int| 0 <= j < es.len() && *(#[trigger] es[j]) == k)'),
               ('count', 'count == hits(es, callbacks@, it.index@ as int) && count <= it.index@ && es.len() <= usize::MAX && fx.n_cleared@ == old(fx).n_cleared@ + count'),
               ('cleared', 'forall|id: u64| #[trigger] fx.cleared@.contains(id) <==> (old(fx).cleared@.contains(id) || id_among(id, prefix_set(es, it.index@ as int), callbacks@))'),
           ])},
           hints=[(('before_loop', 0), 'enumeration', 'let ghost es = __elems@;'),
                  (('loop_start', 0), 'elem', 'assert(name == es[it.index@ as int]); proof { lemma_hits_prefix(es, callbacks@, it.index@ as int); lemma_prefix_mem(es, it.index@ as int, *name); }'),
                  (('after_loop', 0), 'cardinality', 'proof { lemma_hits_card(es, cache_names@, callbacks@); }')]),
        by_key('invalidate_by_tag', 'tag_to_caches', 'tag'),
        by_key('invalidate_by_event', 'event_to_caches', 'event'),
        by_key('invalidate_by_dependency', 'dependency_to_caches', 'dependency'),
        fn('invalidate_cache', ret='r', rules=[R('R8.invoke', r'callback \( \) ;', 'callback.invoke(fx);', 'dyn callback call -> identified invoke with effect log')],
           sig_rules=[R('R8.fx_param', r'\) -> bool', ', fx: &mut Fx) -> bool', 'effect-log parameter (R8)')],
           ensures=[
               ('tables_unchanged', ['C12', 'C13'], OTHERS([])),
               ('true_iff_registered', ['C12'], 'r == old(self).clear_callbacks@.contains_key(s2s(cache_name))'),
               ('invokes_exactly_that_cache', ['C12', 'C13'], 'r ==> final(fx).cleared@ == old(fx).cleared@.insert(old(self).clear_callbacks@[s2s(cache_name)].id) && final(fx).n_cleared@ == old(fx).n_cleared@ + 1'),
               ('unknown_name_touches_nothing', ['C12', 'C13'], '!r ==> final(fx).cleared == old(fx).cleared && final(fx).n_cleared == old(fx).n_cleared'),
               ('no_check_callback_invoked', ['C13'], 'final(fx).checked == old(fx).checked && final(fx).n_checked == old(fx).n_checked'),
           ]),
        fn('register_invalidation_callback', sig_rules=[R('R8.cb_param', r"< F > \( & self , cache_name : & str , callback : F \) where F : Fn \( & dyn Fn \( & str \) -> bool \) \+ Send \+ Sync \+ 'static ,", '(&self, cache_name: &str, callback: CheckCb, fx: &mut Fx)', 'generic closure parameter -> identified callback; effect log')],
           rules=[R('R8.arc_new', r'Arc :: new \( callback \)', 'callback', 'Arc::new(closure) -> the identified callback')] + REG_INVOKE,
           ensures=[('registration_invokes_no_callback', ['C03', 'C12', 'C13'], NO_CB),
                    ('registers_under_name', ['C13'], 'final(self).invalidation_check_callbacks@ == old(self).invalidation_check_callbacks@.insert(s2s(cache_name), callback)'),
                    ('others_untouched', ['C12', 'C13'], OTHERS(['invalidation_check_callbacks']))]),
        fn('invalidate_with', ret='r',
           sig_rules=[R('R8.pred_param', r'< F > \( & self , cache_name : & str , predicate : F \) -> bool where F : Fn \( & str \) -> bool ,', '(&self, cache_name: &str, predicate: PredId, fx: &mut Fx) -> bool', 'generic predicate parameter -> predicate identity; effect log')],
           rules=[R('R8.invoke_with', r'callback \( & predicate \) ;', 'callback.invoke_with(fx, predicate.id, None);', 'dyn callback call -> identified invoke with effect log')],
           ensures=[
               ('tables_unchanged', ['C13'], OTHERS([])),
               ('true_iff_registered', ['C13'], 'r == old(self).invalidation_check_callbacks@.contains_key(s2s(cache_name))'),
               ('applies_predicate_to_exactly_that_cache', ['C13'], 'r ==> final(fx).checked@ == old(fx).checked@.insert((old(self).invalidation_check_callbacks@[s2s(cache_name)].id, predicate.id, None)) && final(fx).n_checked@ == old(fx).n_checked@ + 1'),
               ('unknown_name_touches_nothing', ['C13'], '!r ==> final(fx).checked == old(fx).checked && final(fx).n_checked == old(fx).n_checked'),
               ('no_clear_callback_invoked', ['C13'], 'final(fx).cleared == old(fx).cleared && final(fx).n_cleared == old(fx).n_cleared'),
           ]),
        fn('invalidate_all_with', ret='count',
           sig_rules=[R('R8.pred2_param', r'< F > \( & self , predicate : F \) -> usize where F : Fn \( & str , & str \) -> bool ,', '(&self, predicate: PredId, fx: &mut Fx) -> usize', 'generic predicate parameter -> predicate identity; effect log')],
           rules=[R('R4.map_pairs', r'for \( cache_name , callback \) in callbacks \. iter \( \) \{', 'let __pairs = map_pairs(&*callbacks); for (cache_name, callback) in __pairs {', 'HashMap::iter() -> the (key, value) pairs the iterator yields (each entry once), bound to a local'),
                  R('R8.invoke_closure', r'callback \( & \| key : & str \| predicate \( & cache_name_clone , key \) \) ;', 'callback.invoke_with(fx, predicate.id, Some(cache_name_clone));',
                    'the closure built around the user predicate -> "the predicate specialised to that cache name" (R8)')],
           ensures=[
               ('tables_unchanged', ['C13'], OTHERS([])),
               ('count_is_number_of_registered_caches', ['C13'], 'count == old(self).invalidation_check_callbacks@.len() && final(fx).n_checked@ == old(fx).n_checked@ + count'),
               ('each_cache_gets_its_own_specialisation', ['C13'], 'forall|t: (u64, u64, Option<String>)| #[trigger] final(fx).checked@.contains(t) <==> (old(fx).checked@.contains(t) || '
                'exists|n: String| old(self).invalidation_check_callbacks@.contains_key(n) && t == (old(self).invalidation_check_callbacks@[n].id, predicate.id, Some(n)))'),
               ('no_clear_callback_invoked', ['C13'], 'final(fx).cleared == old(fx).cleared && final(fx).n_cleared == old(fx).n_cleared'),
           ],
           loops={0: dict(iter='it', invariant=[
               ('frame', OTHERS([]).replace('final(self)', 'self') + ' && callbacks@ == old(self).invalidation_check_callbacks@ && fx.cleared == old(fx).cleared && fx.n_cleared == old(fx).n_cleared'),
               ('snap', 'it.snapshot@.remaining() == ps && ps.len() == callbacks@.len() && ps.len() <= usize::MAX && (forall|i: int, j: int| 0 <= i < j < ps.len() ==> *ps[i].0 != *ps[j].0) '
                        '&& (forall|j: int| 0 <= j < ps.len() ==> callbacks@.contains_key(*(#[trigger] ps[j]).0) && callbacks@[*ps[j].0] == *ps[j].1) '
                        '&& (forall|k: String| callbacks@.contains_key(k) ==> exists|j: int| 0 <= j < ps.len() && *(#[trigger] ps[j]).0 == k)'),
               ('count', 'count == it.index@ && fx.n_checked@ == old(fx).n_checked@ + count'),
               ('checked', 'forall|t: (u64, u64, Option<String>)| #[trigger] fx.checked@.contains(t) <==> (old(fx).checked@.contains(t) || '
                           'exists|j: int| 0 <= j < it.index@ && t == ((#[trigger] ps[j]).1.id, predicate.id, Some(*ps[j].0)))'),
           ])},
           hints=[(('before_loop', 0), 'enumeration', 'let ghost ps = __pairs@;'),
                  (('loop_start', 0), 'elem', 'assert((cache_name, callback) == ps[it.index@ as int]);')]),
    ],
)
