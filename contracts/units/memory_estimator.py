"""Unit `memory_estimator` (C05): the built-in MemoryEstimator impls of memory_estimator.rs and CacheEntry's, against
"inline size plus the heap capacity the value owns, recursively"."""
from extract.rules import R

M = 'cachelito-core/src/memory_estimator.rs'

SPEC = dict(kind='raw', label='estimator_spec', text='''
/// heap bytes a value owns beyond its inline size (C05: "inline size plus the heap capacity it owns")
pub trait HeapSpec { spec fn heap(&self) -> nat; }

pub uninterp spec fn string_cap(s: &String) -> nat;
pub uninterp spec fn vec_cap<T>(v: &Vec<T>) -> nat;
pub assume_specification [String::capacity] (s: &String) -> (r: usize) ensures r == string_cap(s);
pub uninterp spec fn string_bytes(s: &String) -> nat;
pub assume_specification [String::len] (s: &String) -> (r: usize) ensures r == string_bytes(s);
pub uninterp spec fn vec_len_spec<T>(v: &Vec<T>) -> nat;
pub assume_specification<T, A: std::alloc::Allocator> [Vec::<T, A>::capacity] (v: &Vec<T, A>) -> (r: usize);
#[verifier::external_body]
pub fn vec_capacity<T>(v: &Vec<T>) -> (r: usize) ensures r == vec_cap(v) { v.capacity() }

/// size_of_val on a Sized value is its type's size (std fact; assumed)
#[verifier::external_body]
pub fn size_of_val_sized<T>(x: &T) -> (r: usize) ensures r == vstd::layout::size_of::<T>() { std::mem::size_of_val(x) }

impl HeapSpec for String { open spec fn heap(&self) -> nat { string_cap(self) } }
pub open spec fn heap_sum<T: HeapSpec>(s: Seq<T>) -> nat decreases s.len() { if s.len() == 0 { 0 } else { heap_sum(s.drop_last()) + s.last().heap() } }
impl<T: HeapSpec> HeapSpec for Vec<T> { open spec fn heap(&self) -> nat { vec_cap(self) * vstd::layout::size_of::<T>() + heap_sum(self@) } }
impl<T: HeapSpec> HeapSpec for Option<T> { open spec fn heap(&self) -> nat { match self { Some(v) => v.heap(), None => 0 } } }
impl<T: HeapSpec, E: HeapSpec> HeapSpec for Result<T, E> { open spec fn heap(&self) -> nat { match self { Ok(v) => v.heap(), Err(e) => e.heap() } } }
impl<T1: HeapSpec, T2: HeapSpec> HeapSpec for (T1, T2) { open spec fn heap(&self) -> nat { self.0.heap() + self.1.heap() } }
impl<T1: HeapSpec, T2: HeapSpec, T3: HeapSpec> HeapSpec for (T1, T2, T3) { open spec fn heap(&self) -> nat { self.0.heap() + self.1.heap() + self.2.heap() } }
/// a Box owns its pointee: inline size of the pointee plus what the pointee owns
impl<T: HeapSpec> HeapSpec for Box<T> { open spec fn heap(&self) -> nat { vstd::layout::size_of::<T>() + (**self).heap() } }
impl HeapSpec for u64 { open spec fn heap(&self) -> nat { 0 } }
impl HeapSpec for i32 { open spec fn heap(&self) -> nat { 0 } }

/// the estimate of a value: its inline size plus the heap it owns
pub trait MemoryEstimator: HeapSpec + Sized {
    fn estimate_memory(&self) -> (r: usize)
        ensures r == vstd::layout::size_of::<Self>() + self.heap();
}

/// Machine arithmetic (ASSUMED): the estimate of a value that really exists fits usize
pub broadcast axiom fn ax_estimate_fits<T: HeapSpec>(x: T)
    ensures vstd::layout::size_of::<T>() + #[trigger] x.heap() <= usize::MAX;
pub broadcast axiom fn ax_vec_buffer_fits<T>(v: &Vec<T>)
    ensures #[trigger] vec_cap(v) * vstd::layout::size_of::<T>() <= usize::MAX;

/// R4: `self.iter().map(|item| item.estimate_memory().saturating_sub(size_of_val(item))).sum()` (assumed contract of the std adapters
/// over the contract of estimate_memory: the sum of what the items own beyond their inline size)
#[verifier::external_body]
pub fn sum_heap_extras<T: MemoryEstimator>(v: &Vec<T>) -> (r: usize) ensures r == heap_sum(v@) { unimplemented!() }
''')

SOV = R('R5.size_of_val', r'(?<![\w:])size_of_val \(', 'size_of_val_sized(', 'size_of_val(x) on a Sized value -> its type size (std fact, assumed)')
SO = R('R0.size_of_path', r'(?<![\w:])size_of :: <', 'std::mem::size_of::<', 'prelude import of size_of made explicit')
HINT = (('fn_start',), 'fits', 'broadcast use ax_estimate_fits; broadcast use ax_vec_buffer_fits; assert(vstd::layout::size_of::<Self>() + self.heap() <= usize::MAX);')


def imp(rx, label, extra_rules=()):
    return dict(kind='fn', file=M, impl=rx, name='estimate_memory', label=label, keep_private=True, rules=[SOV, SO] + list(extra_rules), hints=[HINT], props=['C05'])


UNIT = dict(
    name='memory_estimator',
    items=[SPEC,
           imp(r'^impl MemoryEstimator for String$', 'estimate_memory<String>'),
           imp(r'^impl<T> MemoryEstimator for Vec<T> where T: MemoryEstimator,?$', 'estimate_memory<Vec<T>>',
               [R('R4.sum_heap_extras', r'self \. iter \( \) \. map \( \| item \| item \. estimate_memory \( \) \. saturating_sub \( size_of_val_sized \( item \) \) \) \. sum \( \)', 'sum_heap_extras(self)',
                  'iter().map(est - inline).sum() -> sum_heap_extras (assumed contract of the std adapters)'),
                R('R1.vec_capacity', r'self \. capacity \( \)', 'vec_capacity(self)', 'Vec::capacity -> uninterpreted capacity reading')]),
           imp(r'^impl<T> MemoryEstimator for Option<T> where T: MemoryEstimator,?$', 'estimate_memory<Option<T>>',
               [R('R4.map_or', r'self \. as_ref \( \) \. map_or \( 0 , \| val \| (val \. estimate_memory \( \) - size_of_val_sized \( val \)) \)', r'(match self { Some(val) => \1, None => 0 })',
                  'Option::as_ref().map_or(0, f) -> the equivalent match (std adapter, assumed meaning)')]),
           imp(r'^impl<T, E> MemoryEstimator for Result<T, E> where T: MemoryEstimator, E: MemoryEstimator,?$', 'estimate_memory<Result<T,E>>'),
           imp(r'^impl<T1, T2> MemoryEstimator for \(T1, T2\) where', 'estimate_memory<(T1,T2)>'),
           imp(r'^impl<T1, T2, T3> MemoryEstimator for \(T1, T2, T3\) where', 'estimate_memory<(T1,T2,T3)>'),
           imp(r'^impl<T> MemoryEstimator for Box<T> where T: MemoryEstimator,?$', 'estimate_memory<Box<T>>'),
           ],
)
