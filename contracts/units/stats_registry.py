"""Unit `stats_registry` (C15): cachelito-core/src/stats_registry.rs. The process-wide `STATS_REGISTRY` static
(`Lazy<RwLock<HashMap<String, &'static Lazy<CacheStats>>>>`) becomes an explicit `registry` parameter (R1: lock
erased; the `&'static Lazy<CacheStats>` values are the registered statistics objects themselves)."""
from extract.rules import R
from contracts.units.engine_common import STATS_ITEMS

S = 'cachelito-core/src/stats_registry.rs'

REG_W = R('R1.static_write', r'STATS_REGISTRY \. write \( \)', '(&mut *registry_static)', 'write lock on the static -> &mut borrow of the registry parameter')
REG_R = R('R1.static_read', r'STATS_REGISTRY \. read \( \)', '(&*registry_static)', 'read lock on the static -> & borrow of the registry parameter')


def sig(params_rx, new):
    return [R('R1.static_param', params_rx, new, 'the static registry becomes an explicit parameter')]


SPEC = dict(kind='raw', label='stats_registry_spec', text='''
impl Clone for CacheStats {
    /// stats.rs implements Clone by reading both counters; the snapshot has the same readings
    #[verifier::external_body]
    fn clone(&self) -> (r: Self) ensures r.hits.v == self.hits.v, r.misses.v == self.misses.v { unimplemented!() }
}
''')

UNIT = dict(
    name='stats_registry',
    items=STATS_ITEMS + [SPEC,
        dict(kind='fn', file=S, name='register', rules=[REG_W],
             sig_rules=sig(r'\( name : & str , stats : & \'static Lazy < CacheStats > \)', '(registry_static: &mut HashMap<String, CacheStats>, name: &str, stats: CacheStats)'),
             ensures=[('registered_under_name', ['C15'], 'final(registry_static)@ == old(registry_static)@.insert(s2s(name), stats)')]),
        dict(kind='fn', file=S, name='get', ret='r', rules=[REG_R, R('R4.map_clone', r'registry \. get \( name \) \. map \( \| stats \| \( \* \* stats \) \. clone \( \) \)', 'opt_clone_stats(registry.get(name))', 'Option::map(|s| s.clone()) -> opt_clone_stats (assumed contract of Option::map)')],
             sig_rules=sig(r'\( name : & str \)', '(registry_static: &mut HashMap<String, CacheStats>, name: &str)'),
             ensures=[('retrievable_under_name', ['C15'], 'r is Some <==> old(registry_static)@.contains_key(s2s(name))'),
                      ('snapshot_of_that_cache', ['C15'], 'r is Some ==> r->Some_0.hits.v == old(registry_static)@[s2s(name)].hits.v && r->Some_0.misses.v == old(registry_static)@[s2s(name)].misses.v'),
                      ('reads_only', ['C15'], 'final(registry_static)@ == old(registry_static)@')]),
        dict(kind='fn', file=S, name='reset', ret='r', rules=[REG_R, R('R1.get_mut', r'registry \. get \( name \)', 'registry_static.get_mut(name)', 'the registered statistics object is reached through the registry parameter (R1: &\'static reference erased)'),
                                                          R('R1.drop_reg', r'let registry = \( & \* registry_static \) ;', '', 'guard local of the erased read lock')],
             sig_rules=sig(r'\( name : & str \)', '(registry_static: &mut HashMap<String, CacheStats>, name: &str)'),
             ensures=[('true_iff_registered', ['C15'], 'r == old(registry_static)@.contains_key(s2s(name))'),
                      ('resets_that_cache', ['C15'], 'r ==> final(registry_static)@.contains_key(s2s(name)) && final(registry_static)@[s2s(name)].hits.v == 0 && final(registry_static)@[s2s(name)].misses.v == 0'),
                      ('leaves_all_others_unchanged', ['C15'], 'final(registry_static)@.dom() == old(registry_static)@.dom() && forall|x: String| x != s2s(name) && old(registry_static)@.contains_key(x) ==> #[trigger] final(registry_static)@[x] == old(registry_static)@[x]')]),
        dict(kind='fn', file=S, name='clear', rules=[REG_W],
             sig_rules=sig(r'\( \)', '(registry_static: &mut HashMap<String, CacheStats>)'),
             ensures=[('empties_registry', ['C15'], 'final(registry_static)@.len() == 0')]),
        dict(kind='raw', label='opt_clone', text='''
#[verifier::external_body]
pub fn opt_clone_stats(o: Option<&CacheStats>) -> (r: Option<CacheStats>)
    ensures r is Some <==> o is Some, r is Some ==> r->Some_0.hits.v == o->Some_0.hits.v && r->Some_0.misses.v == o->Some_0.misses.v
{ unimplemented!() }
'''),
    ],
)
