//! Replays of failing histories / schedules against the REAL cachelito crates.
//! Usage: cachelito-replay <scenario>      exit 0 = property held, exit 1 = violated (prints why)
//!        cachelito-replay --search ...     bounded witness search on the real engines (search.rs)
//!        cachelito-replay --history FILE   replay a history written by --search under the same oracle
//!        cachelito-replay --macro-search ...  bounded check of the real #[cache] / #[cache_async] wrappers (macro_search.rs)
//!        cachelito-replay --macro-scenario NAME  re-run one scenario of --macro-search
//!        cachelito-replay --macro-history ...  random call / invalidation histories on decorated functions (macro_history.rs)
//!        cachelito-replay --macro-history-replay FILE  re-run a history file written by --macro-history
//!        cachelito-replay --registry-search ...  random histories on the real InvalidationRegistry (registry_search.rs)
//!        cachelito-replay --registry-replay FILE  re-run a history file written by --registry-search
//! Scenarios are the concrete inputs named in /verif/known_findings.txt and in replay files
//! written by bin/check. Nothing here is a model: every scenario drives /repo's own code.
use cachelito_core::{AsyncGlobalCache, CacheEntry, CacheStats, EvictionPolicy, GlobalCache, ThreadLocalCache};
use dashmap::DashMap;
use once_cell::sync::Lazy;
use parking_lot::{Mutex, RwLock};
use std::cell::RefCell;
use std::collections::{HashMap, VecDeque};

mod history;
mod macro_history;
mod macro_search;
mod registry_search;
mod search;

thread_local! {
    static TL_MAP: RefCell<HashMap<String, CacheEntry<String>>> = RefCell::new(HashMap::new());
    static TL_ORDER: RefCell<VecDeque<String>> = RefCell::new(VecDeque::new());
}

fn policy(s: &str) -> EvictionPolicy {
    EvictionPolicy::from(s)
}

/// F1 (C16): thread-local cache with limit 1 must evict instead of panicking.
fn f1_thread_local_overflow(pol: &'static str, with_memory: bool) -> Result<(), String> {
    let h = std::thread::spawn(move || {
        let r = std::panic::catch_unwind(|| {
            let c = ThreadLocalCache::<String>::new(
                &TL_MAP, &TL_ORDER, Some(1), if with_memory { Some(100) } else { None }, policy(pol), None, None);
            if with_memory {
                c.insert_with_memory("a", "x".repeat(40));
                c.insert_with_memory("b", "y".repeat(40));
                c.insert_with_memory("c", "z".repeat(40));
            } else {
                c.insert("a", "1".to_string());
                c.insert("b", "2".to_string());
            }
            let n_map = TL_MAP.with(|m| m.borrow().len());
            let n_ord = TL_ORDER.with(|o| o.borrow().len());
            (n_map, n_ord)
        });
        r
    });
    match h.join().unwrap() {
        Err(_) => Err(format!("thread-local {pol} (memory={with_memory}): overflowing store panicked")),
        Ok((1, 1)) => Ok(()),
        Ok((a, b)) => Err(format!("thread-local {pol}: after overflow |store|={a} |queue|={b}, expected 1/1")),
    }
}

struct AsyncParts {
    map: &'static DashMap<String, (String, u64, u64)>,
    order: &'static Mutex<VecDeque<String>>,
    stats: &'static CacheStats,
}
fn async_parts() -> AsyncParts {
    AsyncParts {
        map: Box::leak(Box::new(DashMap::new())),
        order: Box::leak(Box::new(Mutex::new(VecDeque::new()))),
        stats: Box::leak(Box::new(CacheStats::new())),
    }
}

/// F2 (C01/C11): last store wins on the async cache.
fn f2_async_last_store_wins() -> Result<(), String> {
    let p = async_parts();
    let c = AsyncGlobalCache::new(p.map, p.order, None, None, policy("lru"), None, None, p.stats);
    c.insert("k", "1".to_string());
    c.insert("k", "2".to_string());
    match c.get("k") {
        Some(v) if v == "2" => Ok(()),
        other => Err(format!("async insert(k,1); insert(k,2); get(k) = {other:?}, expected Some(\"2\")")),
    }
}

/// F3 (C08): async ARC/TLRU, two residents with one hit each: the least recently used goes.
fn f3_async_arc_recency(pol: &'static str) -> Result<(), String> {
    let p = async_parts();
    let c = AsyncGlobalCache::new(p.map, p.order, Some(2), None, policy(pol), None, None, p.stats);
    c.insert("old", "1".to_string());
    c.insert("new", "2".to_string());
    c.get("old");
    c.get("new"); // queue: old, new ; one hit each ; "new" is the most recently used
    c.insert("x", "3".to_string());
    if p.map.contains_key("new") && !p.map.contains_key("old") {
        Ok(())
    } else {
        let keys: Vec<String> = p.map.iter().map(|e| e.key().clone()).collect();
        Err(format!("async {pol}: equally popular old/new, overflow kept {keys:?}; expected 'old' (least recently used) evicted"))
    }
}

/// F4 (C07): async LRU under memory pressure only: a hit refreshes recency.
fn f4_async_lru_memory_only() -> Result<(), String> {
    let p = async_parts();
    let sz = |n: usize| { let mut s = String::with_capacity(n); s.push('v'); s };
    let one = { use cachelito_core::MemoryEstimator; sz(100).estimate_memory() };
    let c = AsyncGlobalCache::new(p.map, p.order, None, Some(2 * one + 10), policy("lru"), None, None, p.stats);
    c.insert_with_memory("a", sz(100));
    c.insert_with_memory("b", sz(100));
    c.get("a"); // a is now the most recently used
    c.insert_with_memory("c", sz(100));
    if p.map.contains_key("a") && !p.map.contains_key("b") {
        Ok(())
    } else {
        let keys: Vec<String> = p.map.iter().map(|e| e.key().clone()).collect();
        Err(format!("async LRU, max_memory only: after get(a) an overflowing store kept {keys:?}; expected 'b' evicted"))
    }
}

// ---- F5 (C17): conditional invalidation racing with evicting stores on a sync global cache
#[cachelito::cache(limit = 2, policy = "lru")]
fn f5_cached(x: u64) -> u64 {
    x + 1
}

fn f5_deadlock() -> Result<(), String> {
    use std::sync::atomic::{AtomicU64, Ordering};
    use std::sync::Arc;
    let progress = Arc::new(AtomicU64::new(0));
    let done = Arc::new(AtomicU64::new(0));
    f5_cached(0);
    const N: u64 = 300_000;
    for t in 0..2u64 {
        let progress = progress.clone();
        let done = done.clone();
        std::thread::spawn(move || {
            for i in 0..N {
                if t == 0 {
                    f5_cached(i % 7);
                } else {
                    cachelito_core::invalidate_with("f5_cached", |k| k.len() > 3);
                }
                progress.fetch_add(1, Ordering::Relaxed);
            }
            done.fetch_add(1, Ordering::Relaxed);
        });
    }
    let mut last = 0;
    let mut stalls = 0;
    loop {
        std::thread::sleep(std::time::Duration::from_millis(250));
        if done.load(Ordering::Relaxed) == 2 {
            return Ok(());
        }
        let p = progress.load(Ordering::Relaxed);
        if p == last {
            stalls += 1;
            if stalls >= 8 {
                return Err(format!(
                    "sync global cache: thread A (evicting stores, queue lock -> store lock) and thread B (invalidate_with, store lock -> queue lock) made no progress for 2 s after {p} operations: deadlock"));
            }
        } else {
            stalls = 0;
            last = p;
        }
    }
}

fn run(name: &str) -> Result<(), String> {
    match name {
        "f1-lfu" => f1_thread_local_overflow("lfu", false),
        "f1-arc" => f1_thread_local_overflow("arc", false),
        "f1-tlru" => f1_thread_local_overflow("tlru", false),
        "f1-fifo" => f1_thread_local_overflow("fifo", false),
        "f1-lru" => f1_thread_local_overflow("lru", false),
        "f1-random" => f1_thread_local_overflow("random", false),
        "f1m-lfu" => f1_thread_local_overflow("lfu", true),
        "f1m-arc" => f1_thread_local_overflow("arc", true),
        "f1m-tlru" => f1_thread_local_overflow("tlru", true),
        "f2" => f2_async_last_store_wins(),
        "f3-arc" => f3_async_arc_recency("arc"),
        "f3-tlru" => f3_async_arc_recency("tlru"),
        "f4" => f4_async_lru_memory_only(),
        "f5" => f5_deadlock(),
        other => Err(format!("unknown scenario {other}")),
    }
}

fn main() {
    let args: Vec<String> = std::env::args().collect();
    if args.iter().any(|a| a == "--search") {
        std::process::exit(search::main_search(&args[1..]));
    }
    if args.iter().any(|a| a == "--macro-search" || a == "--macro-scenario") {
        std::process::exit(macro_search::main_macro(&args[1..]));
    }
    if args.iter().any(|a| a == "--macro-history" || a == "--macro-history-replay") {
        std::process::exit(macro_history::main_history(&args[1..]));
    }
    if args.iter().any(|a| a == "--registry-search" || a == "--registry-replay") {
        std::process::exit(registry_search::main_registry(&args[1..]));
    }
    if let Some(i) = args.iter().position(|a| a == "--history") {
        let selftest = args.iter().any(|a| a == "--selftest-oracle");
        match args.get(i + 1) {
            Some(f) => std::process::exit(history::run_file(f, selftest)),
            None => {
                eprintln!("usage: cachelito-replay --history FILE");
                std::process::exit(2);
            }
        }
    }
    let mut rc = 0;
    for name in &args[1..] {
        match run(name) {
            Ok(()) => println!("HOLDS {name}"),
            Err(e) => {
                println!("FAILS {name}: {e}");
                rc = 1;
            }
        }
    }
    std::process::exit(rc);
}

#[allow(dead_code)]
fn _unused(_: &Lazy<RwLock<HashMap<String, CacheEntry<String>>>>, _: Option<GlobalCache<String>>) {}
