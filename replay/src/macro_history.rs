//! `--macro-history`: random histories of calls and invalidations on functions decorated with the REAL
//! `#[cache]` / `#[cache_async]` macros, checked step by step against a model of the resident key set.
//!
//! A bounded stand-in (never a proof) for C04, C05, C07, C08, C11, C12, C13, C01 (and C03, C16) at the macro level
//! (spec: /verif/notes/macro_history_spec.md, part B, and its follow-ups). No ttl, no sleeping.
//!
//! ```text
//! cachelito-replay --macro-history [--prop Cxx] [--seed N] [--iters N] [--max-ops N] [--pass dense|sparse|both] [--out FILE]
//! cachelito-replay --macro-history-replay FILE          exit 0 held / 1 witness / 2 harness
//! ```
//!
//! Semantics derived from the unchanged code (cachelito-core/src/global_cache.rs, async_global_cache.rs and the
//! two macro crates); the models below implement exactly this:
//!
//! * The wrapper looks the key up (`get`), on a miss runs the body and stores the result (`insert`, with `max_memory`
//!   `insert_with_memory`). Keys are the Debug text of the argument: `h(3)` has key `"3"`.
//! * sync global `insert`: the store gets the entry FIRST, the key is appended to the queue, and only then, if the
//!   queue is longer than `limit`, one victim is chosen AMONG THE QUEUE INCLUDING THE NEW KEY:
//!   FIFO / LRU pop the front (never the new key for limit >= 1); LFU takes the first key in queue order with the
//!   strictly smallest hit count, the new key sits at the back with 0 hits, so the victim is the oldest-stored
//!   resident with 0 hits if there is one and otherwise THE NEW KEY ITSELF (it is stored and removed again: K' == K);
//!   ARC / TLRU score hits x weight, the new key scores 0, same shape as LFU; Random removes any queue position,
//!   possibly the new key.
//! * async `insert`: if the store already holds `limit` entries one victim is chosen AMONG THE RESIDENT KEYS and
//!   removed BEFORE the new key is appended and stored: the victim is never the new key. FIFO / LRU pop the front,
//!   LFU takes the first key in queue order with the strictly smallest hit count among the residents.
//! * a hit moves the key to the back of the queue under LRU (ARC, TLRU) and adds one to its hit count under LFU
//!   (ARC, TLRU); FIFO and Random hits change nothing. A new entry has 0 hits.
//! * `max_memory = M` (family M). A value is accounted with `MemoryEstimator::estimate_memory` (String: 24 + capacity;
//!   the wrappers store a CLONE of the result, whose capacity is its length). A value that alone exceeds M is not
//!   kept and displaces nothing (sync: stored, measured, removed again; async: never stored). Otherwise victims are
//!   removed in policy order only WHILE the total (new value included) exceeds M: sync again among the queue including
//!   the new key (LFU / ARC / TLRU / Random may remove the new key itself, FIFO / LRU pop the front), async among the
//!   residents before the new key is stored. With `limit` as well, the entry limit is applied AFTER the memory loop
//!   (sync: queue longer than limit; async: store already holds limit entries): at most one more victim.
//! * re-store of a key that is still cached (family R: `invalidate_on` says stale, the body runs again and the wrapper
//!   stores again). The lookup that precedes it is an ordinary hit (LRU / LFU bookkeeping as above). sync `insert`:
//!   the map entry is overwritten by a fresh one (0 hits), the key is taken out of the queue and appended again; the
//!   queue is not longer than before, so nothing is evicted. async `insert` (no max_memory): the key is un-queued,
//!   the entry-limit eviction is SKIPPED (`replacing`), the key is appended and the entry overwritten (0 hits). In
//!   both flavours and under every policy a refreshed key therefore becomes the NEWEST store / most recently used,
//!   its hit count restarts at 0, and the resident set does not change.
//! * `invalidate_with` / `invalidate_all_with` reach every global / async cache once it has been used (the callback
//!   is registered on first use) and remove the matching keys from store AND queue. `invalidate_cache(name)` and
//!   `invalidate_by_tag(tag)` only reach caches that declare a tag, an event or a dependency (the clear callback is
//!   registered together with the metadata): the functions below therefore declare one private tag each.
//!
//! Three families of configurations ({global, async} each), every one on decorated functions of its own:
//! * base: policy in {fifo, lru, lfu, arc, random, tlru} x limit in {2, 3}; body `a * 1000 + 7`.
//! * mem (C05): the six policies x {max_memory only, limit 3 + max_memory}; the body returns a String whose length
//!   depends on the key (key 5 alone exceeds M).
//! * restore (C11, C12, C04, C07): `invalidate_on = check` with a verdict the history switches (`SetStale`), in
//!   {unbounded, limit 3 fifo, limit 3 lru, limit 3 lfu}; the body returns `a * 1000 + run number`; also `InvalidateByTag`.
//!
//! Two passes over all configurations, on separate decorated functions (`--pass dense|sparse|both`, default both,
//! `--iters` histories per configuration in each):
//! * dense: the resident keys are listed after EVERY operation (exact victims of every store). The listing is itself an
//!   `invalidate_with(name, |k| { record; false })`, i.e. it runs the macro-emitted callback: a callback that leaves
//!   stale queue slots behind but sweeps them at its next run is healed before the damage reaches a store.
//! * sparse: no listing after calls. The resident keys are seen only inside the history's own `InvalidateWith` /
//!   `InvalidateAllWith` (the predicate records what it is asked about, i.e. the set just before) and in ONE listing at
//!   the end of the history; in between a model driven by the run counter (see `Sparse`). Keys 0..10, histories of up
//!   to `--max-ops` + 10 operations that favour fill -> invalidate a subset -> refill past the limit -> final listing.
//!
//! Every cache is driven by a sequence of histories. The first one is its CONTROL: calls only (restore: and verdict
//! switches), on the never used cache (no reset, no invalidation before or during it). Before every later history the
//! cache is emptied through `invalidate_with(name, |_| true)` and nothing else is reset, so that damage to the queue
//! carries over. Capacity and victim breaches are attributed to C04 / C05 / C07 / C08, and ALSO to C13 once an
//! invalidation has removed an entry of that cache unless the control already showed the same kind of breach (see `step`).
use crate::macro_search::{block_on, instr, list_keys, panic_text, Rng};
use cachelito::cache;
use cachelito_async::cache_async;
use cachelito_core::MemoryEstimator;
use std::collections::{BTreeMap, BTreeSet};
use std::fmt;
use std::panic::{catch_unwind, AssertUnwindSafe};
use std::sync::atomic::{AtomicBool, AtomicUsize, Ordering};
use std::sync::{Mutex, OnceLock};
use std::time::{Duration, Instant};

const DEFAULT_OUT: &str = "/verif/.work/replays/macro_history.witness";
/// keys of the dense pass
const ALPHABET: u32 = 6;
const FULL_MASK: u16 = (1 << ALPHABET) - 1;
/// keys of the sparse pass (a refill past limit 3 after invalidating 2 keys needs fresh keys)
const WIDE_ALPHABET: u32 = 10;
const WIDE_MASK: u16 = (1 << WIDE_ALPHABET) - 1;
const HANG_SECS: u64 = 5;
const PROPS: [&str; 10] = ["C01", "C03", "C04", "C05", "C07", "C08", "C11", "C12", "C13", "C16"];

fn twin(a: u32) -> u64 {
    a as u64 * 1000 + 7
}

// ------------------------------------------------------------------------------------------------
// family M: values whose size depends on the key
// ------------------------------------------------------------------------------------------------
/// `max_memory` of every function of family M: the attribute needs a literal; `check_sizes` verifies that it is
/// 2.5 average values.
const MEM_M: usize = 685;
/// the key whose value alone exceeds M
const BIG_KEY: u32 = 5;

fn mem_len(k: u32) -> usize {
    if k == BIG_KEY {
        1000
    } else {
        100 * (1 + (k % 4) as usize)
    }
}
/// `"<k>:xxxx..."`, exactly `mem_len(k)` bytes, capacity == length.
fn mem_value(k: u32) -> String {
    let n = mem_len(k);
    let mut s = String::with_capacity(n);
    s.push_str(&format!("{k}:"));
    while s.len() < n {
        s.push('x');
    }
    s
}
/// What the real estimator says about the value the wrapper stores (a clone of the result).
fn mem_size(k: u32) -> usize {
    static SIZES: OnceLock<Vec<usize>> = OnceLock::new();
    SIZES.get_or_init(|| (0..WIDE_ALPHABET).map(|k| mem_value(k).clone().estimate_memory()).collect())[k as usize]
}
/// The premises of family M.
fn check_sizes() -> Result<(), String> {
    let ordinary: Vec<usize> = (0..4).map(mem_size).collect();
    let avg = ordinary.iter().sum::<usize>() as f64 / 4.0;
    if (avg * 2.5).round() as usize != MEM_M {
        return Err(format!("family M: 2.5 average values are {} bytes, the attribute literal is {MEM_M}", avg * 2.5));
    }
    for k in 0..WIDE_ALPHABET {
        if (k == BIG_KEY) != (mem_size(k) > MEM_M) {
            return Err(format!("family M: key {k} is estimated at {} bytes, M = {MEM_M}", mem_size(k)));
        }
    }
    Ok(())
}
/// The u64 the harness compares: the twin's value iff the String is the right one.
fn mem_wrap(a: u32, s: String) -> u64 {
    if s == mem_value(a) {
        twin(a)
    } else {
        u64::MAX - s.len() as u64
    }
}

// ------------------------------------------------------------------------------------------------
// family R: the verdict of `invalidate_on`, per cache name
// ------------------------------------------------------------------------------------------------
static STALE: Mutex<BTreeSet<&'static str>> = Mutex::new(BTreeSet::new());
fn is_stale(name: &'static str) -> bool {
    STALE.lock().unwrap_or_else(|e| e.into_inner()).contains(name)
}
fn set_stale(name: &'static str, stale: bool) {
    let mut g = STALE.lock().unwrap_or_else(|e| e.into_inner());
    if stale {
        g.insert(name);
    } else {
        g.remove(name);
    }
}

// ------------------------------------------------------------------------------------------------
// the decorated functions
// ------------------------------------------------------------------------------------------------
#[derive(Clone, Copy, PartialEq, Eq, Debug)]
enum Flavour {
    Global,
    Async,
}
impl Flavour {
    fn name(self) -> &'static str {
        match self {
            Flavour::Global => "global",
            Flavour::Async => "async",
        }
    }
}

#[derive(Clone, Copy, PartialEq, Eq, Debug)]
enum Pol {
    Fifo,
    Lru,
    Lfu,
    Arc,
    Random,
    Tlru,
}
impl Pol {
    fn parse(s: &str) -> Pol {
        match s {
            "fifo" => Pol::Fifo,
            "lru" => Pol::Lru,
            "lfu" => Pol::Lfu,
            "arc" => Pol::Arc,
            "random" => Pol::Random,
            "tlru" => Pol::Tlru,
            other => panic!("harness: unknown policy {other}"),
        }
    }
    fn name(self) -> &'static str {
        match self {
            Pol::Fifo => "fifo",
            Pol::Lru => "lru",
            Pol::Lfu => "lfu",
            Pol::Arc => "arc",
            Pol::Random => "random",
            Pol::Tlru => "tlru",
        }
    }
}

/// How the resident keys are observed (the same configurations are driven twice, on separate functions).
#[derive(Clone, Copy, PartialEq, Eq, Debug)]
enum Pass {
    /// a key listing after EVERY operation. Precise (exact victims of every store), but the listing is itself an
    /// `invalidate_with(name, |k| { record; false })`: it RUNS the macro-emitted callback, and a callback that leaves
    /// stale queue slots behind but sweeps them at its next run is healed before the damage reaches a store.
    Dense,
    /// no listing after calls: the resident set is seen only inside the history's own `InvalidateWith` /
    /// `InvalidateAllWith` (their predicate records what it is asked about) and in ONE listing at the end of the history.
    Sparse,
}
impl Pass {
    fn name(self) -> &'static str {
        match self {
            Pass::Dense => "dense",
            Pass::Sparse => "sparse",
        }
    }
}

#[derive(Clone, Copy, PartialEq, Eq, Debug)]
enum Family {
    /// entry limit only
    Base,
    /// max_memory (with and without limit), values of different sizes
    Mem,
    /// `invalidate_on` with a switchable verdict: re-stores of cached keys
    Restore,
}
impl Family {
    fn name(self) -> &'static str {
        match self {
            Family::Base => "base",
            Family::Mem => "mem",
            Family::Restore => "restore",
        }
    }
}

#[derive(Clone, Copy)]
struct Cfg {
    pass: Pass,
    family: Family,
    flavour: Flavour,
    policy: Pol,
    limit: Option<usize>,
    max_memory: Option<usize>,
    /// cache name = instrumentation slot
    name: &'static str,
    /// the one tag the cache declares
    tag: &'static str,
    call: fn(u32) -> u64,
}
impl Cfg {
    fn lim(&self) -> usize {
        self.limit.unwrap_or(usize::MAX)
    }
    fn mem(&self) -> usize {
        self.max_memory.unwrap_or(usize::MAX)
    }
    fn size(&self, k: u32) -> usize {
        if self.family == Family::Mem && k < WIDE_ALPHABET {
            mem_size(k)
        } else {
            0
        }
    }
    fn bytes(&self, keys: &BTreeSet<u32>) -> usize {
        keys.iter().map(|k| self.size(*k)).sum()
    }
    fn too_large(&self, k: u32) -> bool {
        self.size(k) > self.mem()
    }
    /// the property a capacity breach is attributed to
    fn cap_prop(&self) -> &'static str {
        if self.max_memory.is_some() {
            "C05"
        } else {
            "C04"
        }
    }
    fn alphabet(&self) -> u32 {
        match self.pass {
            Pass::Dense => ALPHABET,
            Pass::Sparse => WIDE_ALPHABET,
        }
    }
    fn limit_text(&self) -> String {
        self.limit.map_or("none".to_string(), |l| l.to_string())
    }
    fn text(&self) -> String {
        let mem = self.max_memory.map_or(String::new(), |m| format!(" memory={m}"));
        format!(
            "flavour={} policy={} limit={}{mem} family={} pass={}",
            self.flavour.name(),
            self.policy.name(),
            self.limit_text(),
            self.family.name(),
            self.pass.name()
        )
    }
}

macro_rules! fam_fn {
    (B G $f:ident $name:tt $tag:tt $policy:tt $limit:tt) => {
        #[cache(name = $name, tags = [$tag], policy = $policy, limit = $limit)]
        fn $f(a: u32) -> u64 {
            instr::ran($name);
            twin(a)
        }
    };
    (B A $f:ident $name:tt $tag:tt $policy:tt $limit:tt) => {
        #[cache_async(name = $name, tags = [$tag], policy = $policy, limit = $limit)]
        async fn $f(a: u32) -> u64 {
            instr::ran($name);
            twin(a)
        }
    };
    (M G $f:ident $name:tt $tag:tt $policy:tt none) => {
        #[cache(name = $name, tags = [$tag], policy = $policy, max_memory = 685)]
        fn $f(a: u32) -> String {
            instr::ran($name);
            mem_value(a)
        }
    };
    (M G $f:ident $name:tt $tag:tt $policy:tt $limit:tt) => {
        #[cache(name = $name, tags = [$tag], policy = $policy, limit = $limit, max_memory = 685)]
        fn $f(a: u32) -> String {
            instr::ran($name);
            mem_value(a)
        }
    };
    (M A $f:ident $name:tt $tag:tt $policy:tt none) => {
        #[cache_async(name = $name, tags = [$tag], policy = $policy, max_memory = 685)]
        async fn $f(a: u32) -> String {
            instr::ran($name);
            mem_value(a)
        }
    };
    (M A $f:ident $name:tt $tag:tt $policy:tt $limit:tt) => {
        #[cache_async(name = $name, tags = [$tag], policy = $policy, limit = $limit, max_memory = 685)]
        async fn $f(a: u32) -> String {
            instr::ran($name);
            mem_value(a)
        }
    };
    (R G $f:ident $name:tt $tag:tt $policy:tt none) => {
        mod $f {
            use super::*;
            fn check(_key: &String, _value: &u64) -> bool {
                is_stale($name)
            }
            #[cache(name = $name, tags = [$tag], policy = $policy, invalidate_on = check)]
            pub(super) fn h(a: u32) -> u64 {
                a as u64 * 1000 + instr::ran($name)
            }
        }
    };
    (R G $f:ident $name:tt $tag:tt $policy:tt $limit:tt) => {
        mod $f {
            use super::*;
            fn check(_key: &String, _value: &u64) -> bool {
                is_stale($name)
            }
            #[cache(name = $name, tags = [$tag], policy = $policy, limit = $limit, invalidate_on = check)]
            pub(super) fn h(a: u32) -> u64 {
                a as u64 * 1000 + instr::ran($name)
            }
        }
    };
    (R A $f:ident $name:tt $tag:tt $policy:tt none) => {
        mod $f {
            use super::*;
            fn check(_key: &String, _value: &u64) -> bool {
                is_stale($name)
            }
            #[cache_async(name = $name, tags = [$tag], policy = $policy, invalidate_on = check)]
            pub(super) async fn h(a: u32) -> u64 {
                a as u64 * 1000 + instr::ran($name)
            }
        }
    };
    (R A $f:ident $name:tt $tag:tt $policy:tt $limit:tt) => {
        mod $f {
            use super::*;
            fn check(_key: &String, _value: &u64) -> bool {
                is_stale($name)
            }
            #[cache_async(name = $name, tags = [$tag], policy = $policy, limit = $limit, invalidate_on = check)]
            pub(super) async fn h(a: u32) -> u64 {
                a as u64 * 1000 + instr::ran($name)
            }
        }
    };
}
macro_rules! lim {
    (none) => {
        None
    };
    ($l:tt) => {
        Some($l)
    };
}
macro_rules! fam_call {
    (B G $f:ident) => {
        |a| $f(a)
    };
    (B A $f:ident) => {
        |a| block_on($f(a))
    };
    (M G $f:ident) => {
        |a| mem_wrap(a, $f(a))
    };
    (M A $f:ident) => {
        |a| mem_wrap(a, block_on($f(a)))
    };
    (R G $f:ident) => {
        |a| $f::h(a)
    };
    (R A $f:ident) => {
        |a| block_on($f::h(a))
    };
}
macro_rules! fam_family {
    (B) => {
        (Family::Base, None::<usize>)
    };
    (M) => {
        (Family::Mem, Some(MEM_M))
    };
    (R) => {
        (Family::Restore, None::<usize>)
    };
}
macro_rules! fam_flavour {
    (G) => {
        Flavour::Global
    };
    (A) => {
        Flavour::Async
    };
}
macro_rules! fam_cfg {
    ($pass:expr, $k:tt $fl:tt $f:ident $name:tt $tag:tt $policy:tt $limit:tt) => {
        Cfg {
            pass: $pass,
            family: fam_family!($k).0,
            flavour: fam_flavour!($fl),
            policy: Pol::parse($policy),
            limit: lim!($limit),
            max_memory: fam_family!($k).1,
            name: $name,
            tag: $tag,
            call: fam_call!($k $fl $f),
        }
    };
}
/// One row = one configuration = two decorated functions with caches of their own: one per pass.
macro_rules! fam_fns {
    ($($k:tt $fl:tt $f:ident $name:tt $tag:tt $sf:ident $sname:tt $stag:tt $policy:tt $limit:tt;)*) => {
        $(fam_fn!($k $fl $f $name $tag $policy $limit);)*
        $(fam_fn!($k $fl $sf $sname $stag $policy $limit);)*
        fn configs(pass: Pass) -> Vec<Cfg> {
            match pass {
                Pass::Dense => vec![$(fam_cfg!(Pass::Dense, $k $fl $f $name $tag $policy $limit)),*],
                Pass::Sparse => vec![$(fam_cfg!(Pass::Sparse, $k $fl $sf $sname $stag $policy $limit)),*],
            }
        }
    };
}
fam_fns! {
    B G hg_fifo_2 "mh_g_fifo_2" "mh_g_fifo_2_t" sg_fifo_2 "ms_g_fifo_2" "ms_g_fifo_2_t" "fifo" 2;
    B G hg_fifo_3 "mh_g_fifo_3" "mh_g_fifo_3_t" sg_fifo_3 "ms_g_fifo_3" "ms_g_fifo_3_t" "fifo" 3;
    B G hg_lru_2 "mh_g_lru_2" "mh_g_lru_2_t" sg_lru_2 "ms_g_lru_2" "ms_g_lru_2_t" "lru" 2;
    B G hg_lru_3 "mh_g_lru_3" "mh_g_lru_3_t" sg_lru_3 "ms_g_lru_3" "ms_g_lru_3_t" "lru" 3;
    B G hg_lfu_2 "mh_g_lfu_2" "mh_g_lfu_2_t" sg_lfu_2 "ms_g_lfu_2" "ms_g_lfu_2_t" "lfu" 2;
    B G hg_lfu_3 "mh_g_lfu_3" "mh_g_lfu_3_t" sg_lfu_3 "ms_g_lfu_3" "ms_g_lfu_3_t" "lfu" 3;
    B G hg_arc_2 "mh_g_arc_2" "mh_g_arc_2_t" sg_arc_2 "ms_g_arc_2" "ms_g_arc_2_t" "arc" 2;
    B G hg_arc_3 "mh_g_arc_3" "mh_g_arc_3_t" sg_arc_3 "ms_g_arc_3" "ms_g_arc_3_t" "arc" 3;
    B G hg_random_2 "mh_g_random_2" "mh_g_random_2_t" sg_random_2 "ms_g_random_2" "ms_g_random_2_t" "random" 2;
    B G hg_random_3 "mh_g_random_3" "mh_g_random_3_t" sg_random_3 "ms_g_random_3" "ms_g_random_3_t" "random" 3;
    B G hg_tlru_2 "mh_g_tlru_2" "mh_g_tlru_2_t" sg_tlru_2 "ms_g_tlru_2" "ms_g_tlru_2_t" "tlru" 2;
    B G hg_tlru_3 "mh_g_tlru_3" "mh_g_tlru_3_t" sg_tlru_3 "ms_g_tlru_3" "ms_g_tlru_3_t" "tlru" 3;
    B A ha_fifo_2 "mh_a_fifo_2" "mh_a_fifo_2_t" sa_fifo_2 "ms_a_fifo_2" "ms_a_fifo_2_t" "fifo" 2;
    B A ha_fifo_3 "mh_a_fifo_3" "mh_a_fifo_3_t" sa_fifo_3 "ms_a_fifo_3" "ms_a_fifo_3_t" "fifo" 3;
    B A ha_lru_2 "mh_a_lru_2" "mh_a_lru_2_t" sa_lru_2 "ms_a_lru_2" "ms_a_lru_2_t" "lru" 2;
    B A ha_lru_3 "mh_a_lru_3" "mh_a_lru_3_t" sa_lru_3 "ms_a_lru_3" "ms_a_lru_3_t" "lru" 3;
    B A ha_lfu_2 "mh_a_lfu_2" "mh_a_lfu_2_t" sa_lfu_2 "ms_a_lfu_2" "ms_a_lfu_2_t" "lfu" 2;
    B A ha_lfu_3 "mh_a_lfu_3" "mh_a_lfu_3_t" sa_lfu_3 "ms_a_lfu_3" "ms_a_lfu_3_t" "lfu" 3;
    B A ha_arc_2 "mh_a_arc_2" "mh_a_arc_2_t" sa_arc_2 "ms_a_arc_2" "ms_a_arc_2_t" "arc" 2;
    B A ha_arc_3 "mh_a_arc_3" "mh_a_arc_3_t" sa_arc_3 "ms_a_arc_3" "ms_a_arc_3_t" "arc" 3;
    B A ha_random_2 "mh_a_random_2" "mh_a_random_2_t" sa_random_2 "ms_a_random_2" "ms_a_random_2_t" "random" 2;
    B A ha_random_3 "mh_a_random_3" "mh_a_random_3_t" sa_random_3 "ms_a_random_3" "ms_a_random_3_t" "random" 3;
    B A ha_tlru_2 "mh_a_tlru_2" "mh_a_tlru_2_t" sa_tlru_2 "ms_a_tlru_2" "ms_a_tlru_2_t" "tlru" 2;
    B A ha_tlru_3 "mh_a_tlru_3" "mh_a_tlru_3_t" sa_tlru_3 "ms_a_tlru_3" "ms_a_tlru_3_t" "tlru" 3;
    M G hmg_fifo_m "mh_g_fifo_m" "mh_g_fifo_m_t" smg_fifo_m "ms_g_fifo_m" "ms_g_fifo_m_t" "fifo" none;
    M G hmg_fifo_m3 "mh_g_fifo_m3" "mh_g_fifo_m3_t" smg_fifo_m3 "ms_g_fifo_m3" "ms_g_fifo_m3_t" "fifo" 3;
    M G hmg_lru_m "mh_g_lru_m" "mh_g_lru_m_t" smg_lru_m "ms_g_lru_m" "ms_g_lru_m_t" "lru" none;
    M G hmg_lru_m3 "mh_g_lru_m3" "mh_g_lru_m3_t" smg_lru_m3 "ms_g_lru_m3" "ms_g_lru_m3_t" "lru" 3;
    M G hmg_lfu_m "mh_g_lfu_m" "mh_g_lfu_m_t" smg_lfu_m "ms_g_lfu_m" "ms_g_lfu_m_t" "lfu" none;
    M G hmg_lfu_m3 "mh_g_lfu_m3" "mh_g_lfu_m3_t" smg_lfu_m3 "ms_g_lfu_m3" "ms_g_lfu_m3_t" "lfu" 3;
    M G hmg_arc_m "mh_g_arc_m" "mh_g_arc_m_t" smg_arc_m "ms_g_arc_m" "ms_g_arc_m_t" "arc" none;
    M G hmg_arc_m3 "mh_g_arc_m3" "mh_g_arc_m3_t" smg_arc_m3 "ms_g_arc_m3" "ms_g_arc_m3_t" "arc" 3;
    M G hmg_random_m "mh_g_random_m" "mh_g_random_m_t" smg_random_m "ms_g_random_m" "ms_g_random_m_t" "random" none;
    M G hmg_random_m3 "mh_g_random_m3" "mh_g_random_m3_t" smg_random_m3 "ms_g_random_m3" "ms_g_random_m3_t" "random" 3;
    M G hmg_tlru_m "mh_g_tlru_m" "mh_g_tlru_m_t" smg_tlru_m "ms_g_tlru_m" "ms_g_tlru_m_t" "tlru" none;
    M G hmg_tlru_m3 "mh_g_tlru_m3" "mh_g_tlru_m3_t" smg_tlru_m3 "ms_g_tlru_m3" "ms_g_tlru_m3_t" "tlru" 3;
    M A hma_fifo_m "mh_a_fifo_m" "mh_a_fifo_m_t" sma_fifo_m "ms_a_fifo_m" "ms_a_fifo_m_t" "fifo" none;
    M A hma_fifo_m3 "mh_a_fifo_m3" "mh_a_fifo_m3_t" sma_fifo_m3 "ms_a_fifo_m3" "ms_a_fifo_m3_t" "fifo" 3;
    M A hma_lru_m "mh_a_lru_m" "mh_a_lru_m_t" sma_lru_m "ms_a_lru_m" "ms_a_lru_m_t" "lru" none;
    M A hma_lru_m3 "mh_a_lru_m3" "mh_a_lru_m3_t" sma_lru_m3 "ms_a_lru_m3" "ms_a_lru_m3_t" "lru" 3;
    M A hma_lfu_m "mh_a_lfu_m" "mh_a_lfu_m_t" sma_lfu_m "ms_a_lfu_m" "ms_a_lfu_m_t" "lfu" none;
    M A hma_lfu_m3 "mh_a_lfu_m3" "mh_a_lfu_m3_t" sma_lfu_m3 "ms_a_lfu_m3" "ms_a_lfu_m3_t" "lfu" 3;
    M A hma_arc_m "mh_a_arc_m" "mh_a_arc_m_t" sma_arc_m "ms_a_arc_m" "ms_a_arc_m_t" "arc" none;
    M A hma_arc_m3 "mh_a_arc_m3" "mh_a_arc_m3_t" sma_arc_m3 "ms_a_arc_m3" "ms_a_arc_m3_t" "arc" 3;
    M A hma_random_m "mh_a_random_m" "mh_a_random_m_t" sma_random_m "ms_a_random_m" "ms_a_random_m_t" "random" none;
    M A hma_random_m3 "mh_a_random_m3" "mh_a_random_m3_t" sma_random_m3 "ms_a_random_m3" "ms_a_random_m3_t" "random" 3;
    M A hma_tlru_m "mh_a_tlru_m" "mh_a_tlru_m_t" sma_tlru_m "ms_a_tlru_m" "ms_a_tlru_m_t" "tlru" none;
    M A hma_tlru_m3 "mh_a_tlru_m3" "mh_a_tlru_m3_t" sma_tlru_m3 "ms_a_tlru_m3" "ms_a_tlru_m3_t" "tlru" 3;
    R G hg_r_unb "mh_g_r_unb" "mh_g_r_unb_t" sg_r_unb "ms_g_r_unb" "ms_g_r_unb_t" "lru" none;
    R G hg_r_fifo "mh_g_r_fifo" "mh_g_r_fifo_t" sg_r_fifo "ms_g_r_fifo" "ms_g_r_fifo_t" "fifo" 3;
    R G hg_r_lru "mh_g_r_lru" "mh_g_r_lru_t" sg_r_lru "ms_g_r_lru" "ms_g_r_lru_t" "lru" 3;
    R G hg_r_lfu "mh_g_r_lfu" "mh_g_r_lfu_t" sg_r_lfu "ms_g_r_lfu" "ms_g_r_lfu_t" "lfu" 3;
    R A ha_r_unb "mh_a_r_unb" "mh_a_r_unb_t" sa_r_unb "ms_a_r_unb" "ms_a_r_unb_t" "lru" none;
    R A ha_r_fifo "mh_a_r_fifo" "mh_a_r_fifo_t" sa_r_fifo "ms_a_r_fifo" "ms_a_r_fifo_t" "fifo" 3;
    R A ha_r_lru "mh_a_r_lru" "mh_a_r_lru_t" sa_r_lru "ms_a_r_lru" "ms_a_r_lru_t" "lru" 3;
    R A ha_r_lfu "mh_a_r_lfu" "mh_a_r_lfu_t" sa_r_lfu "ms_a_r_lfu" "ms_a_r_lfu_t" "lfu" 3;
}

// ------------------------------------------------------------------------------------------------
// operations
// ------------------------------------------------------------------------------------------------
#[derive(Clone, Copy, PartialEq, Eq, Debug)]
enum Op {
    Call(u32),
    /// `invalidate_with(name, key in mask)`
    With(u16),
    /// `invalidate_all_with(cache_name == name && key in mask)`
    AllWith(u16),
    /// `invalidate_cache(name)`
    Cache,
    /// `invalidate_by_tag(<the private tag of the cache>)`
    ByTag,
    /// family R: what `invalidate_on` answers from now on (true = the cached entry is stale)
    Stale(bool),
}
fn mask_keys(mask: u16) -> Vec<u32> {
    (0..WIDE_ALPHABET).filter(|k| mask & (1 << k) != 0).collect()
}
fn in_mask(mask: u16, key: &str) -> bool {
    key.parse::<u32>().map_or(false, |k| k < WIDE_ALPHABET && mask & (1 << k) != 0)
}
impl fmt::Display for Op {
    fn fmt(&self, f: &mut fmt::Formatter<'_>) -> fmt::Result {
        match self {
            Op::Call(k) => write!(f, "Call({k})"),
            Op::With(m) => write!(f, "InvalidateWith(key in {:?})", mask_keys(*m)),
            Op::AllWith(m) => write!(f, "InvalidateAllWith(this cache && key in {:?})", mask_keys(*m)),
            Op::Cache => write!(f, "InvalidateCache"),
            Op::ByTag => write!(f, "InvalidateByTag"),
            Op::Stale(b) => write!(f, "SetStale({b})"),
        }
    }
}
impl Op {
    fn token(&self) -> String {
        match self {
            Op::Call(k) => format!("call:{k}"),
            Op::With(m) => format!("with:{m}"),
            Op::AllWith(m) => format!("allwith:{m}"),
            Op::Cache => "cache".to_string(),
            Op::ByTag => "bytag".to_string(),
            Op::Stale(b) => format!("stale:{}", *b as u8),
        }
    }
    fn parse(t: &str) -> Result<Op, String> {
        let bad = || format!("bad operation {t:?}");
        match t {
            "cache" => return Ok(Op::Cache),
            "bytag" => return Ok(Op::ByTag),
            "stale:0" => return Ok(Op::Stale(false)),
            "stale:1" => return Ok(Op::Stale(true)),
            _ => {}
        }
        let (k, v) = t.split_once(':').ok_or_else(bad)?;
        match k {
            "call" => v.parse::<u32>().ok().filter(|k| *k < WIDE_ALPHABET).map(Op::Call).ok_or_else(bad),
            "with" => v.parse::<u16>().ok().filter(|m| *m <= WIDE_MASK).map(Op::With).ok_or_else(bad),
            "allwith" => v.parse::<u16>().ok().filter(|m| *m <= WIDE_MASK).map(Op::AllWith).ok_or_else(bad),
            _ => Err(bad()),
        }
    }
    fn is_invalidation(&self) -> bool {
        matches!(self, Op::With(_) | Op::AllWith(_) | Op::Cache | Op::ByTag)
    }
}
fn history_line(ops: &[Op]) -> String {
    format!("history={}", ops.iter().map(|o| o.token()).collect::<Vec<_>>().join(","))
}

/// The control history of a cache: calls only, three times as long as an ordinary history at most.
fn gen_control(rng: &mut Rng, alphabet: u32, max_ops: usize) -> Vec<Op> {
    let n = max_ops.max(1) + rng.below(2 * max_ops.max(1) + 1);
    (0..n).map(|_| Op::Call(rng.below(alphabet as usize) as u32)).collect()
}

/// Control of family R: calls and verdict switches (no invalidation).
fn gen_restore_control(rng: &mut Rng, alphabet: u32, max_ops: usize) -> Vec<Op> {
    let n = max_ops.max(1) + rng.below(2 * max_ops.max(1) + 1);
    (0..n)
        .map(|_| match rng.below(8) {
            0 => Op::Stale(rng.below(2) == 0),
            _ => Op::Call(rng.below(alphabet as usize) as u32),
        })
        .collect()
}

/// Dense pass, families base and mem.
fn gen_ops(rng: &mut Rng, max_ops: usize) -> Vec<Op> {
    let n = 1 + rng.below(max_ops.max(1));
    let mut ops = Vec::with_capacity(n);
    // some histories use a small part of the alphabet (more hits), some all of it (more evictions)
    let span = [3, 4, ALPHABET as usize, ALPHABET as usize][rng.below(4)];
    for _ in 0..n {
        let mask = |rng: &mut Rng| -> u16 {
            match rng.below(8) {
                0 => 0,
                1 => FULL_MASK,
                2 => 1 << rng.below(ALPHABET as usize),
                _ => (rng.next() >> 40) as u16 & FULL_MASK,
            }
        };
        let op = match rng.below(100) {
            0..=71 => Op::Call(rng.below(span) as u32),
            72..=84 => Op::With(mask(rng)),
            85..=91 => Op::AllWith(mask(rng)),
            _ => Op::Cache,
        };
        ops.push(op);
    }
    ops
}

/// Histories of the sparse pass (families base and mem) favour: fill -> invalidate a subset of what was filled ->
/// refill PAST the limit with fresh keys -> (final listing), with no other invalidation between the invalidation and
/// the refill. One in four is an unstructured mix over the wide alphabet.
fn gen_sparse(rng: &mut Rng, limit: usize, max_ops: usize) -> Vec<Op> {
    let max_ops = max_ops.max(1);
    let mut ops = Vec::new();
    if rng.below(4) == 0 {
        let n = 1 + rng.below(max_ops);
        let span = [4, 6, WIDE_ALPHABET as usize][rng.below(3)];
        for _ in 0..n {
            let mask = (rng.next() >> 40) as u16 & WIDE_MASK & if rng.below(2) == 0 { 0x3F } else { WIDE_MASK };
            ops.push(match rng.below(100) {
                0..=79 => Op::Call(rng.below(span) as u32),
                80..=89 => Op::With(mask),
                90..=95 => Op::AllWith(mask),
                _ => Op::Cache,
            });
        }
        return ops;
    }
    let mut fresh: Vec<u32> = (0..WIDE_ALPHABET).collect();
    rng.shuffle(&mut fresh);
    let mut recent: Vec<u32> = Vec::new();
    let rounds = 1 + rng.below(2);
    for _ in 0..rounds {
        // fill (sometimes one more than fits), with a few hits in between
        let fill = limit + rng.below(2);
        for _ in 0..fill {
            let Some(k) = fresh.pop() else { break };
            ops.push(Op::Call(k));
            recent.push(k);
            if rng.below(4) == 0 {
                ops.push(Op::Call(recent[rng.below(recent.len())]));
            }
        }
        // invalidate a subset of the keys stored last (usually 2, sometimes all of them or one)
        let tail: Vec<u32> = recent.iter().rev().take(limit).copied().collect();
        let want = match rng.below(6) {
            0 => 1,
            1 => tail.len(),
            _ => 2.min(tail.len()),
        };
        let mut pick = tail.clone();
        rng.shuffle(&mut pick);
        let mut mask: u16 = pick.iter().take(want).fold(0, |m, k| m | (1 << k));
        if rng.below(5) == 0 {
            // some keys that are not resident as well
            mask |= (rng.next() >> 40) as u16 & WIDE_MASK;
        }
        ops.push(match rng.below(10) {
            0..=5 => Op::With(mask),
            6..=8 => Op::AllWith(mask),
            _ => Op::Cache,
        });
        // refill past the limit with fresh keys: nothing but calls from here to the next round / the final listing
        let refill = want + 1 + rng.below(3);
        for _ in 0..refill {
            let k = match fresh.pop() {
                Some(k) => k,
                None => rng.below(WIDE_ALPHABET as usize) as u32,
            };
            ops.push(Op::Call(k));
            recent.push(k);
            if rng.below(5) == 0 {
                ops.push(Op::Call(recent[rng.below(recent.len())]));
            }
        }
    }
    ops.truncate(max_ops);
    ops
}

/// Family R (both passes): fill -> say "stale" and call cached keys (they are re-stored while cached) -> say "valid"
/// -> a few hits -> one invalidation (by tag, by name, conditional) -> call the earlier keys again. One in three is an
/// unstructured mix.
fn gen_restore(rng: &mut Rng, alphabet: u32, max_ops: usize) -> Vec<Op> {
    let max_ops = max_ops.max(1);
    let full: u16 = ((1u32 << alphabet) - 1) as u16;
    let mut ops = Vec::new();
    if rng.below(3) == 0 {
        let n = 1 + rng.below(max_ops);
        let span = [3usize, 4, alphabet as usize][rng.below(3)];
        for _ in 0..n {
            let mask = (rng.next() >> 40) as u16 & full;
            ops.push(match rng.below(100) {
                0..=59 => Op::Call(rng.below(span) as u32),
                60..=71 => Op::Stale(rng.below(2) == 0),
                72..=79 => Op::With(mask),
                80..=83 => Op::AllWith(mask),
                84..=91 => Op::Cache,
                _ => Op::ByTag,
            });
        }
        return ops;
    }
    let mut recent: Vec<u32> = Vec::new();
    while ops.len() < max_ops {
        for _ in 0..2 + rng.below(3) {
            let k = rng.below(alphabet as usize) as u32;
            ops.push(Op::Call(k));
            recent.push(k);
        }
        ops.push(Op::Stale(true));
        for _ in 0..1 + rng.below(3) {
            ops.push(Op::Call(recent[rng.below(recent.len())]));
        }
        if rng.below(4) == 0 {
            let k = rng.below(alphabet as usize) as u32;
            ops.push(Op::Call(k));
            recent.push(k);
        }
        let still_stale = rng.below(5) == 0;
        if !still_stale {
            ops.push(Op::Stale(false));
        }
        for _ in 0..rng.below(3) {
            ops.push(Op::Call(recent[rng.below(recent.len())]));
        }
        let subset: u16 = recent.iter().filter(|_| rng.below(2) == 0).fold(0, |m, k| m | (1 << k));
        ops.push(match rng.below(10) {
            0..=3 => Op::ByTag,
            4..=6 => Op::Cache,
            7..=8 => Op::With(subset),
            _ => Op::AllWith(subset),
        });
        if still_stale && rng.below(2) == 0 {
            ops.push(Op::Stale(false));
        }
        for _ in 0..1 + rng.below(3) {
            ops.push(Op::Call(recent[rng.below(recent.len())]));
        }
    }
    ops.truncate(max_ops);
    ops
}

fn gen_history(rng: &mut Rng, cfg: &Cfg, control: bool, max_ops: usize) -> Vec<Op> {
    match (cfg.family, cfg.pass, control) {
        (Family::Restore, _, true) => gen_restore_control(rng, cfg.alphabet(), max_ops),
        (Family::Restore, _, false) => gen_restore(rng, cfg.alphabet(), max_ops),
        (_, _, true) => gen_control(rng, cfg.alphabet(), max_ops),
        (_, Pass::Dense, false) => gen_ops(rng, max_ops),
        (_, Pass::Sparse, false) => gen_sparse(rng, cfg.limit.unwrap_or(3), max_ops),
    }
}

// ------------------------------------------------------------------------------------------------
// the dense model
// ------------------------------------------------------------------------------------------------
#[derive(Clone, Debug, Default)]
struct Model {
    k: BTreeSet<u32>,
    /// FIFO: store order; LRU (ARC, TLRU): recency order, least recently used first
    order: Vec<u32>,
    /// successful lookups per resident key since it was stored
    hits: BTreeMap<u32, u64>,
    /// false after a re-synchronisation from an observation that the model could not explain: order and hit
    /// counts of the survivors are then unknown, so victims are not judged until the cache has been emptied
    exact: bool,
}
impl Model {
    fn empty() -> Model {
        Model { exact: true, ..Model::default() }
    }
    fn drop_key(&mut self, k: u32) {
        self.k.remove(&k);
        self.order.retain(|x| *x != k);
        self.hits.remove(&k);
    }
    /// Also the effect of a RE-store of a resident key: newest in the queue, 0 hits.
    fn store(&mut self, k: u32) {
        self.drop_key(k);
        self.k.insert(k);
        self.order.push(k);
        self.hits.insert(k, 0);
    }
    fn hit(&mut self, pol: Pol, k: u32) {
        if matches!(pol, Pol::Lru | Pol::Arc | Pol::Tlru) {
            self.order.retain(|x| *x != k);
            self.order.push(k);
        }
        if matches!(pol, Pol::Lfu | Pol::Arc | Pol::Tlru) {
            *self.hits.entry(k).or_insert(0) += 1;
        }
    }
    /// Adopt an observation the model cannot explain.
    fn resync(&mut self, obs: &BTreeSet<String>) {
        let seen: BTreeSet<u32> = obs.iter().filter_map(|s| s.parse::<u32>().ok()).collect();
        let gone: Vec<u32> = self.k.iter().copied().filter(|k| !seen.contains(k)).collect();
        for k in gone {
            self.drop_key(k);
        }
        for k in &seen {
            if !self.k.contains(k) {
                self.store(*k);
            }
        }
        self.exact = self.k.is_empty();
    }
}
fn strs(k: &BTreeSet<u32>) -> BTreeSet<String> {
    k.iter().map(|x| x.to_string()).collect()
}
fn parse_keys(obs: &BTreeSet<String>) -> BTreeSet<u32> {
    obs.iter().filter_map(|s| s.parse::<u32>().ok()).collect()
}

/// FIFO / LRU: the victims of a store of the non-resident key `k` (not too large) into a cache whose queue is
/// `order` (oldest first): the memory loop pops the front while the total with the new value exceeds M, then the
/// entry limit pops one more if the survivors and the new key are more than `limit`. Same result in both flavours.
fn fifo_victims(cfg: &Cfg, order: &[u32], k: u32) -> Vec<u32> {
    let mut q: Vec<u32> = order.to_vec();
    let mut out = Vec::new();
    let total = |q: &[u32]| q.iter().map(|x| cfg.size(*x)).sum::<usize>().saturating_add(cfg.size(k));
    while !q.is_empty() && total(&q) > cfg.mem() {
        out.push(q.remove(0));
    }
    if !q.is_empty() && q.len() + 1 > cfg.lim() {
        out.push(q.remove(0));
    }
    out
}

// ------------------------------------------------------------------------------------------------
// what both passes share
// ------------------------------------------------------------------------------------------------
#[derive(Debug, Clone)]
struct Breach {
    prop: &'static str,
    what: String,
}
struct Ctx {
    prop: Option<String>,
    /// `--selftest-oracle`: the ORACLE (not the library) is deliberately wrong: it expects a hit to run the body.
    selftest: bool,
}
impl Ctx {
    fn counts(&self, prop: &str) -> bool {
        prop == "HARNESS" || self.prop.as_deref().map_or(true, |p| p == prop)
    }
}

/// calls of decorated functions and invalidation requests issued by the histories
static OPS: AtomicUsize = AtomicUsize::new(0);
/// caches that have been used (their check callbacks are registered): a lower bound for `invalidate_all_with`
static WARMED: AtomicUsize = AtomicUsize::new(0);

fn observe(cfg: &Cfg) -> Result<BTreeSet<String>, Breach> {
    list_keys(cfg.name).ok_or_else(|| Breach {
        prop: "C13",
        what: format!("invalidate_with({:?}, |_| false) returned false although the cache has been used", cfg.name),
    })
}

/// The values: what the last execution for each key returned (= what any entry of that key must hold), which keys
/// were refreshed while cached since their last ordinary store, the current verdict of `invalidate_on`.
#[derive(Default)]
struct Vals {
    val: BTreeMap<u32, u64>,
    refreshed: BTreeSet<u32>,
    stale: bool,
}

/// Judges the value of one call (both passes): an execution returns the function's value (C01), a served call returns
/// what the LAST execution for that key returned (C11 if the key had been refreshed, C01 otherwise).
fn judge_value(cfg: &Cfg, vals: &mut Vals, k: u32, ran: u64, value: u64, runs_after: u64, out: &mut Vec<Breach>) {
    if ran >= 1 {
        let fresh = match cfg.family {
            Family::Restore => k as u64 * 1000 + runs_after,
            _ => twin(k),
        };
        if value != fresh {
            out.push(Breach { prop: "C01", what: format!("the body ran and the call returned {value}, the function's value is {fresh}") });
        }
        vals.val.insert(k, fresh);
        if vals.stale && cfg.family == Family::Restore {
            vals.refreshed.insert(k);
        } else {
            vals.refreshed.remove(&k);
        }
    } else {
        let want = vals.val.get(&k).copied().unwrap_or_else(|| twin(k));
        if value != want {
            let (prop, why) = if vals.refreshed.contains(&k) {
                ("C11", "the value of the last refresh")
            } else {
                ("C01", "what the last execution for this key returned")
            };
            out.push(Breach { prop, what: format!("key {k} was served {value}, expected {want} ({why})") });
        }
    }
}

/// The property a wrong CONTENT of the right size is attributed to: only a wrong victim explains it.
fn victim_prop(cfg: &Cfg) -> &'static str {
    match cfg.policy {
        Pol::Fifo | Pol::Lru => "C07",
        Pol::Lfu | Pol::Arc | Pol::Tlru => "C08",
        Pol::Random => cfg.cap_prop(),
    }
}

/// Bounds that hold at every observation: entry limit (C04), byte bound and no oversized value (C05).
fn judge_bounds(cfg: &Cfg, obs: &BTreeSet<String>, when: &str, out: &mut Vec<Breach>) {
    if obs.len() > cfg.lim() {
        out.push(Breach { prop: "C04", what: format!("{when}: {} keys {obs:?}, limit {}", obs.len(), cfg.lim()) });
    }
    if let Some(m) = cfg.max_memory {
        let keys = parse_keys(obs);
        let bytes = cfg.bytes(&keys);
        if bytes > m {
            let sizes: Vec<(u32, usize)> = keys.iter().map(|k| (*k, cfg.size(*k))).collect();
            out.push(Breach { prop: "C05", what: format!("{when}: the cached values take {bytes} bytes (key, size: {sizes:?}), max_memory is {m}") });
        }
        for k in keys {
            if cfg.too_large(k) {
                out.push(Breach { prop: "C05", what: format!("{when}: key {k} is cached, its value alone takes {} bytes, max_memory is {m}", cfg.size(k)) });
            }
        }
    }
}

/// The C13 twins of capacity / victim breaches (see `step`). Dense pass: per kind of breach (the control must not have
/// shown the same kind). Sparse pass (`strict`): an unexplained hit or miss is reported under several kinds at once
/// (it cannot tell a lost entry from a wrong victim), so ANY capacity / victim breach in the control blames the engine.
fn add_twins(dirty: bool, control_failed: &BTreeSet<&'static str>, strict: bool, out: &mut Vec<Breach>) {
    if !dirty || (strict && !control_failed.is_empty()) {
        return;
    }
    let twins: Vec<Breach> = out
        .iter()
        .filter(|b| is_capacity_prop(b.prop) && !control_failed.contains(b.prop))
        .map(|b| Breach {
            prop: "C13",
            what: format!("{} [entries of this cache were invalidated earlier: limits and eviction order must behave as if they had never been stored]", b.what),
        })
        .collect();
    out.extend(twins);
}
fn is_capacity_prop(p: &str) -> bool {
    matches!(p, "C04" | "C05" | "C07" | "C08")
}

/// Runs one operation (not `SetStale`) on the real cache. `record`: the conditional invalidations report every key
/// their predicate is asked about. Returns (value of a call, answer of an invalidation) or the panic text.
fn execute(cfg: &Cfg, op: Op, asked: Option<&Mutex<Vec<String>>>) -> Result<(u64, usize), String> {
    let name = cfg.name;
    let record = |key: &str| {
        if let Some(a) = asked {
            a.lock().unwrap_or_else(|e| e.into_inner()).push(key.to_string());
        }
    };
    catch_unwind(AssertUnwindSafe(|| match op {
        Op::Call(k) => ((cfg.call)(k), 0usize),
        Op::With(mask) => (
            0,
            cachelito_core::invalidate_with(name, |key| {
                record(key);
                in_mask(mask, key)
            }) as usize,
        ),
        Op::AllWith(mask) => (
            0,
            cachelito_core::invalidate_all_with(|cache, key| {
                if cache != name {
                    return false;
                }
                record(key);
                in_mask(mask, key)
            }),
        ),
        Op::Cache => (0, cachelito_core::invalidate_cache(name) as usize),
        Op::ByTag => (0, cachelito_core::invalidate_by_tag(cfg.tag)),
        Op::Stale(_) => (0, 0),
    }))
    .map_err(|p| panic_text(p.as_ref()))
}

// ------------------------------------------------------------------------------------------------
// the dense step oracle
// ------------------------------------------------------------------------------------------------
/// Runs one operation on the real cache, lists the keys, and judges. Returns every clause that failed (in order of
/// importance); the model is advanced when nothing failed and re-synchronised otherwise.
///
/// Attribution of capacity and victim breaches (C04 / C05 / C07 / C08) on a store: once an invalidation has removed an
/// entry of this cache (`dirty`), such a breach is ALSO a breach of C13 ("after any invalidation, limits, eviction
/// order and memory totals behave as if the removed entries had never been stored") and is reported under both, so that
/// `--prop C13` sees the damage an invalidation callback did to the queue (it only shows at a later store). Not,
/// however, if the same kind of breach already showed in the CONTROL history of this cache (no invalidation before or
/// during it: then the engine is at fault, not the invalidation).
fn step(cfg: &Cfg, ctx: &Ctx, st: &mut State, op: Op) -> Vec<Breach> {
    let State { model: m, vals, dirty, control_failed, .. } = st;
    let mut out: Vec<Breach> = Vec::new();
    let name = cfg.name;
    let before = instr::runs(name);
    let done = execute(cfg, op, None);
    let runs_after = instr::runs(name);
    let ran = runs_after - before;
    let (value, answer) = match done {
        Ok(x) => x,
        Err(msg) => {
            let prop = if msg.starts_with("harness:") { "HARNESS" } else { "C16" };
            out.push(Breach { prop, what: format!("the operation panicked: {msg}") });
            (0, 0)
        }
    };
    let panicked = !out.is_empty();
    let obs = match catch_unwind(AssertUnwindSafe(|| observe(cfg))) {
        Ok(Ok(o)) => o,
        Ok(Err(b)) => {
            out.push(b);
            m.resync(&BTreeSet::new());
            return out;
        }
        Err(p) => {
            out.push(Breach { prop: "C16", what: format!("listing the keys after the operation panicked: {}", panic_text(p.as_ref())) });
            m.resync(&BTreeSet::new());
            return out;
        }
    };
    let held = strs(&m.k);

    if !panicked {
        match op {
            Op::Call(k) => {
                let resident = m.k.contains(&k);
                let refresh = resident && vals.stale && cfg.family == Family::Restore;
                let want_runs: u64 = if resident && !refresh && !ctx.selftest { 0 } else { 1 };
                if ran != want_runs {
                    let (prop, why) = if refresh {
                        ("C11", "resident, and invalidate_on says stale")
                    } else if resident {
                        ("C03", "resident")
                    } else if cfg.too_large(k) {
                        ("C05", "never cached: its value alone exceeds max_memory")
                    } else {
                        ("C03", "not resident")
                    };
                    out.push(Breach { prop, what: format!("key {k} is {why} (keys {held:?}): the body ran {ran} times, expected {want_runs}") });
                }
                judge_value(cfg, vals, k, ran, value, runs_after, &mut out);
                if resident {
                    if obs != held {
                        let what = if ran >= 1 { "a re-store of the cached key" } else { "a hit on" };
                        out.push(Breach { prop: "C04", what: format!("{what} {k} changed the resident keys: {obs:?}, expected {held:?}") });
                    }
                    m.hit(cfg.policy, k);
                    if ran >= 1 {
                        // stored again while cached: newest in the queue, 0 hits (both flavours, every policy)
                        let exact = m.exact;
                        m.store(k);
                        m.exact = exact;
                    }
                } else {
                    judge_store(cfg, m, k, &obs, &mut out);
                }
                add_twins(*dirty, control_failed, false, &mut out);
            }
            Op::With(mask) | Op::AllWith(mask) => {
                let what = match op {
                    Op::With(_) => "invalidate_with",
                    _ => "invalidate_all_with",
                };
                let floor = match op {
                    Op::With(_) => 1,
                    _ => WARMED.load(Ordering::Relaxed),
                };
                if answer < floor {
                    let want = if floor == 1 { "true".to_string() } else { format!("at least {floor}") };
                    out.push(Breach { prop: "C13", what: format!("{what} answered {answer}, expected {want} ({floor} caches have been used)") });
                }
                let want: BTreeSet<u32> = m.k.iter().copied().filter(|k| mask & (1 << k) == 0).collect();
                let want_s = strs(&want);
                if want.len() < m.k.len() {
                    *dirty = true;
                }
                if obs != want_s {
                    out.push(Breach { prop: "C13", what: format!("{what}(key in {:?}) on {held:?}: keys {obs:?}, expected {want_s:?}", mask_keys(mask)) });
                } else {
                    for k in mask_keys(mask) {
                        m.drop_key(k);
                    }
                }
            }
            Op::Cache | Op::ByTag => {
                let what = if op == Op::Cache { format!("invalidate_cache({name:?})") } else { format!("invalidate_by_tag({:?})", cfg.tag) };
                if answer != 1 {
                    let got = if op == Op::Cache { (answer == 1).to_string() } else { answer.to_string() };
                    let want = if op == Op::Cache { "true" } else { "1" };
                    out.push(Breach { prop: "C12", what: format!("{what} answered {got}, expected {want}: the cache declares the tag and has been used") });
                }
                if !m.k.is_empty() {
                    *dirty = true;
                }
                if !obs.is_empty() {
                    let refreshed: Vec<u32> = parse_keys(&obs).into_iter().filter(|k| vals.refreshed.contains(k)).collect();
                    out.push(Breach {
                        prop: "C12",
                        what: format!("{what} on {held:?}: keys {obs:?} are still cached, expected none (of these, refreshed while cached: {refreshed:?})"),
                    });
                } else {
                    *m = Model::empty();
                }
            }
            Op::Stale(_) => {}
        }
    }
    judge_bounds(cfg, &obs, "after the operation", &mut out);
    if !out.is_empty() {
        m.resync(&obs);
    } else if m.k.is_empty() {
        m.exact = true;
    }
    out
}

/// A miss on `k` (not resident in the model) ran the body and the wrapper stored the result: `obs` is what the cache
/// lists afterwards.
fn judge_store(cfg: &Cfg, m: &mut Model, k: u32, obs: &BTreeSet<String>, out: &mut Vec<Breach>) {
    let held = strs(&m.k);
    let cap = cfg.cap_prop();
    let (limit, mm) = (cfg.lim(), cfg.mem());
    if cfg.too_large(k) {
        if *obs != held {
            out.push(Breach {
                prop: "C05",
                what: format!(
                    "the value of key {k} alone takes {} bytes (max_memory {mm}): it must not be cached and must displace nothing: keys {obs:?}, expected {held:?}",
                    cfg.size(k)
                ),
            });
        }
        return;
    }
    let mut plus = m.k.clone();
    plus.insert(k);
    let plus_s = strs(&plus);
    let foreign: Vec<&String> = obs.difference(&plus_s).collect();
    if !foreign.is_empty() {
        out.push(Breach { prop: "C04", what: format!("store of {k} into {held:?}: keys {obs:?}: {foreign:?} come from nowhere") });
        return;
    }
    let obs_k = parse_keys(obs);
    let victims: Vec<u32> = plus.difference(&obs_k).copied().collect();
    let sizes = |keys: &BTreeSet<u32>| -> String {
        if cfg.max_memory.is_some() {
            format!(" ({} of {mm} bytes)", cfg.bytes(keys))
        } else {
            String::new()
        }
    };
    let fits = plus.len() <= limit && cfg.bytes(&plus) <= mm;
    let before = out.len();
    if fits {
        if !victims.is_empty() {
            out.push(Breach {
                prop: cap,
                what: format!(
                    "store of {k} into {held:?}: everything fits ({} keys, limit {}{}), nothing to evict: keys {obs:?}, {victims:?} are gone",
                    plus.len(),
                    cfg.limit_text(),
                    sizes(&plus)
                ),
            });
        }
    } else if victims.is_empty() {
        // the bounds check reports it (over the limit / over max_memory)
    } else {
        // eviction stops as soon as everything fits: the last victim, whichever it was, was needed
        let needed = victims.iter().any(|v| cfg.bytes(&obs_k).saturating_add(cfg.size(*v)) > mm || obs_k.len() + 1 > limit);
        if !needed {
            out.push(Breach {
                prop: cap,
                what: format!(
                    "store of {k} into the full cache {held:?} (limit {}{}): keys {obs:?}{}: {victims:?} were evicted, more than needed (expected {plus_s:?} minus just enough victims)",
                    cfg.limit_text(),
                    sizes(&plus),
                    sizes(&obs_k)
                ),
            });
        }
    }
    if out.len() == before && obs_k.len() <= limit && cfg.bytes(&obs_k) <= mm {
        let n0 = out.len();
        judge_victims(cfg, m, k, &victims, &obs_k, out);
        if cfg.max_memory.is_some() {
            // C05 itself says "entries are evicted in policy order": a wrong victim under a memory bound breaks C05 as well
            let twins: Vec<Breach> = out[n0..]
                .iter()
                .filter(|b| b.prop == "C07" || b.prop == "C08")
                .map(|b| Breach { prop: "C05", what: format!("{} [max_memory is set: C05 requires eviction in policy order]", b.what) })
                .collect();
            out.extend(twins);
        }
        m.store(k);
        for v in &victims {
            m.drop_key(*v);
        }
    }
}

/// `victims` were evicted by the store of `k`, `survivors` are resident afterwards.
fn judge_victims(cfg: &Cfg, m: &Model, k: u32, victims: &[u32], survivors: &BTreeSet<u32>, out: &mut Vec<Breach>) {
    if victims.is_empty() {
        return;
    }
    let held = strs(&m.k);
    let hits = |x: &u32| m.hits.get(x).copied().unwrap_or(0);
    let pol = cfg.policy.name();
    let own = victims.contains(&k);
    if cfg.flavour == Flavour::Async && own {
        out.push(Breach {
            prop: victim_prop(cfg),
            what: format!("{pol} (async): the store of {k} into {held:?} evicted the new key itself; the victims are chosen among the resident keys before the new key is queued"),
        });
        return;
    }
    match cfg.policy {
        Pol::Fifo | Pol::Lru => {
            let rule = if cfg.policy == Pol::Fifo { "oldest store first" } else { "least recently used first" };
            if own {
                out.push(Breach { prop: "C07", what: format!("{pol}: the store of {k} into {held:?} evicted the new key itself") });
            } else if m.exact {
                let want = fifo_victims(cfg, &m.order, k);
                let want_set: BTreeSet<u32> = want.iter().copied().collect();
                let got_set: BTreeSet<u32> = victims.iter().copied().collect();
                if want_set != got_set {
                    out.push(Breach { prop: "C07", what: format!("{pol}: the store of {k} evicted {victims:?}, expected {want:?} ({rule}; order: {:?})", m.order) });
                }
            }
        }
        Pol::Lfu => {
            if !m.exact {
                return;
            }
            // every victim was a minimum among what was left: no survivor has fewer hits than a victim. sync: the new
            // key (0 hits) is a candidate as well
            for v in victims {
                let hv = if *v == k { 0 } else { hits(v) };
                for s in survivors {
                    if *s == k && cfg.flavour == Flavour::Async {
                        continue;
                    }
                    let hs = if *s == k { 0 } else { hits(s) };
                    if hv > hs {
                        out.push(Breach {
                            prop: "C08",
                            what: format!(
                                "LFU ({}): the store of {k} evicted {v} with {hv} hits and kept {s} with {hs} hits (hits {:?}; the new key has 0 and {})",
                                cfg.flavour.name(),
                                m.hits,
                                if cfg.flavour == Flavour::Async { "is no candidate" } else { "is a candidate" }
                            ),
                        });
                        return;
                    }
                }
            }
        }
        // ARC / TLRU / Random: any victims (sync: the new key included)
        Pol::Arc | Pol::Tlru | Pol::Random => {}
    }
}

// ------------------------------------------------------------------------------------------------
// the sparse pass: model and oracle
// ------------------------------------------------------------------------------------------------
/// What is known about the resident keys BETWEEN two observations. Driven by the run counter alone: a call that ran the
/// body was a miss (or, family R while stale, a refresh), one that did not was a hit.
///
/// * `n = (lo, hi)`: bounds on the number of resident keys. Entry limit only: exact (`lo == hi`): a miss on a cache that
///   is not full adds one, a miss on a full cache leaves `limit` (C04: "the cache holds min(N, number of distinct keys
///   stored) entries"). With max_memory a store may evict several keys: only `hi = min(limit, hi + 1)` and
///   `lo = |sure|` are kept unless the victims are known exactly. Observations re-establish `lo == hi`.
/// * `sure` (certainly resident) and `maybe` (possibly resident), `sure <= resident <= maybe`. They coincide (the set
///   is exact) as long as every victim was unambiguous: FIFO / LRU with a known queue order (also under max_memory:
///   `fifo_victims`), LFU (entry limit only) with a unique minimum (sync: no resident with 0 hits => the NEW key is the
///   victim). When the victims are ambiguous (LFU ties, ARC, TLRU, Random, max_memory under those, or a queue order
///   that is not known any more) every candidate leaves `sure`; the candidates are the residents, in the sync flavour
///   under LFU / ARC / TLRU / Random also the new key (it is stored before the victims are chosen), in the async
///   flavour never: there the key just stored is certainly resident. A store that certainly fits next to everything
///   that is possibly resident (`hi + 1 <= limit` and the bytes of `maybe` plus the new value `<= M`) evicts nothing.
/// * every hit / miss on a key of `maybe - sure` is information and sharpens the sets (not while family R is stale:
///   then a refresh and a miss look the same).
#[derive(Clone, Debug, Default)]
struct Sparse {
    /// None: unknown after a call the model could not explain (a breach has been reported); until the next observation
    n: Option<(usize, usize)>,
    sure: BTreeSet<u32>,
    maybe: BTreeSet<u32>,
    /// `order` / `hits` describe the resident keys exactly (implies `sure == maybe`): true from an empty cache on for
    /// as long as nothing ambiguous happens
    meta: bool,
    order: Vec<u32>,
    hits: BTreeMap<u32, u64>,
    /// keys removed by an invalidation and not stored since, with the property their resurrection is attributed to
    gone: BTreeMap<u32, &'static str>,
}
impl Sparse {
    fn empty() -> Sparse {
        Sparse { n: Some((0, 0)), meta: true, ..Sparse::default() }
    }
    fn lose(&mut self) {
        self.n = None;
        self.meta = false;
        self.sure.clear();
        self.maybe = (0..WIDE_ALPHABET).collect();
        self.order.clear();
        self.hits.clear();
    }
    /// The set that was just observed (or adopted after a breach).
    fn adopt(&mut self, set: &BTreeSet<u32>, keep_meta: bool) {
        self.n = Some((set.len(), set.len()));
        self.sure = set.clone();
        self.maybe = set.clone();
        if keep_meta && self.meta {
            self.order.retain(|k| set.contains(k));
            self.hits.retain(|k, _| set.contains(k));
        } else {
            self.meta = set.is_empty();
            self.order.clear();
            self.hits.clear();
        }
    }
    /// Tightens bounds and sets against each other. `false`: they contradict each other.
    fn sharpen(&mut self) -> bool {
        let Some((lo, hi)) = self.n else { return true };
        let lo = lo.max(self.sure.len());
        let hi = hi.min(self.maybe.len());
        if lo > hi {
            return false;
        }
        if self.sure.len() == hi {
            self.maybe = self.sure.clone();
        } else if self.maybe.len() == lo {
            self.sure = self.maybe.clone();
        }
        self.n = Some((lo, hi));
        true
    }
    fn is_exact(&self) -> bool {
        self.n.is_some() && self.sure == self.maybe
    }
    fn describe(&self) -> String {
        match self.n {
            Some(_) if self.sure == self.maybe => format!("exactly {:?}", self.sure),
            Some((lo, hi)) if lo == hi => format!("{lo} keys, certainly {:?}, possibly {:?}", self.sure, self.maybe),
            Some((lo, hi)) => format!("{lo} to {hi} keys, certainly {:?}, possibly {:?}", self.sure, self.maybe),
            None => "unknown".to_string(),
        }
    }
    fn forget(&mut self, k: u32) {
        self.sure.remove(&k);
        self.maybe.remove(&k);
        self.order.retain(|x| *x != k);
        self.hits.remove(&k);
    }
    /// `k` is resident now, as the newest store with 0 hits (also the effect of a re-store of a resident key).
    fn add(&mut self, k: u32) {
        self.sure.insert(k);
        self.maybe.insert(k);
        if self.meta {
            self.order.retain(|x| *x != k);
            self.order.push(k);
            self.hits.insert(k, 0);
        }
    }
    fn blur(&mut self) {
        self.meta = false;
        self.order.clear();
        self.hits.clear();
    }
    /// A miss on `k` (known not to be resident) stored it.
    fn store(&mut self, cfg: &Cfg, k: u32) {
        self.gone.remove(&k);
        if cfg.too_large(k) {
            return;
        }
        let Some((lo, hi)) = self.n else { return };
        let (limit, mm) = (cfg.lim(), cfg.mem());
        let sync = cfg.flavour == Flavour::Global;
        // nothing can be evicted
        if hi + 1 <= limit && cfg.bytes(&self.maybe).saturating_add(cfg.size(k)) <= mm {
            self.n = Some((lo + 1, hi + 1));
            self.add(k);
            return;
        }
        let exact = self.is_exact() && self.meta;
        let hits_of = |m: &Sparse, x: &u32| m.hits.get(x).copied().unwrap_or(0);
        if exact {
            // Some(victims): the only possible outcome
            let victims: Option<Vec<u32>> = match cfg.policy {
                Pol::Fifo | Pol::Lru => Some(fifo_victims(cfg, &self.order, k)),
                Pol::Lfu if cfg.max_memory.is_none() => {
                    if sync {
                        // the new key (0 hits) is a candidate: unambiguous only if no resident ties with it
                        if self.sure.iter().any(|x| hits_of(self, x) == 0) {
                            None
                        } else {
                            Some(vec![k])
                        }
                    } else {
                        let min = self.sure.iter().map(|x| hits_of(self, x)).min().unwrap_or(0);
                        let ties: Vec<u32> = self.sure.iter().copied().filter(|x| hits_of(self, x) == min).collect();
                        if ties.len() == 1 {
                            Some(ties)
                        } else {
                            None
                        }
                    }
                }
                _ => None,
            };
            if let Some(vs) = victims {
                if vs != [k] {
                    for v in vs {
                        self.forget(v);
                    }
                    self.add(k);
                }
                self.n = Some((self.sure.len(), self.sure.len()));
                return;
            }
        }
        let new_key_is_candidate = sync && !matches!(cfg.policy, Pol::Fifo | Pol::Lru);
        // which residents can be victims: under LFU with known hit counts (entry limit only) the ties at the minimum
        let candidates: BTreeSet<u32> = if exact && cfg.policy == Pol::Lfu && cfg.max_memory.is_none() {
            let min = if sync { 0 } else { self.sure.iter().map(|x| hits_of(self, x)).min().unwrap_or(0) };
            self.sure.iter().copied().filter(|x| hits_of(self, x) == min).collect()
        } else {
            self.maybe.clone()
        };
        for c in &candidates {
            self.sure.remove(c);
        }
        self.maybe.insert(k);
        if !new_key_is_candidate {
            self.sure.insert(k);
        }
        self.blur();
        let new_lo = if cfg.max_memory.is_none() { limit.min(lo + 1) } else { 0 };
        self.n = Some((new_lo, limit.min(hi + 1)));
        self.sharpen();
    }
    /// Family R while stale, `k` possibly but not certainly resident, the body ran: either the cached entry was
    /// refreshed (nothing else changes) or `k` was not resident and has been stored (with whatever that evicts).
    fn refresh_or_store(&mut self, cfg: &Cfg, k: u32) {
        self.gone.remove(&k);
        let Some((lo, hi)) = self.n else { return };
        let limit = cfg.lim();
        let sync = cfg.flavour == Flavour::Global;
        let may_evict = hi + 1 > limit;
        if may_evict {
            self.sure.clear();
        }
        self.maybe.insert(k);
        if !(may_evict && sync && !matches!(cfg.policy, Pol::Fifo | Pol::Lru)) {
            self.sure.insert(k);
        }
        self.blur();
        self.n = Some((lo, limit.min(hi + 1)));
        self.sharpen();
    }
    fn hit(&mut self, pol: Pol, k: u32) {
        if !self.meta {
            return;
        }
        if matches!(pol, Pol::Lru | Pol::Arc | Pol::Tlru) {
            self.order.retain(|x| *x != k);
            self.order.push(k);
        }
        if matches!(pol, Pol::Lfu | Pol::Arc | Pol::Tlru) {
            *self.hits.entry(k).or_insert(0) += 1;
        }
    }
}

/// An observation point of the sparse pass: `obs` are the resident keys, `when` says where they were seen.
fn judge_observation(cfg: &Cfg, m: &Sparse, obs: &BTreeSet<String>, when: &str, out: &mut Vec<Breach>) {
    judge_bounds(cfg, obs, when, out);
    let Some((lo, hi)) = m.n else { return };
    let size_ok = obs.len() >= lo && obs.len() <= hi;
    if !size_ok {
        let want = if lo == hi { format!("{lo}") } else { format!("{lo} to {hi}") };
        out.push(Breach {
            prop: "C04",
            what: format!(
                "{when}: {} keys {obs:?}, expected {want} (limit {}: what the stores since the last observation add up to); modelled: {}",
                obs.len(),
                cfg.limit_text(),
                m.describe()
            ),
        });
    }
    let content_prop = if size_ok && lo == hi && cfg.max_memory.is_none() { victim_prop(cfg) } else { cfg.cap_prop() };
    let missing: Vec<u32> = m.sure.iter().copied().filter(|k| !obs.contains(&k.to_string())).collect();
    if !missing.is_empty() {
        out.push(Breach { prop: content_prop, what: format!("{when}: keys {obs:?}: {missing:?} must be resident and are not; modelled: {}", m.describe()) });
    }
    for key in obs {
        let k = key.parse::<u32>().ok();
        if k.map_or(true, |k| !m.maybe.contains(&k)) {
            let invalidated = k.and_then(|k| m.gone.get(&k)).copied();
            let prop = invalidated.unwrap_or(if cfg.max_memory.is_none() && size_ok { content_prop } else { "C04" });
            let why = if invalidated.is_some() { "it was invalidated and has not been stored since" } else { "it cannot be resident" };
            out.push(Breach { prop, what: format!("{when}: keys {obs:?}: {key:?} is listed, {why}; modelled: {}", m.describe()) });
        }
    }
}

/// One operation of the sparse pass: no key listing. Calls are judged by the run counter against the model, the
/// history's own conditional invalidations see the resident keys through their predicate.
fn sparse_step(cfg: &Cfg, ctx: &Ctx, st: &mut State, op: Op) -> Vec<Breach> {
    let State { sparse: m, vals, dirty, control_failed, .. } = st;
    let mut out: Vec<Breach> = Vec::new();
    let name = cfg.name;
    let before = instr::runs(name);
    let asked: Mutex<Vec<String>> = Mutex::new(Vec::new());
    let done = execute(cfg, op, Some(&asked));
    let runs_after = instr::runs(name);
    let ran = runs_after - before;
    let (value, answer) = match done {
        Ok(x) => x,
        Err(msg) => {
            let prop = if msg.starts_with("harness:") { "HARNESS" } else { "C16" };
            out.push(Breach { prop, what: format!("the operation panicked: {msg}") });
            m.lose();
            return out;
        }
    };
    match op {
        Op::Call(k) => {
            judge_value(cfg, vals, k, ran, value, runs_after, &mut out);
            if ran > 1 {
                out.push(Breach { prop: "C03", what: format!("the body ran {ran} times for one call") });
            }
            let hit = ran == 0;
            let stale = vals.stale && cfg.family == Family::Restore;
            let known = m.n.is_some();
            if !known {
                if !hit {
                    m.gone.remove(&k);
                }
            } else if m.sure.contains(&k) {
                let want_runs: u64 = if stale || ctx.selftest { 1 } else { 0 };
                if ran != want_runs {
                    let what = format!("key {k} must be resident (modelled: {}): the body ran {ran} times, expected {want_runs}", m.describe());
                    if stale {
                        out.push(Breach { prop: "C11", what: format!("{what}: invalidate_on says stale, the entry must be refreshed, not served") });
                    } else {
                        out.push(Breach { prop: "C03", what: what.clone() });
                        if !ctx.selftest {
                            // the entry vanished although no store since the last observation can have evicted it
                            out.push(Breach { prop: cfg.cap_prop(), what: format!("{what} (an entry was removed that no overflow accounts for)") });
                            if cfg.policy != Pol::Random && cfg.max_memory.is_none() {
                                out.push(Breach { prop: victim_prop(cfg), what: format!("{what} (a wrong victim was evicted)") });
                            }
                        }
                    }
                    m.lose();
                } else {
                    m.hit(cfg.policy, k);
                    if ran >= 1 {
                        // refreshed while cached: newest store, 0 hits, nothing else changes
                        m.add(k);
                    }
                }
            } else if !m.maybe.contains(&k) {
                if hit {
                    let what = format!("key {k} cannot be resident (modelled: {}): the call was served without running the body", m.describe());
                    if let Some(p) = m.gone.get(&k) {
                        out.push(Breach { prop: *p, what: format!("{what}; the key was invalidated and has not been stored since") });
                    } else if cfg.too_large(k) {
                        out.push(Breach { prop: "C05", what: format!("{what}; its value alone exceeds max_memory and must never be cached") });
                    } else {
                        out.push(Breach { prop: "C04", what: format!("{what} (an entry that an overflow must have evicted is still there)") });
                        if cfg.policy != Pol::Random && cfg.max_memory.is_none() {
                            out.push(Breach { prop: victim_prop(cfg), what: format!("{what} (a wrong victim was evicted)") });
                        }
                    }
                    m.lose();
                } else {
                    m.store(cfg, k);
                }
            } else if stale {
                if hit {
                    out.push(Breach {
                        prop: "C11",
                        what: format!("key {k} (modelled: {}): invalidate_on says stale, so the body had to run whether or not the key was cached; it did not", m.describe()),
                    });
                    m.lose();
                } else {
                    m.refresh_or_store(cfg, k);
                }
            } else {
                // information: the key was / was not resident
                if hit {
                    m.sure.insert(k);
                } else {
                    m.maybe.remove(&k);
                }
                if !m.sharpen() {
                    let (lo, hi) = m.n.unwrap_or((0, 0));
                    out.push(Breach {
                        prop: "C04",
                        what: format!(
                            "the {} on key {k} shows {} resident keys, the stores since the last observation add up to {} (limit {}); certainly {:?}, possibly {:?}",
                            if hit { "hit" } else { "miss" },
                            if hit { format!("at least {}", m.sure.len()) } else { format!("at most {}", m.maybe.len()) },
                            if lo == hi { format!("{lo}") } else { format!("{lo} to {hi}") },
                            cfg.limit_text(),
                            m.sure,
                            m.maybe
                        ),
                    });
                    m.lose();
                } else if hit {
                    m.hit(cfg.policy, k);
                } else {
                    m.store(cfg, k);
                }
            }
            add_twins(*dirty, control_failed, true, &mut out);
        }
        Op::With(mask) | Op::AllWith(mask) => {
            let what = match op {
                Op::With(_) => "invalidate_with",
                _ => "invalidate_all_with",
            };
            let floor = match op {
                Op::With(_) => 1,
                _ => WARMED.load(Ordering::Relaxed),
            };
            if answer < floor {
                out.push(Breach { prop: "C13", what: format!("{what} answered {answer}, expected at least {floor}") });
            }
            let list = asked.into_inner().unwrap_or_else(|e| e.into_inner());
            let obs: BTreeSet<String> = list.iter().cloned().collect();
            if obs.len() != list.len() {
                out.push(Breach { prop: "C13", what: format!("{what}: the predicate was asked about a key more than once: {list:?}") });
            }
            let when = format!("the predicate of {what}(key in {:?}) was asked about the resident keys", mask_keys(mask));
            judge_observation(cfg, m, &obs, &when, &mut out);
            add_twins(*dirty, control_failed, true, &mut out);
            let seen = parse_keys(&obs);
            let consistent = out.is_empty();
            let removed: Vec<u32> = seen.iter().copied().filter(|k| mask & (1 << k) != 0).collect();
            for k in m.maybe.iter().chain(seen.iter()).copied().filter(|k| mask & (1 << k) != 0).collect::<Vec<u32>>() {
                m.gone.insert(k, "C13");
            }
            if !removed.is_empty() {
                *dirty = true;
            }
            let left: BTreeSet<u32> = seen.iter().copied().filter(|k| mask & (1 << k) == 0).collect();
            m.adopt(&left, consistent);
        }
        Op::Cache | Op::ByTag => {
            if answer != 1 {
                let what = if op == Op::Cache { format!("invalidate_cache({name:?}) answered false") } else { format!("invalidate_by_tag({:?}) returned {answer}, expected 1", cfg.tag) };
                out.push(Breach { prop: "C12", what: format!("{what}: the cache declares the tag and has been used") });
            }
            if m.n != Some((0, 0)) {
                *dirty = true;
            }
            for k in m.maybe.clone() {
                m.gone.insert(k, "C12");
            }
            let gone = std::mem::take(&mut m.gone);
            *m = Sparse::empty();
            m.gone = gone;
        }
        Op::Stale(_) => {}
    }
    out
}

/// The one listing at the end of a history of the sparse pass. Returns the keys it saw.
fn sparse_final(cfg: &Cfg, st: &mut State) -> (BTreeSet<String>, Vec<Breach>) {
    let mut out = Vec::new();
    if !st.used {
        return (BTreeSet::new(), out);
    }
    let obs = match guarded(|| observe(cfg)) {
        Ok(Ok(o)) => o,
        Ok(Err(b)) | Err(b) => {
            out.push(b);
            st.sparse.lose();
            return (BTreeSet::new(), out);
        }
    };
    judge_observation(cfg, &st.sparse, &obs, "final listing", &mut out);
    add_twins(st.dirty, &st.control_failed, true, &mut out);
    let consistent = out.is_empty();
    st.sparse.adopt(&parse_keys(&obs), consistent);
    (obs, out)
}

// ------------------------------------------------------------------------------------------------
// histories
// ------------------------------------------------------------------------------------------------
struct Witness {
    prop: &'static str,
    line: String,
}

/// Everything that has been run on one configuration in this process (bookkeeping damage carries over from one
/// history to the next, so a replay needs all of them).
struct Track {
    cfg: Cfg,
    st: State,
    histories: Vec<Vec<Op>>,
}
struct State {
    /// dense pass
    model: Model,
    /// sparse pass
    sparse: Sparse,
    /// values and the verdict of `invalidate_on` (both passes)
    vals: Vals,
    /// the keys the last history on this cache left behind (seen by its last observation)
    left: BTreeSet<String>,
    /// the function has been called (its callbacks are registered)
    used: bool,
    /// an invalidation has removed at least one entry of this cache (see `step`)
    dirty: bool,
    /// C04 / C05 / C07 / C08 breaches seen in the control history (see `step`)
    control_failed: BTreeSet<&'static str>,
}
impl Track {
    fn new(cfg: Cfg) -> Track {
        Track { cfg, st: State {
                model: Model::empty(),
                sparse: Sparse::empty(),
                vals: Vals::default(),
                left: BTreeSet::new(),
                used: false,
                dirty: false,
                control_failed: BTreeSet::new(),
            }, histories: Vec::new() }
    }
}

fn witness_line(prop: &str, cfg: &Cfg, step: usize, op: &str, what: &str) -> String {
    format!("WITNESS property={prop} {} step={step} {op}: {what}", cfg.text())
}

/// Handles the breaches of one step: the first one that counts becomes the witness, the others are reported on stderr.
fn settle(ctx: &Ctx, cfg: &Cfg, i: usize, op: &str, breaches: Vec<Breach>) -> Result<(), Witness> {
    for b in breaches {
        if b.prop == "HARNESS" {
            return Err(Witness { prop: "HARNESS", line: format!("harness error: {} step={i} {op}: {}", cfg.text(), b.what) });
        }
        if ctx.counts(b.prop) {
            return Err(Witness { prop: b.prop, line: witness_line(b.prop, cfg, i, op, &b.what) });
        }
        eprintln!("not counted (--prop {}): {}", ctx.prop.as_deref().unwrap_or(""), witness_line(b.prop, cfg, i, op, &b.what));
    }
    Ok(())
}

fn guarded<R>(f: impl FnOnce() -> R) -> Result<R, Breach> {
    catch_unwind(AssertUnwindSafe(f)).map_err(|p| Breach { prop: "C16", what: format!("panicked: {}", panic_text(p.as_ref())) })
}

/// Start of a history. The first history on a cache (the control, calls only) starts on the pristine, never used
/// cache: nothing to check, nothing to reset. Every later one: the cache must still hold what the previous history on
/// it left (only operations on OTHER caches ran meanwhile), then it is emptied through `invalidate_with(name, |_| true)`
/// and must list no key.
fn begin(ctx: &Ctx, t: &mut Track) -> Result<(), Witness> {
    let cfg = t.cfg;
    // every history starts with `invalidate_on` saying "valid"
    set_stale(cfg.name, false);
    t.st.vals.stale = false;
    if !t.st.used {
        return Ok(());
    }
    let mut breaches = Vec::new();
    match guarded(|| observe(&cfg)) {
        Ok(Ok(obs)) => {
            if obs != t.st.left {
                breaches.push(Breach {
                    prop: "C13",
                    what: format!("the cache changed while only other caches were operated on: keys {obs:?}, it was left with {:?}", t.st.left),
                });
            }
        }
        Ok(Err(b)) | Err(b) => breaches.push(b),
    }
    settle(ctx, &cfg, 0, "(idle since the previous history)", breaches)?;

    let mut breaches = Vec::new();
    if !t.st.left.is_empty() {
        t.st.dirty = true;
    }
    match guarded(|| cachelito_core::invalidate_with(cfg.name, |_| true)) {
        Ok(true) => {}
        Ok(false) => breaches.push(Breach { prop: "C13", what: format!("invalidate_with({:?}, |_| true) answered false although the cache has been used", cfg.name) }),
        Err(b) => breaches.push(b),
    }
    match guarded(|| observe(&cfg)) {
        Ok(Ok(obs)) => {
            if !obs.is_empty() {
                breaches.push(Breach { prop: "C13", what: format!("invalidate_with({:?}, |_| true): keys {obs:?} are still listed", cfg.name) });
            }
        }
        Ok(Err(b)) | Err(b) => breaches.push(b),
    }
    t.st.model = Model::empty();
    t.st.sparse = Sparse::empty();
    t.st.left = BTreeSet::new();
    settle(ctx, &cfg, 0, "(reset between histories)", breaches)
}

/// One operation of a history, in the pass of the configuration.
fn dispatch(cfg: &Cfg, ctx: &Ctx, st: &mut State, op: Op) -> Vec<Breach> {
    if let Op::Stale(b) = op {
        // no cache operation: only what `invalidate_on` answers from now on (ignored outside family R)
        if cfg.family == Family::Restore {
            set_stale(cfg.name, b);
            st.vals.stale = b;
        }
        return Vec::new();
    }
    if !st.used && op.is_invalidation() {
        // nothing is registered before the first call: the request would (rightly) find no cache
        return Vec::new();
    }
    if !st.used {
        st.used = true;
        WARMED.fetch_add(1, Ordering::Relaxed);
    }
    OPS.fetch_add(1, Ordering::Relaxed);
    match cfg.pass {
        Pass::Dense => step(cfg, ctx, st, op),
        Pass::Sparse => sparse_step(cfg, ctx, st, op),
    }
}

fn run_history(ctx: &Ctx, t: &mut Track, ops: &[Op]) -> Result<(), Witness> {
    // the first history on a cache is its control (see `step`)
    let control = t.histories.is_empty();
    t.histories.push(ops.to_vec());
    note_progress(t, 0, "reset");
    begin(ctx, t)?;
    let cfg = t.cfg;
    let note_control = |st: &mut State, breaches: &[Breach]| {
        if control {
            for b in breaches {
                if is_capacity_prop(b.prop) {
                    st.control_failed.insert(b.prop);
                }
            }
        }
    };
    for (i, op) in ops.iter().enumerate() {
        note_progress(t, i + 1, &op.to_string());
        let breaches = dispatch(&cfg, ctx, &mut t.st, *op);
        note_control(&mut t.st, &breaches);
        settle(ctx, &cfg, i + 1, &op.to_string(), breaches)?;
    }
    match cfg.pass {
        Pass::Dense => t.st.left = strs(&t.st.model.k),
        Pass::Sparse => {
            note_progress(t, ops.len() + 1, "(final listing)");
            let (obs, breaches) = sparse_final(&cfg, &mut t.st);
            t.st.left = obs;
            note_control(&mut t.st, &breaches);
            settle(ctx, &cfg, ops.len() + 1, "(final listing)", breaches)?;
        }
    }
    Ok(())
}

// ------------------------------------------------------------------------------------------------
// witness files, watchdog
// ------------------------------------------------------------------------------------------------
struct RunInfo {
    seed: u64,
    selftest: bool,
    prop: Option<String>,
    out: Option<String>,
}
fn witness_text(line: &str, info: &RunInfo, cfg: &Cfg, histories: &[Vec<Op>]) -> String {
    let mut s = String::new();
    s.push_str(line);
    s.push('\n');
    s.push_str("mode=macro-history\n");
    s.push_str(&format!(
        "family={}\nflavour={}\npolicy={}\nlimit={}\nmemory={}\npass={}\n",
        cfg.family.name(),
        cfg.flavour.name(),
        cfg.policy.name(),
        cfg.limit_text(),
        cfg.max_memory.map_or("none".to_string(), |m| m.to_string()),
        cfg.pass.name()
    ));
    s.push_str(&format!("seed={}\nselftest={}\n", info.seed, info.selftest as u8));
    if let Some(p) = &info.prop {
        s.push_str(&format!("prop={p}\n"));
    }
    s.push_str("# every history run on this cache by the search, oldest first; the last one failed. The first one is the control\n");
    s.push_str("# (no invalidation, on the never used cache); before each later one the cache is emptied with invalidate_with(name, |_| true)\n");
    s.push_str("# (queue damage done by earlier ones carries over). pass=dense: the keys are listed after every operation;\n");
    s.push_str("# pass=sparse: only inside the history's own with: / allwith: operations and once at the end of each history.\n");
    for h in histories {
        s.push_str(&history_line(h));
        s.push('\n');
    }
    s.push_str("replay: cachelito-replay --macro-history-replay <this file>\n");
    s
}
fn write_file(path: &str, text: &str) -> Result<(), String> {
    if let Some(dir) = std::path::Path::new(path).parent() {
        std::fs::create_dir_all(dir).map_err(|e| format!("cannot create {}: {e}", dir.display()))?;
    }
    std::fs::write(path, text).map_err(|e| format!("cannot write {path}: {e}"))
}

struct Progress {
    since: Instant,
    cfg: Cfg,
    step: usize,
    op: String,
    histories: Vec<Vec<Op>>,
}
static PROGRESS: Mutex<Option<Progress>> = Mutex::new(None);
static RUN: Mutex<Option<RunInfo>> = Mutex::new(None);
static FINISHED: AtomicBool = AtomicBool::new(false);

fn note_progress(t: &Track, step: usize, op: &str) {
    let mut g = PROGRESS.lock().unwrap_or_else(|e| e.into_inner());
    match g.as_mut() {
        Some(p) if step > 0 && p.cfg.name == t.cfg.name => {
            p.since = Instant::now();
            p.step = step;
            p.op = op.to_string();
        }
        _ => {
            *g = Some(Progress { since: Instant::now(), cfg: t.cfg, step, op: op.to_string(), histories: t.histories.clone() });
        }
    }
}

fn summary_line(configs: usize, histories: usize) -> String {
    format!("MACRO-HISTORY configs={configs} histories={histories} ops={}", OPS.load(Ordering::Relaxed))
}

/// A single-threaded history that never returns (a lock taken twice, an eviction loop that does not end) is
/// a call that does not run to completion: C16.
fn start_watchdog(configs: usize) {
    std::thread::spawn(move || loop {
        std::thread::sleep(Duration::from_millis(100));
        if FINISHED.load(Ordering::Relaxed) {
            return;
        }
        let g = PROGRESS.lock().unwrap_or_else(|e| e.into_inner());
        if let Some(p) = g.as_ref() {
            if p.since.elapsed() >= Duration::from_secs(HANG_SECS) {
                let what = format!("did not return within {HANG_SECS} s (the operation hangs)");
                let line = witness_line("C16", &p.cfg, p.step, &p.op, &what);
                println!("{line}");
                if let Some(info) = RUN.lock().unwrap_or_else(|e| e.into_inner()).as_ref() {
                    if let Some(path) = &info.out {
                        match write_file(path, &witness_text(&line, info, &p.cfg, &p.histories)) {
                            Ok(()) => println!("REPLAY {path}"),
                            Err(e) => eprintln!("harness error: {e}"),
                        }
                    }
                }
                println!("{}", summary_line(configs, 0));
                std::process::exit(1);
            }
        }
    });
}

// ------------------------------------------------------------------------------------------------
// drivers
// ------------------------------------------------------------------------------------------------
fn usage() -> i32 {
    eprintln!(
        "usage: cachelito-replay --macro-history [--prop Cxx] [--seed N] [--iters N] [--max-ops N] [--pass dense|sparse|both] [--out FILE]\n\
         \x20      cachelito-replay --macro-history-replay FILE"
    );
    2
}

fn finish(rc: i32, configs: usize, histories: usize, seed: u64, started: Instant) -> i32 {
    FINISHED.store(true, Ordering::Relaxed);
    println!("{}", summary_line(configs, histories));
    eprintln!("bounded macro-level history check (not a proof): seed={seed} elapsed={:.2}s", started.elapsed().as_secs_f64());
    rc
}

/// `--macro-history` / `--macro-history-replay`: exit 0 = nothing found, 1 = witness, 2 = harness error.
pub fn main_history(args: &[String]) -> i32 {
    let mut seed = 1u64;
    let mut iters = 60usize;
    let mut max_ops = 14usize;
    let mut out = DEFAULT_OUT.to_string();
    let mut prop: Option<String> = None;
    let mut selftest = false;
    let mut passes = vec![Pass::Dense, Pass::Sparse];
    let mut replay: Option<String> = None;
    // internal: one attempt of a replay under the random policy (see `main_replay`)
    let mut single = false;
    let mut i = 0;
    while i < args.len() {
        let a = args[i].as_str();
        match a {
            "--macro-history" => {
                i += 1;
                continue;
            }
            "--selftest-oracle" => {
                selftest = true;
                i += 1;
                continue;
            }
            "--single" => {
                single = true;
                i += 1;
                continue;
            }
            _ => {}
        }
        let Some(val) = args.get(i + 1) else {
            eprintln!("missing value for {a}");
            return usage();
        };
        let ok = match a {
            "--macro-history-replay" => {
                replay = Some(val.clone());
                true
            }
            "--prop" => {
                prop = Some(val.clone());
                true
            }
            "--seed" => val.parse().map(|x| seed = x).is_ok(),
            "--iters" => val.parse().map(|x| iters = x).is_ok(),
            "--max-ops" => val.parse().map(|x| max_ops = x).is_ok(),
            "--pass" => match val.as_str() {
                "dense" => {
                    passes = vec![Pass::Dense];
                    true
                }
                "sparse" => {
                    passes = vec![Pass::Sparse];
                    true
                }
                "both" => true,
                _ => false,
            },
            "--out" => {
                out = val.clone();
                true
            }
            _ => {
                eprintln!("unknown option {a}");
                return usage();
            }
        };
        if !ok {
            eprintln!("bad value for {a}: {val}");
            return usage();
        }
        i += 2;
    }
    if let Some(path) = replay {
        return main_replay(&path, selftest, single);
    }
    if let Some(p) = &prop {
        if !PROPS.contains(&p.as_str()) {
            eprintln!("no macro-level history clause is attributed to {p} (known: {})", PROPS.join(" "));
            println!("{}", summary_line(0, 0));
            return 0;
        }
    }

    if let Err(e) = check_sizes() {
        eprintln!("harness error: {e}");
        return 2;
    }
    let ctx = Ctx { prop: prop.clone(), selftest };
    *RUN.lock().unwrap_or_else(|e| e.into_inner()) = Some(RunInfo { seed, selftest, prop: prop.clone(), out: Some(out.clone()) });
    let n_cfgs = configs(Pass::Dense).len();
    start_watchdog(n_cfgs);
    let started = Instant::now();
    let mut histories = 0usize;
    // `--iters` histories per configuration in EACH pass; the sparse pass has longer histories (default 14 + 10 = 24)
    for pass in passes {
        let cfgs = configs(pass);
        let pass_max_ops = match pass {
            Pass::Dense => max_ops,
            Pass::Sparse => max_ops + 10,
        };
        let pass_started = Instant::now();
        let ops_before = OPS.load(Ordering::Relaxed);
        let mut tracks: Vec<Track> = cfgs.iter().map(|c| Track::new(*c)).collect();
        // round robin over the configurations: between two histories on one cache, all the others are operated on
        for it in 0..iters {
            let mut order: Vec<usize> = (0..tracks.len()).collect();
            Rng::new(seed ^ 0xA11 ^ ((it as u64) << 20) ^ pass as u64).shuffle(&mut order);
            for ci in order {
                let mut rng = Rng::new(seed ^ ((ci as u64 + 1) << 32) ^ ((it as u64 + 1) << 8) ^ ((pass as u64) << 60));
                let control = tracks[ci].histories.is_empty();
                let ops = gen_history(&mut rng, &tracks[ci].cfg, control, pass_max_ops);
                histories += 1;
                if let Err(w) = run_history(&ctx, &mut tracks[ci], &ops) {
                    if w.prop == "HARNESS" {
                        eprintln!("{}", w.line);
                        return finish(2, n_cfgs, histories, seed, started);
                    }
                    println!("{}", w.line);
                    let info = RunInfo { seed, selftest, prop: prop.clone(), out: None };
                    let rc = match write_file(&out, &witness_text(&w.line, &info, &tracks[ci].cfg, &tracks[ci].histories)) {
                        Ok(()) => {
                            println!("REPLAY {out}");
                            1
                        }
                        Err(e) => {
                            eprintln!("harness error: {e}");
                            2
                        }
                    };
                    return finish(rc, n_cfgs, histories, seed, started);
                }
            }
        }
        eprintln!(
            "pass={}: histories={} ops={} elapsed={:.2}s",
            pass.name(),
            iters * tracks.len(),
            OPS.load(Ordering::Relaxed) - ops_before,
            pass_started.elapsed().as_secs_f64()
        );
    }
    finish(0, n_cfgs, histories, seed, started)
}

/// The random policy draws its victims from `fastrand`, which the harness cannot seed (no new dependencies): a witness
/// found under `policy=random` need not show on every run. Such a file is replayed in up to `RANDOM_ATTEMPTS` child
/// processes (fresh caches each) until one of them fails.
const RANDOM_ATTEMPTS: usize = 25;

fn replay_random(path: &str, selftest: bool) -> i32 {
    let exe = match std::env::current_exe() {
        Ok(e) => e,
        Err(e) => {
            eprintln!("harness error: cannot find the executable: {e}");
            return 2;
        }
    };
    let mut last = Vec::new();
    for attempt in 1..=RANDOM_ATTEMPTS {
        let mut cmd = std::process::Command::new(&exe);
        cmd.arg("--macro-history-replay").arg(path).arg("--single");
        if selftest {
            cmd.arg("--selftest-oracle");
        }
        let out = match cmd.output() {
            Ok(o) => o,
            Err(e) => {
                eprintln!("harness error: cannot run {}: {e}", exe.display());
                return 2;
            }
        };
        let code = out.status.code().unwrap_or(2);
        if code != 0 {
            print!("{}", String::from_utf8_lossy(&out.stdout));
            eprint!("{}", String::from_utf8_lossy(&out.stderr));
            eprintln!("policy=random: attempt {attempt} of at most {RANDOM_ATTEMPTS}");
            return code;
        }
        last = out.stdout;
    }
    print!("{}", String::from_utf8_lossy(&last));
    eprintln!("policy=random: held in {RANDOM_ATTEMPTS} attempts");
    0
}

fn main_replay(path: &str, force_selftest: bool, single: bool) -> i32 {
    let text = match std::fs::read_to_string(path) {
        Ok(t) => t,
        Err(e) => {
            eprintln!("cannot read {path}: {e}");
            return 2;
        }
    };
    let (mut flavour, mut policy, mut seed, mut selftest, mut prop) = (None, None, 0u64, force_selftest, None);
    let (mut limit, mut memory): (Option<usize>, Option<usize>) = (None, None);
    // files written before the sparse pass / the families existed have no pass= / family= line
    let mut pass = Pass::Dense;
    let mut family = "base".to_string();
    let mut histories: Vec<Vec<Op>> = Vec::new();
    for line in text.lines() {
        let line = line.trim();
        if line.is_empty() || line.starts_with('#') || line.starts_with("WITNESS") || line.starts_with("replay:") {
            continue;
        }
        let Some((k, v)) = line.split_once('=') else {
            eprintln!("{path}: cannot parse line {line:?}");
            return 2;
        };
        match k {
            "mode" => {
                if v != "macro-history" {
                    eprintln!("{path}: mode={v}, expected macro-history");
                    return 2;
                }
            }
            "flavour" => flavour = Some(v.to_string()),
            "policy" => policy = Some(v.to_string()),
            "limit" => limit = v.parse::<usize>().ok(),
            "memory" => memory = v.parse::<usize>().ok(),
            "family" => family = v.to_string(),
            "pass" => {
                pass = match v {
                    "dense" => Pass::Dense,
                    "sparse" => Pass::Sparse,
                    _ => {
                        eprintln!("{path}: pass={v}, expected dense or sparse");
                        return 2;
                    }
                }
            }
            "seed" => seed = v.parse().unwrap_or(0),
            "selftest" => selftest = selftest || v == "1",
            "prop" => prop = Some(v.to_string()),
            "history" => {
                let mut ops = Vec::new();
                for t in v.split(',').filter(|t| !t.is_empty()) {
                    match Op::parse(t) {
                        Ok(op) => ops.push(op),
                        Err(e) => {
                            eprintln!("{path}: {e}");
                            return 2;
                        }
                    }
                }
                histories.push(ops);
            }
            _ => {
                eprintln!("{path}: unknown field {k}");
                return 2;
            }
        }
    }
    let cfg = configs(pass).into_iter().find(|c| {
        c.family.name() == family
            && Some(c.flavour.name()) == flavour.as_deref()
            && Some(c.policy.name()) == policy.as_deref()
            && c.limit == limit
            && c.max_memory == memory
    });
    let Some(cfg) = cfg else {
        eprintln!("{path}: no configuration family={family} flavour={flavour:?} policy={policy:?} limit={limit:?} memory={memory:?}");
        return 2;
    };
    if cfg.policy == Pol::Random && !single {
        return replay_random(path, force_selftest);
    }
    if let Err(e) = check_sizes() {
        eprintln!("harness error: {e}");
        return 2;
    }
    let ctx = Ctx { prop: prop.clone(), selftest };
    *RUN.lock().unwrap_or_else(|e| e.into_inner()) = Some(RunInfo { seed, selftest, prop, out: None });
    start_watchdog(1);
    let started = Instant::now();
    let mut track = Track::new(cfg);
    let mut n = 0;
    for h in &histories {
        n += 1;
        if let Err(w) = run_history(&ctx, &mut track, h) {
            if w.prop == "HARNESS" {
                eprintln!("{}", w.line);
                return finish(2, 1, n, seed, started);
            }
            println!("{} (history {n} of {})", w.line, histories.len());
            return finish(1, 1, n, seed, started);
        }
    }
    println!("PASS {} histories={}", cfg.text(), histories.len());
    finish(0, 1, n, seed, started)
}
