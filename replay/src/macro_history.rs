//! `--macro-history`: random histories of calls and invalidations on functions decorated with the REAL
//! `#[cache]` / `#[cache_async]` macros, checked step by step against a model of the resident key set.
//!
//! A bounded stand-in (never a proof) for C04, C13, C07, C08, C01 (and C03, C12, C16) at the macro level
//! (spec: /verif/notes/macro_history_spec.md, part B). No ttl, no max_memory, no sleeping.
//!
//! ```text
//! cachelito-replay --macro-history [--prop Cxx] [--seed N] [--iters N] [--max-ops N] [--out FILE]
//! cachelito-replay --macro-history-replay FILE          exit 0 held / 1 witness / 2 harness
//! ```
//!
//! Semantics derived from the unchanged code (cachelito-core/src/global_cache.rs, async_global_cache.rs and the
//! two macro crates); the model below implements exactly this:
//!
//! * The wrapper looks the key up (`get`), on a miss runs the body and stores the result (`insert`). Keys are the
//!   Debug text of the argument: `h(3)` has key `"3"`.
//! * sync global `insert`: the store gets the entry FIRST, the key is appended to the queue, and only then, if the
//!   queue is longer than `limit`, one victim is chosen AMONG THE QUEUE INCLUDING THE NEW KEY:
//!   FIFO / LRU pop the front (never the new key for limit >= 1); LFU takes the first key in queue order with the
//!   strictly smallest hit count, the new key sits at the back with 0 hits, so the victim is the oldest-stored
//!   resident with 0 hits if there is one and otherwise THE NEW KEY ITSELF (it is stored and removed again: K' == K);
//!   ARC / TLRU score hits x weight, the new key scores 0, same shape as LFU; Random removes any queue position,
//!   possibly the new key.
//! * async `insert`: if the store already holds `limit` entries one victim is chosen AMONG THE RESIDENT KEYS and
//!   removed BEFORE the new key is appended and stored: the victim is never the new key. FIFO / LRU pop the front,
//!   LFU takes the first key in queue order with the strictly smallest hit count among the residents.
//! * a hit moves the key to the back of the queue under LRU (ARC, TLRU) and adds one to its hit count under LFU
//!   (ARC, TLRU); FIFO and Random hits change nothing. A new entry has 0 hits.
//! * `invalidate_with` / `invalidate_all_with` reach every global / async cache once it has been used (the callback
//!   is registered on first use) and remove the matching keys from store AND queue. `invalidate_cache(name)` only
//!   reaches caches that declare a tag, an event or a dependency (the clear callback is registered together with the
//!   metadata): the functions below therefore declare one private tag each, otherwise `InvalidateCache` would be a
//!   no-op that answers false.
//!
//! Two passes over the same 24 configurations, on separate decorated functions (`--pass dense|sparse|both`, default
//! both, `--iters` histories per configuration in each):
//! * dense: the resident keys are listed after EVERY operation (exact victim of every store). The listing is itself an
//!   `invalidate_with(name, |k| { record; false })`, i.e. it runs the macro-emitted callback: a callback that leaves
//!   stale queue slots behind but sweeps them at its next run is healed before the damage reaches a store.
//! * sparse: no listing after calls. The resident keys are seen only inside the history's own `InvalidateWith` /
//!   `InvalidateAllWith` (the predicate records what it is asked about, i.e. the set just before) and in ONE listing at
//!   the end of the history; in between a model driven by the run counter (see `Sparse`). Keys 0..10, histories of up
//!   to `--max-ops` + 10 operations that favour fill -> invalidate a subset -> refill past the limit -> final listing.
//!
//! Every cache is driven by a sequence of histories. The first one is its CONTROL: calls only, on the never used cache
//! (no reset, no invalidation before or during it). Before every later history the cache is emptied through
//! `invalidate_with(name, |_| true)` and nothing else is reset, so that damage to the queue carries over. Capacity and
//! victim breaches are attributed to C04 / C07 / C08, and ALSO to C13 once an invalidation has removed an entry of that
//! cache unless the control already showed the same kind of breach (see `step`).
use crate::macro_search::{block_on, instr, list_keys, panic_text, Rng};
use cachelito::cache;
use cachelito_async::cache_async;
use std::collections::{BTreeMap, BTreeSet};
use std::fmt;
use std::panic::{catch_unwind, AssertUnwindSafe};
use std::sync::atomic::{AtomicBool, AtomicUsize, Ordering};
use std::sync::Mutex;
use std::time::{Duration, Instant};

const DEFAULT_OUT: &str = "/verif/.work/replays/macro_history.witness";
/// keys of the dense pass
const ALPHABET: u32 = 6;
const FULL_MASK: u16 = (1 << ALPHABET) - 1;
/// keys of the sparse pass (a refill past limit 3 after invalidating 2 keys needs fresh keys)
const WIDE_ALPHABET: u32 = 10;
const WIDE_MASK: u16 = (1 << WIDE_ALPHABET) - 1;
const HANG_SECS: u64 = 5;
const PROPS: [&str; 8] = ["C01", "C03", "C04", "C07", "C08", "C12", "C13", "C16"];

fn twin(a: u32) -> u64 {
    a as u64 * 1000 + 7
}

// ------------------------------------------------------------------------------------------------
// the decorated functions: flavour x policy x limit
// ------------------------------------------------------------------------------------------------
#[derive(Clone, Copy, PartialEq, Eq, Debug)]
enum Flavour {
    Global,
    Async,
}
impl Flavour {
    fn name(self) -> &'static str {
        match self {
            Flavour::Global => "global",
            Flavour::Async => "async",
        }
    }
}

#[derive(Clone, Copy, PartialEq, Eq, Debug)]
enum Pol {
    Fifo,
    Lru,
    Lfu,
    Arc,
    Random,
    Tlru,
}
impl Pol {
    fn parse(s: &str) -> Pol {
        match s {
            "fifo" => Pol::Fifo,
            "lru" => Pol::Lru,
            "lfu" => Pol::Lfu,
            "arc" => Pol::Arc,
            "random" => Pol::Random,
            "tlru" => Pol::Tlru,
            other => panic!("harness: unknown policy {other}"),
        }
    }
    fn name(self) -> &'static str {
        match self {
            Pol::Fifo => "fifo",
            Pol::Lru => "lru",
            Pol::Lfu => "lfu",
            Pol::Arc => "arc",
            Pol::Random => "random",
            Pol::Tlru => "tlru",
        }
    }
}

/// How the resident keys are observed (the same configurations are driven twice, on separate functions).
#[derive(Clone, Copy, PartialEq, Eq, Debug)]
enum Pass {
    /// a key listing after EVERY operation. Precise (exact victim of every store), but the listing is itself an
    /// `invalidate_with(name, |k| { record; false })`: it RUNS the macro-emitted callback, and a callback that leaves
    /// stale queue slots behind but sweeps them at its next run is healed before the damage reaches a store.
    Dense,
    /// no listing after calls: the resident set is seen only inside the history's own `InvalidateWith` /
    /// `InvalidateAllWith` (their predicate records what it is asked about) and in ONE listing at the end of the history.
    Sparse,
}
impl Pass {
    fn name(self) -> &'static str {
        match self {
            Pass::Dense => "dense",
            Pass::Sparse => "sparse",
        }
    }
}

#[derive(Clone, Copy)]
struct Cfg {
    pass: Pass,
    flavour: Flavour,
    policy: Pol,
    limit: usize,
    /// cache name = instrumentation slot
    name: &'static str,
    call: fn(u32) -> u64,
}
impl Cfg {
    fn text(&self) -> String {
        format!("flavour={} policy={} limit={} pass={}", self.flavour.name(), self.policy.name(), self.limit, self.pass.name())
    }
}

macro_rules! hist_fn {
    (G $f:ident $name:tt $tag:tt $policy:tt $limit:tt) => {
        #[cache(name = $name, tags = [$tag], policy = $policy, limit = $limit)]
        fn $f(a: u32) -> u64 {
            instr::ran($name);
            twin(a)
        }
    };
    (A $f:ident $name:tt $tag:tt $policy:tt $limit:tt) => {
        #[cache_async(name = $name, tags = [$tag], policy = $policy, limit = $limit)]
        async fn $f(a: u32) -> u64 {
            instr::ran($name);
            twin(a)
        }
    };
}
macro_rules! hist_cfg {
    ($pass:expr, G $f:ident $name:tt $policy:tt $limit:tt) => {
        Cfg { pass: $pass, flavour: Flavour::Global, policy: Pol::parse($policy), limit: $limit, name: $name, call: |a| $f(a) }
    };
    ($pass:expr, A $f:ident $name:tt $policy:tt $limit:tt) => {
        Cfg { pass: $pass, flavour: Flavour::Async, policy: Pol::parse($policy), limit: $limit, name: $name, call: |a| block_on($f(a)) }
    };
}
/// One row = one configuration = two decorated functions with caches of their own: one per pass.
macro_rules! hist_fns {
    ($($fl:tt $f:ident $name:tt $tag:tt $sf:ident $sname:tt $stag:tt $policy:tt $limit:tt;)*) => {
        $(hist_fn!($fl $f $name $tag $policy $limit);)*
        $(hist_fn!($fl $sf $sname $stag $policy $limit);)*
        fn configs(pass: Pass) -> Vec<Cfg> {
            match pass {
                Pass::Dense => vec![$(hist_cfg!(Pass::Dense, $fl $f $name $policy $limit)),*],
                Pass::Sparse => vec![$(hist_cfg!(Pass::Sparse, $fl $sf $sname $policy $limit)),*],
            }
        }
    };
}
hist_fns! {
    G hg_fifo_2 "mh_g_fifo_2" "mh_g_fifo_2_t" sg_fifo_2 "ms_g_fifo_2" "ms_g_fifo_2_t" "fifo" 2;
    G hg_fifo_3 "mh_g_fifo_3" "mh_g_fifo_3_t" sg_fifo_3 "ms_g_fifo_3" "ms_g_fifo_3_t" "fifo" 3;
    G hg_lru_2 "mh_g_lru_2" "mh_g_lru_2_t" sg_lru_2 "ms_g_lru_2" "ms_g_lru_2_t" "lru" 2;
    G hg_lru_3 "mh_g_lru_3" "mh_g_lru_3_t" sg_lru_3 "ms_g_lru_3" "ms_g_lru_3_t" "lru" 3;
    G hg_lfu_2 "mh_g_lfu_2" "mh_g_lfu_2_t" sg_lfu_2 "ms_g_lfu_2" "ms_g_lfu_2_t" "lfu" 2;
    G hg_lfu_3 "mh_g_lfu_3" "mh_g_lfu_3_t" sg_lfu_3 "ms_g_lfu_3" "ms_g_lfu_3_t" "lfu" 3;
    G hg_arc_2 "mh_g_arc_2" "mh_g_arc_2_t" sg_arc_2 "ms_g_arc_2" "ms_g_arc_2_t" "arc" 2;
    G hg_arc_3 "mh_g_arc_3" "mh_g_arc_3_t" sg_arc_3 "ms_g_arc_3" "ms_g_arc_3_t" "arc" 3;
    G hg_random_2 "mh_g_random_2" "mh_g_random_2_t" sg_random_2 "ms_g_random_2" "ms_g_random_2_t" "random" 2;
    G hg_random_3 "mh_g_random_3" "mh_g_random_3_t" sg_random_3 "ms_g_random_3" "ms_g_random_3_t" "random" 3;
    G hg_tlru_2 "mh_g_tlru_2" "mh_g_tlru_2_t" sg_tlru_2 "ms_g_tlru_2" "ms_g_tlru_2_t" "tlru" 2;
    G hg_tlru_3 "mh_g_tlru_3" "mh_g_tlru_3_t" sg_tlru_3 "ms_g_tlru_3" "ms_g_tlru_3_t" "tlru" 3;
    A ha_fifo_2 "mh_a_fifo_2" "mh_a_fifo_2_t" sa_fifo_2 "ms_a_fifo_2" "ms_a_fifo_2_t" "fifo" 2;
    A ha_fifo_3 "mh_a_fifo_3" "mh_a_fifo_3_t" sa_fifo_3 "ms_a_fifo_3" "ms_a_fifo_3_t" "fifo" 3;
    A ha_lru_2 "mh_a_lru_2" "mh_a_lru_2_t" sa_lru_2 "ms_a_lru_2" "ms_a_lru_2_t" "lru" 2;
    A ha_lru_3 "mh_a_lru_3" "mh_a_lru_3_t" sa_lru_3 "ms_a_lru_3" "ms_a_lru_3_t" "lru" 3;
    A ha_lfu_2 "mh_a_lfu_2" "mh_a_lfu_2_t" sa_lfu_2 "ms_a_lfu_2" "ms_a_lfu_2_t" "lfu" 2;
    A ha_lfu_3 "mh_a_lfu_3" "mh_a_lfu_3_t" sa_lfu_3 "ms_a_lfu_3" "ms_a_lfu_3_t" "lfu" 3;
    A ha_arc_2 "mh_a_arc_2" "mh_a_arc_2_t" sa_arc_2 "ms_a_arc_2" "ms_a_arc_2_t" "arc" 2;
    A ha_arc_3 "mh_a_arc_3" "mh_a_arc_3_t" sa_arc_3 "ms_a_arc_3" "ms_a_arc_3_t" "arc" 3;
    A ha_random_2 "mh_a_random_2" "mh_a_random_2_t" sa_random_2 "ms_a_random_2" "ms_a_random_2_t" "random" 2;
    A ha_random_3 "mh_a_random_3" "mh_a_random_3_t" sa_random_3 "ms_a_random_3" "ms_a_random_3_t" "random" 3;
    A ha_tlru_2 "mh_a_tlru_2" "mh_a_tlru_2_t" sa_tlru_2 "ms_a_tlru_2" "ms_a_tlru_2_t" "tlru" 2;
    A ha_tlru_3 "mh_a_tlru_3" "mh_a_tlru_3_t" sa_tlru_3 "ms_a_tlru_3" "ms_a_tlru_3_t" "tlru" 3;
}

// ------------------------------------------------------------------------------------------------
// operations
// ------------------------------------------------------------------------------------------------
#[derive(Clone, Copy, PartialEq, Eq, Debug)]
enum Op {
    Call(u32),
    /// `invalidate_with(name, key in mask)`
    With(u16),
    /// `invalidate_all_with(cache_name == name && key in mask)`
    AllWith(u16),
    /// `invalidate_cache(name)`
    Cache,
}
fn mask_keys(mask: u16) -> Vec<u32> {
    (0..WIDE_ALPHABET).filter(|k| mask & (1 << k) != 0).collect()
}
fn in_mask(mask: u16, key: &str) -> bool {
    key.parse::<u32>().map_or(false, |k| k < WIDE_ALPHABET && mask & (1 << k) != 0)
}
impl fmt::Display for Op {
    fn fmt(&self, f: &mut fmt::Formatter<'_>) -> fmt::Result {
        match self {
            Op::Call(k) => write!(f, "Call({k})"),
            Op::With(m) => write!(f, "InvalidateWith(key in {:?})", mask_keys(*m)),
            Op::AllWith(m) => write!(f, "InvalidateAllWith(this cache && key in {:?})", mask_keys(*m)),
            Op::Cache => write!(f, "InvalidateCache"),
        }
    }
}
impl Op {
    fn token(&self) -> String {
        match self {
            Op::Call(k) => format!("call:{k}"),
            Op::With(m) => format!("with:{m}"),
            Op::AllWith(m) => format!("allwith:{m}"),
            Op::Cache => "cache".to_string(),
        }
    }
    fn parse(t: &str) -> Result<Op, String> {
        let bad = || format!("bad operation {t:?}");
        if t == "cache" {
            return Ok(Op::Cache);
        }
        let (k, v) = t.split_once(':').ok_or_else(bad)?;
        match k {
            "call" => v.parse::<u32>().ok().filter(|k| *k < WIDE_ALPHABET).map(Op::Call).ok_or_else(bad),
            "with" => v.parse::<u16>().ok().filter(|m| *m <= WIDE_MASK).map(Op::With).ok_or_else(bad),
            "allwith" => v.parse::<u16>().ok().filter(|m| *m <= WIDE_MASK).map(Op::AllWith).ok_or_else(bad),
            _ => Err(bad()),
        }
    }
}
fn history_line(ops: &[Op]) -> String {
    format!("history={}", ops.iter().map(|o| o.token()).collect::<Vec<_>>().join(","))
}

/// The control history of a cache: calls only, three times as long as an ordinary history at most.
fn gen_control(rng: &mut Rng, max_ops: usize) -> Vec<Op> {
    let n = max_ops.max(1) + rng.below(2 * max_ops.max(1) + 1);
    (0..n).map(|_| Op::Call(rng.below(ALPHABET as usize) as u32)).collect()
}

fn gen_ops(rng: &mut Rng, max_ops: usize) -> Vec<Op> {
    let n = 1 + rng.below(max_ops.max(1));
    let mut ops = Vec::with_capacity(n);
    // some histories use a small part of the alphabet (more hits), some all of it (more evictions)
    let span = [3, 4, ALPHABET as usize, ALPHABET as usize][rng.below(4)];
    for _ in 0..n {
        let mask = |rng: &mut Rng| -> u16 {
            match rng.below(8) {
                0 => 0,
                1 => FULL_MASK,
                2 => 1 << rng.below(ALPHABET as usize),
                _ => (rng.next() >> 40) as u16 & FULL_MASK,
            }
        };
        let op = match rng.below(100) {
            0..=71 => Op::Call(rng.below(span) as u32),
            72..=84 => Op::With(mask(rng)),
            85..=91 => Op::AllWith(mask(rng)),
            _ => Op::Cache,
        };
        ops.push(op);
    }
    ops
}

/// The control history of the sparse pass: calls only, over the wide alphabet.
fn gen_sparse_control(rng: &mut Rng, max_ops: usize) -> Vec<Op> {
    let n = max_ops.max(1) + rng.below(2 * max_ops.max(1) + 1);
    (0..n).map(|_| Op::Call(rng.below(WIDE_ALPHABET as usize) as u32)).collect()
}

/// Histories of the sparse pass favour: fill -> invalidate a subset of what was filled -> refill PAST the limit with
/// fresh keys -> (final listing), with no other invalidation between the invalidation and the refill. One in four is
/// an unstructured mix over the wide alphabet.
fn gen_sparse(rng: &mut Rng, limit: usize, max_ops: usize) -> Vec<Op> {
    let max_ops = max_ops.max(1);
    let mut ops = Vec::new();
    if rng.below(4) == 0 {
        let n = 1 + rng.below(max_ops);
        let span = [4, 6, WIDE_ALPHABET as usize][rng.below(3)];
        for _ in 0..n {
            let mask = (rng.next() >> 40) as u16 & WIDE_MASK & if rng.below(2) == 0 { 0x3F } else { WIDE_MASK };
            ops.push(match rng.below(100) {
                0..=79 => Op::Call(rng.below(span) as u32),
                80..=89 => Op::With(mask),
                90..=95 => Op::AllWith(mask),
                _ => Op::Cache,
            });
        }
        return ops;
    }
    let mut fresh: Vec<u32> = (0..WIDE_ALPHABET).collect();
    rng.shuffle(&mut fresh);
    let mut recent: Vec<u32> = Vec::new();
    let rounds = 1 + rng.below(2);
    for _ in 0..rounds {
        // fill (sometimes one more than fits), with a few hits in between
        let fill = limit + rng.below(2);
        for _ in 0..fill {
            let Some(k) = fresh.pop() else { break };
            ops.push(Op::Call(k));
            recent.push(k);
            if rng.below(4) == 0 {
                ops.push(Op::Call(recent[rng.below(recent.len())]));
            }
        }
        // invalidate a subset of the keys stored last (usually 2, sometimes all of them or one)
        let tail: Vec<u32> = recent.iter().rev().take(limit).copied().collect();
        let want = match rng.below(6) {
            0 => 1,
            1 => tail.len(),
            _ => 2.min(tail.len()),
        };
        let mut pick = tail.clone();
        rng.shuffle(&mut pick);
        let mut mask: u16 = pick.iter().take(want).fold(0, |m, k| m | (1 << k));
        if rng.below(5) == 0 {
            // some keys that are not resident as well
            mask |= (rng.next() >> 40) as u16 & WIDE_MASK;
        }
        ops.push(match rng.below(10) {
            0..=5 => Op::With(mask),
            6..=8 => Op::AllWith(mask),
            _ => Op::Cache,
        });
        // refill past the limit with fresh keys: nothing but calls from here to the next round / the final listing
        let refill = want + 1 + rng.below(3);
        for _ in 0..refill {
            let k = match fresh.pop() {
                Some(k) => k,
                None => rng.below(WIDE_ALPHABET as usize) as u32,
            };
            ops.push(Op::Call(k));
            recent.push(k);
            if rng.below(5) == 0 {
                ops.push(Op::Call(recent[rng.below(recent.len())]));
            }
        }
    }
    ops.truncate(max_ops);
    ops
}

// ------------------------------------------------------------------------------------------------
// the model
// ------------------------------------------------------------------------------------------------
#[derive(Clone, Debug, Default)]
struct Model {
    k: BTreeSet<u32>,
    /// FIFO: insertion order; LRU (ARC, TLRU): recency order, least recently used first
    order: Vec<u32>,
    /// successful lookups per resident key since it was stored
    hits: BTreeMap<u32, u64>,
    /// false after a re-synchronisation from an observation that the model could not explain: order and hit
    /// counts of the survivors are then unknown, so victims are not judged until the cache has been emptied
    exact: bool,
}
impl Model {
    fn empty() -> Model {
        Model { exact: true, ..Model::default() }
    }
    fn drop_key(&mut self, k: u32) {
        self.k.remove(&k);
        self.order.retain(|x| *x != k);
        self.hits.remove(&k);
    }
    fn store(&mut self, k: u32) {
        self.drop_key(k);
        self.k.insert(k);
        self.order.push(k);
        self.hits.insert(k, 0);
    }
    fn hit(&mut self, pol: Pol, k: u32) {
        if matches!(pol, Pol::Lru | Pol::Arc | Pol::Tlru) {
            self.order.retain(|x| *x != k);
            self.order.push(k);
        }
        if matches!(pol, Pol::Lfu | Pol::Arc | Pol::Tlru) {
            *self.hits.entry(k).or_insert(0) += 1;
        }
    }
    /// Adopt an observation the model cannot explain.
    fn resync(&mut self, obs: &BTreeSet<String>) {
        let seen: BTreeSet<u32> = obs.iter().filter_map(|s| s.parse::<u32>().ok()).collect();
        let gone: Vec<u32> = self.k.iter().copied().filter(|k| !seen.contains(k)).collect();
        for k in gone {
            self.drop_key(k);
        }
        for k in &seen {
            if !self.k.contains(k) {
                self.store(*k);
            }
        }
        self.exact = self.k.is_empty();
    }
}
fn strs(k: &BTreeSet<u32>) -> BTreeSet<String> {
    k.iter().map(|x| x.to_string()).collect()
}

// ------------------------------------------------------------------------------------------------
// the step oracle
// ------------------------------------------------------------------------------------------------
#[derive(Debug, Clone)]
struct Breach {
    prop: &'static str,
    what: String,
}
struct Ctx {
    prop: Option<String>,
    /// `--selftest-oracle`: the ORACLE (not the library) is deliberately wrong: it expects a hit to run the body.
    selftest: bool,
}
impl Ctx {
    fn counts(&self, prop: &str) -> bool {
        prop == "HARNESS" || self.prop.as_deref().map_or(true, |p| p == prop)
    }
}

/// calls of decorated functions and invalidation requests issued by the histories
static OPS: AtomicUsize = AtomicUsize::new(0);
/// caches that have been used (their check callbacks are registered): a lower bound for `invalidate_all_with`
static WARMED: AtomicUsize = AtomicUsize::new(0);

fn observe(cfg: &Cfg) -> Result<BTreeSet<String>, Breach> {
    list_keys(cfg.name).ok_or_else(|| Breach {
        prop: "C13",
        what: format!("invalidate_with({:?}, |_| false) returned false although the cache has been used", cfg.name),
    })
}

/// Runs one operation on the real cache and judges it. Returns every clause that failed (in order of
/// importance); the model is advanced when nothing failed and re-synchronised otherwise.
///
///
/// Attribution of capacity and victim breaches (C04 / C07 / C08) on a store: once an invalidation has removed an entry
/// of this cache (`dirty`), such a breach is ALSO a breach of C13 ("after any invalidation, limits and eviction order
/// behave as if the removed entries had never been stored") and is reported under both, so that `--prop C13` sees the
/// damage an invalidation callback did to the queue (it only shows at a later store). Not, however, if the same kind of
/// breach already showed in the CONTROL history of this cache (calls only, on the pristine cache, before any
/// invalidation: then the engine is at fault, not the invalidation).
fn step(cfg: &Cfg, ctx: &Ctx, st: &mut State, op: Op) -> Vec<Breach> {
    if !st.used && !matches!(op, Op::Call(_)) {
        // nothing is registered before the first call: the request would (rightly) find no cache
        return Vec::new();
    }
    let State { model: m, used, dirty, control_failed, .. } = st;
    if !*used {
        *used = true;
        WARMED.fetch_add(1, Ordering::Relaxed);
    }
    OPS.fetch_add(1, Ordering::Relaxed);
    let mut out: Vec<Breach> = Vec::new();
    let mut add = |prop: &'static str, what: String| out.push(Breach { prop, what });
    let name = cfg.name;
    let before = instr::runs(name);
    // (value of a call, answer of an invalidation)
    let done = catch_unwind(AssertUnwindSafe(|| match op {
        Op::Call(k) => ((cfg.call)(k), 0usize),
        Op::With(mask) => (0, cachelito_core::invalidate_with(name, |key| in_mask(mask, key)) as usize),
        Op::AllWith(mask) => (0, cachelito_core::invalidate_all_with(|cache, key| cache == name && in_mask(mask, key))),
        Op::Cache => (0, cachelito_core::invalidate_cache(name) as usize),
    }));
    let ran = instr::runs(name) - before;
    let (value, answer) = match done {
        Ok(x) => x,
        Err(p) => {
            let msg = panic_text(p.as_ref());
            if msg.starts_with("harness:") {
                add("HARNESS", msg);
            } else {
                add("C16", format!("the operation panicked: {msg}"));
            }
            (0, 0)
        }
    };
    let panicked = !out.is_empty();
    let obs = match catch_unwind(AssertUnwindSafe(|| observe(cfg))) {
        Ok(Ok(o)) => o,
        Ok(Err(b)) => {
            out.push(b);
            m.resync(&BTreeSet::new());
            return out;
        }
        Err(p) => {
            out.push(Breach { prop: "C16", what: format!("listing the keys after the operation panicked: {}", panic_text(p.as_ref())) });
            m.resync(&BTreeSet::new());
            return out;
        }
    };
    let mut add = |prop: &'static str, what: String| out.push(Breach { prop, what });
    let held = strs(&m.k);
    let limit = cfg.limit;

    if !panicked {
        match op {
            Op::Call(k) if m.k.contains(&k) => {
                let want_runs: u64 = if ctx.selftest { 1 } else { 0 };
                if ran != want_runs {
                    add("C03", format!("key {k} is resident (keys {held:?}): the body ran {ran} times, expected {want_runs}"));
                }
                if value != twin(k) {
                    add("C01", format!("key {k} is resident: served {value}, the uncached twin gives {}", twin(k)));
                }
                if obs != held {
                    add("C04", format!("a hit on {k} changed the resident keys: {obs:?}, expected {held:?}"));
                }
                m.hit(cfg.policy, k);
            }
            Op::Call(k) => {
                if ran != 1 {
                    add("C03", format!("key {k} is not resident (keys {held:?}): the body ran {ran} times, expected 1"));
                }
                if value != twin(k) {
                    add("C01", format!("key {k} is not resident: returned {value}, the uncached twin gives {}", twin(k)));
                }
                let mut plus = m.k.clone();
                plus.insert(k);
                let plus_s = strs(&plus);
                if m.k.len() < limit {
                    if obs != plus_s {
                        add(
                            "C04",
                            format!("store of {k} into {held:?} ({} < limit {limit}, nothing to evict): keys {obs:?}, expected {plus_s:?}", m.k.len()),
                        );
                    } else {
                        m.store(k);
                    }
                } else {
                    let victims: Vec<&String> = plus_s.difference(&obs).collect();
                    let foreign: Vec<&String> = obs.difference(&plus_s).collect();
                    if !foreign.is_empty() || victims.len() != 1 || obs.len() != limit {
                        add(
                            "C04",
                            format!(
                                "store of {k} into the full cache {held:?} (limit {limit}): keys {obs:?}, expected {plus_s:?} minus exactly one victim \
                                 (missing {victims:?}, unexpected {foreign:?})"
                            ),
                        );
                    } else {
                        let v: u32 = victims[0].parse().unwrap_or(u32::MAX);
                        judge_victim(cfg, m, k, v, &mut add);
                        m.store(k);
                        m.drop_key(v);
                    }
                }
            }
            Op::With(mask) | Op::AllWith(mask) => {
                let what = match op {
                    Op::With(_) => "invalidate_with",
                    _ => "invalidate_all_with",
                };
                let floor = match op {
                    Op::With(_) => 1,
                    _ => WARMED.load(Ordering::Relaxed),
                };
                if answer < floor {
                    add("C13", format!("{what} answered {answer}, expected {} ({floor} caches have been used)", if floor == 1 { "true".to_string() } else { format!("at least {floor}") }));
                }
                let want: BTreeSet<u32> = m.k.iter().copied().filter(|k| mask & (1 << k) == 0).collect();
                let want_s = strs(&want);
                if want.len() < m.k.len() {
                    *dirty = true;
                }
                if obs != want_s {
                    add("C13", format!("{what}(key in {:?}) on {held:?}: keys {obs:?}, expected {want_s:?}", mask_keys(mask)));
                } else {
                    for k in mask_keys(mask) {
                        m.drop_key(k);
                    }
                }
            }
            Op::Cache => {
                if answer != 1 {
                    add("C12", format!("invalidate_cache({name:?}) answered false: the cache declares a tag and has been used"));
                }
                if !m.k.is_empty() {
                    *dirty = true;
                }
                if !obs.is_empty() {
                    add("C12", format!("invalidate_cache({name:?}) on {held:?}: keys {obs:?}, expected none"));
                } else {
                    *m = Model::empty();
                }
            }
        }
    }
    if obs.len() > limit {
        add("C04", format!("{} keys {obs:?} after the operation, limit {limit}", obs.len()));
    }
    if matches!(op, Op::Call(_)) {
        add_twins(*dirty, control_failed, false, &mut out);
    }
    if !out.is_empty() {
        m.resync(&obs);
    } else if m.k.is_empty() {
        m.exact = true;
    }
    out
}

/// `v` was evicted by the overflowing store of `k`.
fn judge_victim(cfg: &Cfg, m: &Model, k: u32, v: u32, add: &mut impl FnMut(&'static str, String)) {
    let held = strs(&m.k);
    match (cfg.flavour, cfg.policy) {
        (_, Pol::Fifo) | (_, Pol::Lru) => {
            let (what, rule) = if cfg.policy == Pol::Fifo { ("FIFO", "the oldest store") } else { ("LRU", "the least recently used key") };
            if v == k {
                add("C07", format!("{what}: the store of {k} into {held:?} evicted the new key itself"));
            } else if m.exact && m.order.first() != Some(&v) {
                add("C07", format!("{what}: the store of {k} evicted {v}, expected {:?} ({rule}; order, oldest first: {:?})", m.order.first(), m.order));
            }
        }
        (Flavour::Async, Pol::Lfu) => {
            // candidates: the resident keys
            let min = m.k.iter().map(|x| m.hits.get(x).copied().unwrap_or(0)).min().unwrap_or(0);
            if v == k {
                add("C08", format!("LFU (async): the store of {k} into {held:?} evicted the new key itself; the candidates are the resident keys"));
            } else if m.exact && m.hits.get(&v).copied().unwrap_or(0) != min {
                add("C08", format!("LFU (async): the store of {k} evicted {v} with {} hits, the minimum among the residents is {min} (hits {:?})", m.hits.get(&v).copied().unwrap_or(0), m.hits));
            }
        }
        (Flavour::Global, Pol::Lfu) => {
            // candidates: the resident keys and the new key (0 hits): the minimum is 0
            if v != k && m.exact && m.hits.get(&v).copied().unwrap_or(0) != 0 {
                add(
                    "C08",
                    format!(
                        "LFU (sync): the store of {k} evicted {v} with {} hits; the new key (0 hits) is a candidate, so the victim must have 0 hits (hits {:?})",
                        m.hits.get(&v).copied().unwrap_or(0),
                        m.hits
                    ),
                );
            }
        }
        (Flavour::Async, Pol::Arc) | (Flavour::Async, Pol::Tlru) => {
            if v == k {
                add("C08", format!("{} (async): the store of {k} into {held:?} evicted the new key itself; the candidates are the resident keys", cfg.policy.name()));
            }
        }
        (Flavour::Async, Pol::Random) => {
            if v == k {
                add("C04", format!("random (async): the store of {k} into {held:?} evicted the new key itself; the victim is chosen before the new key is queued"));
            }
        }
        // sync ARC / TLRU / Random: any single victim, the new key included
        (Flavour::Global, _) => {}
    }
}

// ------------------------------------------------------------------------------------------------
// the sparse pass: model and oracle
// ------------------------------------------------------------------------------------------------
/// What is known about the resident keys BETWEEN two observations. Driven by the run counter alone: a call that ran the
/// body was a miss, one that did not was a hit.
///
/// * `n`: the exact number of resident keys: a miss on a cache that is not full adds one, a miss on a full cache
///   leaves `limit` (C04: "the cache holds min(N, number of distinct keys stored) entries"), invalidations are
///   observation points and re-establish it.
/// * `sure` (certainly resident) and `maybe` (possibly resident), `sure <= resident <= maybe`. They coincide (the set
///   is exact) as long as every victim was unambiguous: FIFO / LRU with a known queue order, LFU with a unique
///   minimum (sync: no resident with 0 hits => the NEW key is the victim, see the module comment). When the victim is
///   ambiguous (LFU ties, ARC, TLRU, Random, or a queue order that is not known any more) every candidate leaves
///   `sure`; the candidates are the residents, in the sync flavour under LFU / ARC / TLRU / Random also the new key
///   (it is stored before the victim is chosen), in the async flavour never (the victim is removed before the new
///   key is queued): there the key just stored is certainly resident.
/// * every hit / miss on a key of `maybe - sure` is information and sharpens the sets.
#[derive(Clone, Debug, Default)]
struct Sparse {
    /// None: unknown after a call the model could not explain (a breach has been reported); until the next observation
    n: Option<usize>,
    sure: BTreeSet<u32>,
    maybe: BTreeSet<u32>,
    /// `order` / `hits` describe the resident keys exactly (implies `sure == maybe`): true from an empty cache on for
    /// as long as nothing ambiguous happens
    meta: bool,
    order: Vec<u32>,
    hits: BTreeMap<u32, u64>,
    /// keys removed by an invalidation and not stored since, with the property their resurrection is attributed to
    gone: BTreeMap<u32, &'static str>,
}
impl Sparse {
    fn empty() -> Sparse {
        Sparse { n: Some(0), meta: true, ..Sparse::default() }
    }
    fn lose(&mut self) {
        self.n = None;
        self.meta = false;
        self.sure.clear();
        self.maybe = (0..WIDE_ALPHABET).collect();
        self.order.clear();
        self.hits.clear();
    }
    /// The set that was just observed (or adopted after a breach).
    fn adopt(&mut self, set: &BTreeSet<u32>, keep_meta: bool) {
        self.n = Some(set.len());
        self.sure = set.clone();
        self.maybe = set.clone();
        if keep_meta && self.meta {
            self.order.retain(|k| set.contains(k));
            self.hits.retain(|k, _| set.contains(k));
        } else {
            self.meta = set.is_empty();
            self.order.clear();
            self.hits.clear();
        }
    }
    fn sharpen(&mut self) {
        if let Some(n) = self.n {
            if self.sure.len() == n {
                self.maybe = self.sure.clone();
            } else if self.maybe.len() == n {
                self.sure = self.maybe.clone();
            }
        }
    }
    fn describe(&self) -> String {
        match self.n {
            Some(_) if self.sure == self.maybe => format!("exactly {:?}", self.sure),
            Some(n) => format!("{n} keys, certainly {:?}, possibly {:?}", self.sure, self.maybe),
            None => "unknown".to_string(),
        }
    }
    fn forget(&mut self, k: u32) {
        self.sure.remove(&k);
        self.maybe.remove(&k);
        self.order.retain(|x| *x != k);
        self.hits.remove(&k);
    }
    fn add(&mut self, k: u32) {
        self.sure.insert(k);
        self.maybe.insert(k);
        if self.meta {
            self.order.retain(|x| *x != k);
            self.order.push(k);
            self.hits.insert(k, 0);
        }
    }
    /// A miss on `k` (known not to be resident) stored it.
    fn store(&mut self, cfg: &Cfg, k: u32) {
        self.gone.remove(&k);
        let Some(n) = self.n else { return };
        if n < cfg.limit {
            self.n = Some(n + 1);
            self.add(k);
            return;
        }
        let sync = cfg.flavour == Flavour::Global;
        let exact = self.sure == self.maybe && self.meta;
        let hits_of = |m: &Sparse, x: &u32| m.hits.get(x).copied().unwrap_or(0);
        // Some(v): the one possible victim; None: ambiguous
        let victim: Option<u32> = match cfg.policy {
            Pol::Fifo | Pol::Lru if exact => self.order.first().copied(),
            Pol::Lfu if exact => {
                if sync {
                    // the new key (0 hits) is a candidate: unambiguous only if no resident ties with it
                    if self.sure.iter().any(|x| hits_of(self, x) == 0) {
                        None
                    } else {
                        Some(k)
                    }
                } else {
                    let min = self.sure.iter().map(|x| hits_of(self, x)).min().unwrap_or(0);
                    let ties: Vec<u32> = self.sure.iter().copied().filter(|x| hits_of(self, x) == min).collect();
                    if ties.len() == 1 {
                        Some(ties[0])
                    } else {
                        None
                    }
                }
            }
            _ => None,
        };
        match victim {
            Some(v) if v == k => {}
            Some(v) => {
                self.forget(v);
                self.add(k);
            }
            None => {
                let new_key_is_candidate = sync && !matches!(cfg.policy, Pol::Fifo | Pol::Lru);
                // which residents can be the victim: under LFU with known hit counts only the ties at the minimum
                let candidates: BTreeSet<u32> = if exact && cfg.policy == Pol::Lfu {
                    let min = if sync { 0 } else { self.sure.iter().map(|x| hits_of(self, x)).min().unwrap_or(0) };
                    self.sure.iter().copied().filter(|x| hits_of(self, x) == min).collect()
                } else {
                    self.maybe.clone()
                };
                for c in &candidates {
                    self.sure.remove(c);
                }
                self.maybe.insert(k);
                if !new_key_is_candidate {
                    self.sure.insert(k);
                }
                self.meta = false;
                self.order.clear();
                self.hits.clear();
                self.sharpen();
            }
        }
    }
    fn hit(&mut self, pol: Pol, k: u32) {
        if !self.meta {
            return;
        }
        if matches!(pol, Pol::Lru | Pol::Arc | Pol::Tlru) {
            self.order.retain(|x| *x != k);
            self.order.push(k);
        }
        if matches!(pol, Pol::Lfu | Pol::Arc | Pol::Tlru) {
            *self.hits.entry(k).or_insert(0) += 1;
        }
    }
}

/// The property a wrong CONTENT of the right size is attributed to: only a wrong victim explains it.
fn victim_prop(pol: Pol) -> &'static str {
    match pol {
        Pol::Fifo | Pol::Lru => "C07",
        Pol::Lfu | Pol::Arc | Pol::Tlru => "C08",
        Pol::Random => "C04",
    }
}

/// An observation point of the sparse pass: `obs` are the resident keys, `when` says where they were seen.
fn judge_observation(cfg: &Cfg, m: &Sparse, obs: &BTreeSet<String>, when: &str, out: &mut Vec<Breach>) {
    let limit = cfg.limit;
    if obs.len() > limit {
        out.push(Breach { prop: "C04", what: format!("{when}: {} keys {obs:?}, limit {limit}", obs.len()) });
    }
    let Some(n) = m.n else { return };
    if obs.len() != n {
        out.push(Breach {
            prop: "C04",
            what: format!(
                "{when}: {} keys {obs:?}, expected {n} = min(limit {limit}, what the stores since the last observation add up to); modelled: {}",
                obs.len(),
                m.describe()
            ),
        });
    }
    let missing: Vec<u32> = m.sure.iter().copied().filter(|k| !obs.contains(&k.to_string())).collect();
    if !missing.is_empty() {
        let prop = if obs.len() == n { victim_prop(cfg.policy) } else { "C04" };
        out.push(Breach { prop, what: format!("{when}: keys {obs:?}: {missing:?} must be resident and are not; modelled: {}", m.describe()) });
    }
    for key in obs {
        let k = key.parse::<u32>().ok();
        if k.map_or(true, |k| !m.maybe.contains(&k)) {
            let prop = match k.and_then(|k| m.gone.get(&k)) {
                Some(p) => *p,
                None if obs.len() == n => victim_prop(cfg.policy),
                None => "C04",
            };
            let why = if k.map_or(false, |k| m.gone.contains_key(&k)) { "it was invalidated and has not been stored since" } else { "it cannot be resident" };
            out.push(Breach { prop, what: format!("{when}: keys {obs:?}: {key:?} is listed, {why}; modelled: {}", m.describe()) });
        }
    }
}

fn parse_keys(obs: &BTreeSet<String>) -> BTreeSet<u32> {
    obs.iter().filter_map(|s| s.parse::<u32>().ok()).collect()
}

/// The C13 twins of capacity / victim breaches (see `step`). Dense pass: per kind of breach (the control must not have
/// shown the same kind). Sparse pass (`strict`): an unexplained hit or miss is reported under several kinds at once
/// (it cannot tell a lost entry from a wrong victim), so ANY capacity / victim breach in the control blames the engine.
fn add_twins(dirty: bool, control_failed: &BTreeSet<&'static str>, strict: bool, out: &mut Vec<Breach>) {
    if !dirty || (strict && !control_failed.is_empty()) {
        return;
    }
    let twins: Vec<Breach> = out
        .iter()
        .filter(|b| matches!(b.prop, "C04" | "C07" | "C08") && !control_failed.contains(b.prop))
        .map(|b| Breach {
            prop: "C13",
            what: format!("{} [entries of this cache were invalidated earlier: limits and eviction order must behave as if they had never been stored]", b.what),
        })
        .collect();
    out.extend(twins);
}

/// One operation of the sparse pass: no key listing. Calls are judged by the run counter against the model, the
/// history's own conditional invalidations see the resident keys through their predicate.
fn sparse_step(cfg: &Cfg, ctx: &Ctx, st: &mut State, op: Op) -> Vec<Breach> {
    if !st.used && !matches!(op, Op::Call(_)) {
        return Vec::new();
    }
    let State { sparse: m, used, dirty, control_failed, .. } = st;
    if !*used {
        *used = true;
        WARMED.fetch_add(1, Ordering::Relaxed);
    }
    OPS.fetch_add(1, Ordering::Relaxed);
    let mut out: Vec<Breach> = Vec::new();
    let name = cfg.name;
    let before = instr::runs(name);
    let asked: Mutex<Vec<String>> = Mutex::new(Vec::new());
    let record = |key: &str| asked.lock().unwrap_or_else(|e| e.into_inner()).push(key.to_string());
    let done = catch_unwind(AssertUnwindSafe(|| match op {
        Op::Call(k) => ((cfg.call)(k), 0usize),
        Op::With(mask) => (
            0,
            cachelito_core::invalidate_with(name, |key| {
                record(key);
                in_mask(mask, key)
            }) as usize,
        ),
        Op::AllWith(mask) => (
            0,
            cachelito_core::invalidate_all_with(|cache, key| {
                if cache != name {
                    return false;
                }
                record(key);
                in_mask(mask, key)
            }),
        ),
        Op::Cache => (0, cachelito_core::invalidate_cache(name) as usize),
    }));
    let ran = instr::runs(name) - before;
    let (value, answer) = match done {
        Ok(x) => x,
        Err(p) => {
            let msg = panic_text(p.as_ref());
            let prop = if msg.starts_with("harness:") { "HARNESS" } else { "C16" };
            out.push(Breach { prop, what: format!("the operation panicked: {msg}") });
            m.lose();
            return out;
        }
    };
    match op {
        Op::Call(k) => {
            if value != twin(k) {
                out.push(Breach { prop: "C01", what: format!("returned {value}, the uncached twin gives {}", twin(k)) });
            }
            if ran > 1 {
                out.push(Breach { prop: "C03", what: format!("the body ran {ran} times for one call") });
            }
            let hit = ran == 0;
            let known = m.n.is_some();
            let want_runs_on_hit: u64 = if ctx.selftest { 1 } else { 0 };
            if known && m.sure.contains(&k) {
                if ran != want_runs_on_hit {
                    let what = format!("key {k} must be resident (modelled: {}): the body ran {ran} times, expected {want_runs_on_hit}", m.describe());
                    out.push(Breach { prop: "C03", what: what.clone() });
                    if !ctx.selftest {
                        // the entry vanished although no store since the last observation can have evicted it
                        out.push(Breach { prop: "C04", what: format!("{what} (an entry was removed that no overflow accounts for)") });
                        if cfg.policy != Pol::Random {
                            out.push(Breach { prop: victim_prop(cfg.policy), what: format!("{what} (a wrong victim was evicted)") });
                        }
                    }
                    m.lose();
                } else {
                    m.hit(cfg.policy, k);
                }
            } else if known && !m.maybe.contains(&k) {
                if hit {
                    let what = format!("key {k} cannot be resident (modelled: {}): the call was served without running the body", m.describe());
                    match m.gone.get(&k) {
                        Some(p) => out.push(Breach { prop: *p, what: format!("{what}; the key was invalidated and has not been stored since") }),
                        None => {
                            out.push(Breach { prop: "C04", what: format!("{what} (an entry that an overflow must have evicted is still there)") });
                            if cfg.policy != Pol::Random {
                                out.push(Breach { prop: victim_prop(cfg.policy), what: format!("{what} (a wrong victim was evicted)") });
                            }
                        }
                    }
                    m.lose();
                } else {
                    m.store(cfg, k);
                }
            } else if known {
                // information: the key was / was not resident
                if hit {
                    m.sure.insert(k);
                } else {
                    m.maybe.remove(&k);
                }
                let n = m.n.unwrap_or(0);
                if m.sure.len() > n || m.maybe.len() < n {
                    out.push(Breach {
                        prop: "C04",
                        what: format!(
                            "the {} on key {k} shows {} resident keys, the stores since the last observation add up to {n} (limit {}); modelled: {}",
                            if hit { "hit" } else { "miss" },
                            if hit { format!("at least {}", m.sure.len()) } else { format!("at most {}", m.maybe.len()) },
                            cfg.limit,
                            m.describe()
                        ),
                    });
                    m.lose();
                } else {
                    m.sharpen();
                    if hit {
                        m.hit(cfg.policy, k);
                    } else {
                        m.store(cfg, k);
                    }
                }
            } else if !hit {
                m.gone.remove(&k);
            }
            add_twins(*dirty, control_failed, true, &mut out);
        }
        Op::With(mask) | Op::AllWith(mask) => {
            let what = match op {
                Op::With(_) => "invalidate_with",
                _ => "invalidate_all_with",
            };
            let floor = match op {
                Op::With(_) => 1,
                _ => WARMED.load(Ordering::Relaxed),
            };
            if answer < floor {
                out.push(Breach { prop: "C13", what: format!("{what} answered {answer}, expected at least {floor}") });
            }
            let list = asked.into_inner().unwrap_or_else(|e| e.into_inner());
            let obs: BTreeSet<String> = list.iter().cloned().collect();
            if obs.len() != list.len() {
                out.push(Breach { prop: "C13", what: format!("{what}: the predicate was asked about a key more than once: {list:?}") });
            }
            let when = format!("the predicate of {what}(key in {:?}) was asked about the resident keys", mask_keys(mask));
            judge_observation(cfg, m, &obs, &when, &mut out);
            add_twins(*dirty, control_failed, true, &mut out);
            let seen = parse_keys(&obs);
            let consistent = out.is_empty();
            let removed: Vec<u32> = seen.iter().copied().filter(|k| mask & (1 << k) != 0).collect();
            for k in m.maybe.iter().chain(seen.iter()).copied().filter(|k| mask & (1 << k) != 0).collect::<Vec<u32>>() {
                m.gone.insert(k, "C13");
            }
            if !removed.is_empty() {
                *dirty = true;
            }
            let left: BTreeSet<u32> = seen.iter().copied().filter(|k| mask & (1 << k) == 0).collect();
            m.adopt(&left, consistent);
        }
        Op::Cache => {
            if answer != 1 {
                out.push(Breach { prop: "C12", what: format!("invalidate_cache({name:?}) answered false: the cache declares a tag and has been used") });
            }
            if m.n != Some(0) {
                *dirty = true;
            }
            for k in m.maybe.clone() {
                m.gone.insert(k, "C12");
            }
            let gone = std::mem::take(&mut m.gone);
            *m = Sparse::empty();
            m.gone = gone;
        }
    }
    out
}

/// The one listing at the end of a history of the sparse pass. Returns the keys it saw.
fn sparse_final(cfg: &Cfg, st: &mut State) -> (BTreeSet<String>, Vec<Breach>) {
    let mut out = Vec::new();
    if !st.used {
        return (BTreeSet::new(), out);
    }
    let obs = match guarded(|| observe(cfg)) {
        Ok(Ok(o)) => o,
        Ok(Err(b)) | Err(b) => {
            out.push(b);
            st.sparse.lose();
            return (BTreeSet::new(), out);
        }
    };
    judge_observation(cfg, &st.sparse, &obs, "final listing", &mut out);
    add_twins(st.dirty, &st.control_failed, true, &mut out);
    let consistent = out.is_empty();
    st.sparse.adopt(&parse_keys(&obs), consistent);
    (obs, out)
}

// ------------------------------------------------------------------------------------------------
// histories
// ------------------------------------------------------------------------------------------------
struct Witness {
    prop: &'static str,
    line: String,
}

/// Everything that has been run on one configuration in this process (bookkeeping damage carries over from one
/// history to the next, so a replay needs all of them).
struct Track {
    cfg: Cfg,
    st: State,
    histories: Vec<Vec<Op>>,
}
struct State {
    /// dense pass
    model: Model,
    /// sparse pass
    sparse: Sparse,
    /// the keys the last history on this cache left behind (seen by its last observation)
    left: BTreeSet<String>,
    /// the function has been called (its callbacks are registered)
    used: bool,
    /// an invalidation has removed at least one entry of this cache (see `step`)
    dirty: bool,
    /// C04 / C07 / C08 breaches seen in the control history (see `step`)
    control_failed: BTreeSet<&'static str>,
}
impl Track {
    fn new(cfg: Cfg) -> Track {
        Track { cfg, st: State { model: Model::empty(), sparse: Sparse::empty(), left: BTreeSet::new(), used: false, dirty: false, control_failed: BTreeSet::new() }, histories: Vec::new() }
    }
}

fn witness_line(prop: &str, cfg: &Cfg, step: usize, op: &str, what: &str) -> String {
    format!("WITNESS property={prop} {} step={step} {op}: {what}", cfg.text())
}

/// Handles the breaches of one step: the first one that counts becomes the witness, the others are reported on stderr.
fn settle(ctx: &Ctx, cfg: &Cfg, i: usize, op: &str, breaches: Vec<Breach>) -> Result<(), Witness> {
    for b in breaches {
        if b.prop == "HARNESS" {
            return Err(Witness { prop: "HARNESS", line: format!("harness error: {} step={i} {op}: {}", cfg.text(), b.what) });
        }
        if ctx.counts(b.prop) {
            return Err(Witness { prop: b.prop, line: witness_line(b.prop, cfg, i, op, &b.what) });
        }
        eprintln!("not counted (--prop {}): {}", ctx.prop.as_deref().unwrap_or(""), witness_line(b.prop, cfg, i, op, &b.what));
    }
    Ok(())
}

fn guarded<R>(f: impl FnOnce() -> R) -> Result<R, Breach> {
    catch_unwind(AssertUnwindSafe(f)).map_err(|p| Breach { prop: "C16", what: format!("panicked: {}", panic_text(p.as_ref())) })
}

/// Start of a history. The first history on a cache (the control, calls only) starts on the pristine, never used
/// cache: nothing to check, nothing to reset. Every later one: the cache must still hold what the previous history on
/// it left (only operations on OTHER caches ran meanwhile), then it is emptied through `invalidate_with(name, |_| true)`
/// and must list no key.
fn begin(ctx: &Ctx, t: &mut Track) -> Result<(), Witness> {
    let cfg = t.cfg;
    if !t.st.used {
        return Ok(());
    }
    let mut breaches = Vec::new();
    match guarded(|| observe(&cfg)) {
        Ok(Ok(obs)) => {
            if obs != t.st.left {
                breaches.push(Breach {
                    prop: "C13",
                    what: format!("the cache changed while only other caches were operated on: keys {obs:?}, it was left with {:?}", t.st.left),
                });
            }
        }
        Ok(Err(b)) | Err(b) => breaches.push(b),
    }
    settle(ctx, &cfg, 0, "(idle since the previous history)", breaches)?;

    let mut breaches = Vec::new();
    if !t.st.left.is_empty() {
        t.st.dirty = true;
    }
    match guarded(|| cachelito_core::invalidate_with(cfg.name, |_| true)) {
        Ok(true) => {}
        Ok(false) => breaches.push(Breach { prop: "C13", what: format!("invalidate_with({:?}, |_| true) answered false although the cache has been used", cfg.name) }),
        Err(b) => breaches.push(b),
    }
    match guarded(|| observe(&cfg)) {
        Ok(Ok(obs)) => {
            if !obs.is_empty() {
                breaches.push(Breach { prop: "C13", what: format!("invalidate_with({:?}, |_| true): keys {obs:?} are still listed", cfg.name) });
            }
        }
        Ok(Err(b)) | Err(b) => breaches.push(b),
    }
    t.st.model = Model::empty();
    t.st.sparse = Sparse::empty();
    t.st.left = BTreeSet::new();
    settle(ctx, &cfg, 0, "(reset between histories)", breaches)
}

fn run_history(ctx: &Ctx, t: &mut Track, ops: &[Op]) -> Result<(), Witness> {
    // the first history on a cache is its control (see `step`)
    let control = t.histories.is_empty();
    t.histories.push(ops.to_vec());
    note_progress(t, 0, "reset");
    begin(ctx, t)?;
    let cfg = t.cfg;
    let note_control = |st: &mut State, breaches: &[Breach]| {
        if control {
            for b in breaches {
                if matches!(b.prop, "C04" | "C07" | "C08") {
                    st.control_failed.insert(b.prop);
                }
            }
        }
    };
    for (i, op) in ops.iter().enumerate() {
        note_progress(t, i + 1, &op.to_string());
        let breaches = match cfg.pass {
            Pass::Dense => step(&cfg, ctx, &mut t.st, *op),
            Pass::Sparse => sparse_step(&cfg, ctx, &mut t.st, *op),
        };
        note_control(&mut t.st, &breaches);
        settle(ctx, &cfg, i + 1, &op.to_string(), breaches)?;
    }
    match cfg.pass {
        Pass::Dense => t.st.left = strs(&t.st.model.k),
        Pass::Sparse => {
            note_progress(t, ops.len() + 1, "(final listing)");
            let (obs, breaches) = sparse_final(&cfg, &mut t.st);
            t.st.left = obs;
            note_control(&mut t.st, &breaches);
            settle(ctx, &cfg, ops.len() + 1, "(final listing)", breaches)?;
        }
    }
    Ok(())
}

// ------------------------------------------------------------------------------------------------
// witness files, watchdog
// ------------------------------------------------------------------------------------------------
struct RunInfo {
    seed: u64,
    selftest: bool,
    prop: Option<String>,
    out: Option<String>,
}
fn witness_text(line: &str, info: &RunInfo, cfg: &Cfg, histories: &[Vec<Op>]) -> String {
    let mut s = String::new();
    s.push_str(line);
    s.push('\n');
    s.push_str("mode=macro-history\n");
    s.push_str(&format!("flavour={}\npolicy={}\nlimit={}\npass={}\n", cfg.flavour.name(), cfg.policy.name(), cfg.limit, cfg.pass.name()));
    s.push_str(&format!("seed={}\nselftest={}\n", info.seed, info.selftest as u8));
    if let Some(p) = &info.prop {
        s.push_str(&format!("prop={p}\n"));
    }
    s.push_str("# every history run on this cache by the search, oldest first; the last one failed. The first one is the control\n");
    s.push_str("# (calls only, on the never used cache); before each later one the cache is emptied with invalidate_with(name, |_| true)\n");
    s.push_str("# (queue damage done by earlier ones carries over). pass=dense: the keys are listed after every operation;\n");
    s.push_str("# pass=sparse: only inside the history's own with: / allwith: operations and once at the end of each history.\n");
    for h in histories {
        s.push_str(&history_line(h));
        s.push('\n');
    }
    s.push_str("replay: cachelito-replay --macro-history-replay <this file>\n");
    s
}
fn write_file(path: &str, text: &str) -> Result<(), String> {
    if let Some(dir) = std::path::Path::new(path).parent() {
        std::fs::create_dir_all(dir).map_err(|e| format!("cannot create {}: {e}", dir.display()))?;
    }
    std::fs::write(path, text).map_err(|e| format!("cannot write {path}: {e}"))
}

struct Progress {
    since: Instant,
    cfg: Cfg,
    step: usize,
    op: String,
    histories: Vec<Vec<Op>>,
}
static PROGRESS: Mutex<Option<Progress>> = Mutex::new(None);
static RUN: Mutex<Option<RunInfo>> = Mutex::new(None);
static FINISHED: AtomicBool = AtomicBool::new(false);

fn note_progress(t: &Track, step: usize, op: &str) {
    let mut g = PROGRESS.lock().unwrap_or_else(|e| e.into_inner());
    match g.as_mut() {
        Some(p) if step > 0 && p.cfg.name == t.cfg.name => {
            p.since = Instant::now();
            p.step = step;
            p.op = op.to_string();
        }
        _ => {
            *g = Some(Progress { since: Instant::now(), cfg: t.cfg, step, op: op.to_string(), histories: t.histories.clone() });
        }
    }
}

fn summary_line(configs: usize, histories: usize) -> String {
    format!("MACRO-HISTORY configs={configs} histories={histories} ops={}", OPS.load(Ordering::Relaxed))
}

/// A single-threaded history that never returns (a lock taken twice, an eviction loop that does not end) is
/// a call that does not run to completion: C16.
fn start_watchdog(configs: usize) {
    std::thread::spawn(move || loop {
        std::thread::sleep(Duration::from_millis(100));
        if FINISHED.load(Ordering::Relaxed) {
            return;
        }
        let g = PROGRESS.lock().unwrap_or_else(|e| e.into_inner());
        if let Some(p) = g.as_ref() {
            if p.since.elapsed() >= Duration::from_secs(HANG_SECS) {
                let what = format!("did not return within {HANG_SECS} s (the operation hangs)");
                let line = witness_line("C16", &p.cfg, p.step, &p.op, &what);
                println!("{line}");
                if let Some(info) = RUN.lock().unwrap_or_else(|e| e.into_inner()).as_ref() {
                    if let Some(path) = &info.out {
                        match write_file(path, &witness_text(&line, info, &p.cfg, &p.histories)) {
                            Ok(()) => println!("REPLAY {path}"),
                            Err(e) => eprintln!("harness error: {e}"),
                        }
                    }
                }
                println!("{}", summary_line(configs, 0));
                std::process::exit(1);
            }
        }
    });
}

// ------------------------------------------------------------------------------------------------
// drivers
// ------------------------------------------------------------------------------------------------
fn usage() -> i32 {
    eprintln!(
        "usage: cachelito-replay --macro-history [--prop Cxx] [--seed N] [--iters N] [--max-ops N] [--pass dense|sparse|both] [--out FILE]\n\
         \x20      cachelito-replay --macro-history-replay FILE"
    );
    2
}

fn finish(rc: i32, configs: usize, histories: usize, seed: u64, started: Instant) -> i32 {
    FINISHED.store(true, Ordering::Relaxed);
    println!("{}", summary_line(configs, histories));
    eprintln!("bounded macro-level history check (not a proof): seed={seed} elapsed={:.2}s", started.elapsed().as_secs_f64());
    rc
}

/// `--macro-history` / `--macro-history-replay`: exit 0 = nothing found, 1 = witness, 2 = harness error.
pub fn main_history(args: &[String]) -> i32 {
    let mut seed = 1u64;
    let mut iters = 60usize;
    let mut max_ops = 14usize;
    let mut out = DEFAULT_OUT.to_string();
    let mut prop: Option<String> = None;
    let mut selftest = false;
    let mut passes = vec![Pass::Dense, Pass::Sparse];
    let mut replay: Option<String> = None;
    // internal: one attempt of a replay under the random policy (see `main_replay`)
    let mut single = false;
    let mut i = 0;
    while i < args.len() {
        let a = args[i].as_str();
        match a {
            "--macro-history" => {
                i += 1;
                continue;
            }
            "--selftest-oracle" => {
                selftest = true;
                i += 1;
                continue;
            }
            "--single" => {
                single = true;
                i += 1;
                continue;
            }
            _ => {}
        }
        let Some(val) = args.get(i + 1) else {
            eprintln!("missing value for {a}");
            return usage();
        };
        let ok = match a {
            "--macro-history-replay" => {
                replay = Some(val.clone());
                true
            }
            "--prop" => {
                prop = Some(val.clone());
                true
            }
            "--seed" => val.parse().map(|x| seed = x).is_ok(),
            "--iters" => val.parse().map(|x| iters = x).is_ok(),
            "--max-ops" => val.parse().map(|x| max_ops = x).is_ok(),
            "--pass" => match val.as_str() {
                "dense" => {
                    passes = vec![Pass::Dense];
                    true
                }
                "sparse" => {
                    passes = vec![Pass::Sparse];
                    true
                }
                "both" => true,
                _ => false,
            },
            "--out" => {
                out = val.clone();
                true
            }
            _ => {
                eprintln!("unknown option {a}");
                return usage();
            }
        };
        if !ok {
            eprintln!("bad value for {a}: {val}");
            return usage();
        }
        i += 2;
    }
    if let Some(path) = replay {
        return main_replay(&path, selftest, single);
    }
    if let Some(p) = &prop {
        if !PROPS.contains(&p.as_str()) {
            eprintln!("no macro-level history clause is attributed to {p} (known: {})", PROPS.join(" "));
            println!("{}", summary_line(0, 0));
            return 0;
        }
    }

    let ctx = Ctx { prop: prop.clone(), selftest };
    *RUN.lock().unwrap_or_else(|e| e.into_inner()) = Some(RunInfo { seed, selftest, prop: prop.clone(), out: Some(out.clone()) });
    let n_cfgs = configs(Pass::Dense).len();
    start_watchdog(n_cfgs);
    let started = Instant::now();
    let mut histories = 0usize;
    // `--iters` histories per configuration in EACH pass; the sparse pass has longer histories (default 14 + 10 = 24)
    for pass in passes {
        let cfgs = configs(pass);
        let pass_max_ops = match pass {
            Pass::Dense => max_ops,
            Pass::Sparse => max_ops + 10,
        };
        let pass_started = Instant::now();
        let ops_before = OPS.load(Ordering::Relaxed);
        let mut tracks: Vec<Track> = cfgs.iter().map(|c| Track::new(*c)).collect();
        // round robin over the configurations: between two histories on one cache, all the others are operated on
        for it in 0..iters {
            let mut order: Vec<usize> = (0..tracks.len()).collect();
            Rng::new(seed ^ 0xA11 ^ ((it as u64) << 20) ^ pass as u64).shuffle(&mut order);
            for ci in order {
                let mut rng = Rng::new(seed ^ ((ci as u64 + 1) << 32) ^ ((it as u64 + 1) << 8) ^ ((pass as u64) << 60));
                let control = tracks[ci].histories.is_empty();
                let ops = match (pass, control) {
                    (Pass::Dense, true) => gen_control(&mut rng, pass_max_ops),
                    (Pass::Dense, false) => gen_ops(&mut rng, pass_max_ops),
                    (Pass::Sparse, true) => gen_sparse_control(&mut rng, pass_max_ops),
                    (Pass::Sparse, false) => gen_sparse(&mut rng, tracks[ci].cfg.limit, pass_max_ops),
                };
                histories += 1;
                if let Err(w) = run_history(&ctx, &mut tracks[ci], &ops) {
                    if w.prop == "HARNESS" {
                        eprintln!("{}", w.line);
                        return finish(2, n_cfgs, histories, seed, started);
                    }
                    println!("{}", w.line);
                    let info = RunInfo { seed, selftest, prop: prop.clone(), out: None };
                    let rc = match write_file(&out, &witness_text(&w.line, &info, &tracks[ci].cfg, &tracks[ci].histories)) {
                        Ok(()) => {
                            println!("REPLAY {out}");
                            1
                        }
                        Err(e) => {
                            eprintln!("harness error: {e}");
                            2
                        }
                    };
                    return finish(rc, n_cfgs, histories, seed, started);
                }
            }
        }
        eprintln!(
            "pass={}: histories={} ops={} elapsed={:.2}s",
            pass.name(),
            iters * tracks.len(),
            OPS.load(Ordering::Relaxed) - ops_before,
            pass_started.elapsed().as_secs_f64()
        );
    }
    finish(0, n_cfgs, histories, seed, started)
}

/// The random policy draws its victims from `fastrand`, which the harness cannot seed (no new dependencies): a witness
/// found under `policy=random` need not show on every run. Such a file is replayed in up to `RANDOM_ATTEMPTS` child
/// processes (fresh caches each) until one of them fails.
const RANDOM_ATTEMPTS: usize = 25;

fn replay_random(path: &str, selftest: bool) -> i32 {
    let exe = match std::env::current_exe() {
        Ok(e) => e,
        Err(e) => {
            eprintln!("harness error: cannot find the executable: {e}");
            return 2;
        }
    };
    let mut last = Vec::new();
    for attempt in 1..=RANDOM_ATTEMPTS {
        let mut cmd = std::process::Command::new(&exe);
        cmd.arg("--macro-history-replay").arg(path).arg("--single");
        if selftest {
            cmd.arg("--selftest-oracle");
        }
        let out = match cmd.output() {
            Ok(o) => o,
            Err(e) => {
                eprintln!("harness error: cannot run {}: {e}", exe.display());
                return 2;
            }
        };
        let code = out.status.code().unwrap_or(2);
        if code != 0 {
            print!("{}", String::from_utf8_lossy(&out.stdout));
            eprint!("{}", String::from_utf8_lossy(&out.stderr));
            eprintln!("policy=random: attempt {attempt} of at most {RANDOM_ATTEMPTS}");
            return code;
        }
        last = out.stdout;
    }
    print!("{}", String::from_utf8_lossy(&last));
    eprintln!("policy=random: held in {RANDOM_ATTEMPTS} attempts");
    0
}

fn main_replay(path: &str, force_selftest: bool, single: bool) -> i32 {
    let text = match std::fs::read_to_string(path) {
        Ok(t) => t,
        Err(e) => {
            eprintln!("cannot read {path}: {e}");
            return 2;
        }
    };
    let (mut flavour, mut policy, mut limit, mut seed, mut selftest, mut prop) = (None, None, None, 0u64, force_selftest, None);
    // files written before the sparse pass existed have no pass= line
    let mut pass = Pass::Dense;
    let mut histories: Vec<Vec<Op>> = Vec::new();
    for line in text.lines() {
        let line = line.trim();
        if line.is_empty() || line.starts_with('#') || line.starts_with("WITNESS") || line.starts_with("replay:") {
            continue;
        }
        let Some((k, v)) = line.split_once('=') else {
            eprintln!("{path}: cannot parse line {line:?}");
            return 2;
        };
        match k {
            "mode" => {
                if v != "macro-history" {
                    eprintln!("{path}: mode={v}, expected macro-history");
                    return 2;
                }
            }
            "flavour" => flavour = Some(v.to_string()),
            "policy" => policy = Some(v.to_string()),
            "limit" => limit = v.parse::<usize>().ok(),
            "pass" => {
                pass = match v {
                    "dense" => Pass::Dense,
                    "sparse" => Pass::Sparse,
                    _ => {
                        eprintln!("{path}: pass={v}, expected dense or sparse");
                        return 2;
                    }
                }
            }
            "seed" => seed = v.parse().unwrap_or(0),
            "selftest" => selftest = selftest || v == "1",
            "prop" => prop = Some(v.to_string()),
            "history" => {
                let mut ops = Vec::new();
                for t in v.split(',').filter(|t| !t.is_empty()) {
                    match Op::parse(t) {
                        Ok(op) => ops.push(op),
                        Err(e) => {
                            eprintln!("{path}: {e}");
                            return 2;
                        }
                    }
                }
                histories.push(ops);
            }
            _ => {
                eprintln!("{path}: unknown field {k}");
                return 2;
            }
        }
    }
    let cfg = configs(pass).into_iter().find(|c| {
        Some(c.flavour.name()) == flavour.as_deref() && Some(c.policy.name()) == policy.as_deref() && Some(c.limit) == limit
    });
    let Some(cfg) = cfg else {
        eprintln!("{path}: no configuration flavour={flavour:?} policy={policy:?} limit={limit:?}");
        return 2;
    };
    if cfg.policy == Pol::Random && !single {
        return replay_random(path, force_selftest);
    }
    let ctx = Ctx { prop: prop.clone(), selftest };
    *RUN.lock().unwrap_or_else(|e| e.into_inner()) = Some(RunInfo { seed, selftest, prop, out: None });
    start_watchdog(1);
    let started = Instant::now();
    let mut track = Track::new(cfg);
    let mut n = 0;
    for h in &histories {
        n += 1;
        if let Err(w) = run_history(&ctx, &mut track, h) {
            if w.prop == "HARNESS" {
                eprintln!("{}", w.line);
                return finish(2, 1, n, seed, started);
            }
            println!("{} (history {n} of {})", w.line, histories.len());
            return finish(1, 1, n, seed, started);
        }
    }
    println!("PASS {} histories={}", cfg.text(), histories.len());
    finish(0, 1, n, seed, started)
}
