//! Bounded witness search (`cachelito-replay --search`) and the step oracle shared with `--history`.
//!
//! This is a BOUNDED stand-in, never a proof: it drives the REAL engines from /repo through random
//! histories and checks every step against the step rules of /verif/notes/witness_search_spec.md.
//! On the first failed clause it writes the history so that it can be replayed with `--history FILE`.
use crate::history::{format_history, Config, Flavour, Op, Pol};
use cachelito_core::{
    AsyncGlobalCache, CacheEntry, CacheStats, EvictionPolicy, GlobalCache, MemoryEstimator,
    ThreadLocalCache,
};
use dashmap::DashMap;
use once_cell::sync::Lazy;
use parking_lot::{Mutex, RwLock};
use std::cell::RefCell;
use std::collections::{BTreeMap, BTreeSet, HashMap, VecDeque};
use std::panic::{catch_unwind, AssertUnwindSafe};
use std::sync::atomic::{AtomicBool, AtomicU64, AtomicUsize, Ordering};
use std::time::{Duration, Instant, SystemTime, UNIX_EPOCH};

pub const DEFAULT_OUT: &str = "/verif/.work/replays/witness.history";
const KEYS: [&str; 4] = ["a", "b", "c", "d"];
const SIZES: [usize; 3] = [8, 40, 100];
/// Deviation from the spec (documented): with the three spec sizes no value is ever larger than M, so
/// the "value larger than max_memory" clause would never be exercised; one store in twelve uses this size
/// when max_memory is configured.
const OVERSIZE: usize = 200;
const TTL: u64 = 2;
const FW: f64 = 1.5;
const MAX_RETRIES: usize = 8;

// ------------------------------------------------------------------------------------------------
// observed state
// ------------------------------------------------------------------------------------------------

#[derive(Clone, Copy, PartialEq, Debug)]
enum Birth {
    /// sync engines: `CacheEntry::inserted_at`
    Inst(Instant),
    /// async engine: unix seconds in tuple field `.1`
    Secs(u64),
    /// only in EXPECTED states: stamped by the operation under test
    Fresh,
}

#[derive(Clone, PartialEq, Debug)]
struct Ent {
    value: String,
    est: usize,
    birth: Birth,
    hits: u64,
}

/// store + queue
#[derive(Clone, Debug)]
struct SQ {
    store: BTreeMap<String, Ent>,
    queue: Vec<String>,
}

#[derive(Clone, Debug)]
struct State {
    sq: SQ,
    hits: u64,
    misses: u64,
}

#[derive(Clone, Copy)]
struct Clock {
    inst: Instant,
    secs: u64,
}

fn unix_now() -> Duration {
    SystemTime::now().duration_since(UNIX_EPOCH).unwrap_or(Duration::ZERO)
}

impl Clock {
    fn now() -> Clock {
        Clock { inst: Instant::now(), secs: unix_now().as_secs() }
    }
}

fn age_secs(b: Birth, c: &Clock) -> u64 {
    match b {
        Birth::Inst(i) => c.inst.saturating_duration_since(i).as_secs(),
        Birth::Secs(s) => c.secs.saturating_sub(s),
        Birth::Fresh => 0,
    }
}

impl SQ {
    fn total(&self) -> usize {
        self.store.values().map(|e| e.est).sum()
    }
    fn remove(&mut self, k: &str) {
        self.store.remove(k);
        self.queue.retain(|q| q != k);
    }
    fn without(&self, k: &str) -> SQ {
        let mut s = self.clone();
        s.remove(k);
        s
    }
    fn touch(&mut self, k: &str) {
        self.queue.retain(|q| q != k);
        self.queue.push(k.to_string());
    }
    /// keys of self.store that are absent from other.store
    fn keys_missing_in(&self, other: &SQ) -> Vec<String> {
        self.store.keys().filter(|k| !other.store.contains_key(*k)).cloned().collect()
    }
    fn restricted_to(&self, keep: &BTreeSet<String>) -> SQ {
        SQ {
            store: self.store.iter().filter(|(k, _)| keep.contains(*k)).map(|(k, e)| (k.clone(), e.clone())).collect(),
            queue: self.queue.iter().filter(|k| keep.contains(*k)).cloned().collect(),
        }
    }
}

// ------------------------------------------------------------------------------------------------
// engines: the real code over harness-owned storage
// ------------------------------------------------------------------------------------------------

trait Engine {
    fn get(&self, k: &str) -> Option<String>;
    fn insert(&self, k: &str, v: String);
    fn insertm(&self, k: &str, v: String);
    fn age(&self, k: &str, secs: u64) -> Result<(), String>;
    fn observe(&self) -> State;
    fn clear(&self);
}

fn policy_of(p: Pol) -> EvictionPolicy {
    EvictionPolicy::from(p.name())
}

fn back_in_time(secs: u64) -> Result<Instant, String> {
    Instant::now()
        .checked_sub(Duration::from_millis(secs * 1000 + 400))
        .ok_or_else(|| "monotonic clock too young to age an entry".to_string())
}

fn ent_of(e: &CacheEntry<String>) -> Ent {
    Ent { value: e.value.clone(), est: e.value.estimate_memory(), birth: Birth::Inst(e.inserted_at), hits: e.frequency }
}

struct GlobalEng {
    c: GlobalCache<String>,
}

impl GlobalEng {
    fn new(cfg: &Config) -> GlobalEng {
        type MapT = RwLock<HashMap<String, CacheEntry<String>>>;
        type OrdT = Mutex<VecDeque<String>>;
        fn mk_map() -> MapT {
            RwLock::new(HashMap::new())
        }
        fn mk_ord() -> OrdT {
            Mutex::new(VecDeque::new())
        }
        let map: &'static Lazy<MapT> = Box::leak(Box::new(Lazy::new(mk_map as fn() -> MapT)));
        let order: &'static Lazy<OrdT> = Box::leak(Box::new(Lazy::new(mk_ord as fn() -> OrdT)));
        let stats: &'static Lazy<CacheStats> =
            Box::leak(Box::new(Lazy::new(CacheStats::new as fn() -> CacheStats)));
        GlobalEng {
            c: GlobalCache::new(map, order, cfg.limit, cfg.max_memory, policy_of(cfg.policy), cfg.ttl, cfg.fw, stats),
        }
    }
}

impl Engine for GlobalEng {
    fn get(&self, k: &str) -> Option<String> {
        self.c.get(k)
    }
    fn insert(&self, k: &str, v: String) {
        self.c.insert(k, v)
    }
    fn insertm(&self, k: &str, v: String) {
        self.c.insert_with_memory(k, v)
    }
    fn age(&self, k: &str, secs: u64) -> Result<(), String> {
        let t = back_in_time(secs)?;
        if let Some(e) = self.c.map.write().get_mut(k) {
            e.inserted_at = t;
        }
        Ok(())
    }
    fn observe(&self) -> State {
        let store = self.c.map.read().iter().map(|(k, e)| (k.clone(), ent_of(e))).collect();
        let queue = self.c.order.lock().iter().cloned().collect();
        State { sq: SQ { store, queue }, hits: self.c.stats.hits(), misses: self.c.stats.misses() }
    }
    fn clear(&self) {
        self.c.map.write().clear();
        self.c.order.lock().clear();
    }
}

thread_local! {
    static S_MAP: RefCell<HashMap<String, CacheEntry<String>>> = RefCell::new(HashMap::new());
    static S_ORDER: RefCell<VecDeque<String>> = RefCell::new(VecDeque::new());
}

struct ThreadEng {
    c: ThreadLocalCache<String>,
}

impl ThreadEng {
    /// Must be created on a freshly spawned thread (the thread_local statics start empty there).
    fn new(cfg: &Config) -> ThreadEng {
        ThreadEng {
            c: ThreadLocalCache::new(&S_MAP, &S_ORDER, cfg.limit, cfg.max_memory, policy_of(cfg.policy), cfg.ttl, cfg.fw),
        }
    }
}

impl Engine for ThreadEng {
    fn get(&self, k: &str) -> Option<String> {
        self.c.get(k)
    }
    fn insert(&self, k: &str, v: String) {
        self.c.insert(k, v)
    }
    fn insertm(&self, k: &str, v: String) {
        self.c.insert_with_memory(k, v)
    }
    fn age(&self, k: &str, secs: u64) -> Result<(), String> {
        let t = back_in_time(secs)?;
        S_MAP.with(|m| {
            if let Some(e) = m.borrow_mut().get_mut(k) {
                e.inserted_at = t;
            }
        });
        Ok(())
    }
    fn observe(&self) -> State {
        let store = S_MAP.with(|m| m.borrow().iter().map(|(k, e)| (k.clone(), ent_of(e))).collect());
        let queue = S_ORDER.with(|o| o.borrow().iter().cloned().collect());
        let st = self.c.stats();
        State { sq: SQ { store, queue }, hits: st.hits(), misses: st.misses() }
    }
    fn clear(&self) {
        S_MAP.with(|m| m.borrow_mut().clear());
        S_ORDER.with(|o| o.borrow_mut().clear());
    }
}

struct AsyncEng {
    c: AsyncGlobalCache<'static, String>,
    map: &'static DashMap<String, (String, u64, u64)>,
    order: &'static Mutex<VecDeque<String>>,
    stats: &'static CacheStats,
}

impl AsyncEng {
    fn new(cfg: &Config) -> AsyncEng {
        let map: &'static DashMap<String, (String, u64, u64)> = Box::leak(Box::new(DashMap::new()));
        let order: &'static Mutex<VecDeque<String>> = Box::leak(Box::new(Mutex::new(VecDeque::new())));
        let stats: &'static CacheStats = Box::leak(Box::new(CacheStats::new()));
        AsyncEng {
            c: AsyncGlobalCache::new(map, order, cfg.limit, cfg.max_memory, policy_of(cfg.policy), cfg.ttl, cfg.fw, stats),
            map,
            order,
            stats,
        }
    }
}

impl Engine for AsyncEng {
    fn get(&self, k: &str) -> Option<String> {
        self.c.get(k)
    }
    fn insert(&self, k: &str, v: String) {
        self.c.insert(k, v)
    }
    fn insertm(&self, k: &str, v: String) {
        self.c.insert_with_memory(k, v)
    }
    fn age(&self, k: &str, secs: u64) -> Result<(), String> {
        let now = unix_now().as_secs();
        if let Some(mut e) = self.map.get_mut(k) {
            e.1 = now.saturating_sub(secs);
        }
        Ok(())
    }
    fn observe(&self) -> State {
        let store = self
            .map
            .iter()
            .map(|r| {
                let (v, ts, f) = r.value();
                (r.key().clone(), Ent { value: v.clone(), est: v.estimate_memory(), birth: Birth::Secs(*ts), hits: *f })
            })
            .collect();
        let queue = self.order.lock().iter().cloned().collect();
        State { sq: SQ { store, queue }, hits: self.stats.hits(), misses: self.stats.misses() }
    }
    fn clear(&self) {
        self.map.clear();
        self.order.lock().clear();
    }
}

/// Build the engine for `cfg` and run `f` on it; the thread-local flavour gets a freshly spawned thread.
fn on_engine<R: Send + 'static>(cfg: &Config, f: impl FnOnce(&dyn Engine) -> R + Send + 'static) -> Result<R, String> {
    match cfg.flavour {
        Flavour::Global => Ok(f(&GlobalEng::new(cfg))),
        Flavour::Async => Ok(f(&AsyncEng::new(cfg))),
        Flavour::Thread => {
            let cfg = cfg.clone();
            std::thread::spawn(move || f(&ThreadEng::new(&cfg)))
                .join()
                .map_err(|_| "harness thread panicked".to_string())
        }
    }
}

// ------------------------------------------------------------------------------------------------
// the step oracle
// ------------------------------------------------------------------------------------------------

pub struct Violation {
    pub prop: &'static str,
    /// 1-based index of the failing operation in the history
    pub step: usize,
    pub what: String,
}

struct Fail {
    prop: &'static str,
    what: String,
}
type Chk = Result<(), Fail>;

fn fail<T>(prop: &'static str, what: String) -> Result<T, Fail> {
    Err(Fail { prop, what })
}

struct Oracle<'a> {
    cfg: &'a Config,
    /// clock read right before the operation (ages of the pre-state are taken at c0)
    c0: Clock,
    /// clock read right after the operation
    c1: Clock,
}

fn keyset(sq: &SQ) -> BTreeSet<String> {
    sq.store.keys().cloned().collect()
}

impl<'a> Oracle<'a> {
    fn is_async(&self) -> bool {
        self.cfg.flavour == Flavour::Async
    }
    fn counts(&self) -> bool {
        matches!(self.cfg.policy, Pol::Lfu | Pol::Arc | Pol::Tlru)
    }
    fn touches(&self) -> bool {
        matches!(self.cfg.policy, Pol::Lru | Pol::Arc | Pol::Tlru)
            && (!self.is_async() || self.cfg.limit.is_some() || self.cfg.max_memory.is_some())
    }
    /// property a wrong victim / wrong recency / wrong hit count is attributed to
    fn policy_prop(&self) -> &'static str {
        match self.cfg.policy {
            Pol::Fifo | Pol::Lru | Pol::Random => "C07",
            Pol::Lfu | Pol::Arc | Pol::Tlru => "C08",
        }
    }
    fn expired(&self, e: &Ent) -> bool {
        self.cfg.ttl.map_or(false, |t| age_secs(e.birth, &self.c0) >= t)
    }
    /// index in the queue FIFO/LRU evict from (the front; the back under --selftest-oracle)
    fn fifo_index(&self, len: usize) -> usize {
        if self.cfg.selftest {
            len - 1
        } else {
            0
        }
    }

    fn birth_ok(&self, exp: Birth, act: Birth) -> bool {
        match (exp, act) {
            (Birth::Fresh, Birth::Inst(i)) => self.c1.inst.saturating_duration_since(i).as_secs() <= 1,
            (Birth::Fresh, Birth::Secs(s)) => self.c0.secs <= s && s <= self.c1.secs,
            (e, a) => e == a,
        }
    }

    /// WF(S): queue has no duplicates and set(queue) == keys(store)  [C04]
    fn wf(&self, s: &SQ) -> Chk {
        let set: BTreeSet<String> = s.queue.iter().cloned().collect();
        if set.len() != s.queue.len() {
            return fail("C04", format!("queue {:?} contains duplicates", s.queue));
        }
        if set != keyset(s) {
            return fail("C04", format!("queue {:?} and store keys {:?} differ", s.queue, keyset(s)));
        }
        if let Some(n) = self.cfg.limit {
            if s.store.len() > n {
                return fail("C04", format!("store holds {} entries, limit is {n}", s.store.len()));
            }
        }
        Ok(())
    }

    /// exact comparison of the observed state with the expected one
    fn diff(&self, exp: &SQ, act: &SQ, keys_prop: &'static str, queue_prop: &'static str) -> Chk {
        let (ek, ak) = (keyset(exp), keyset(act));
        if ek != ak {
            // an entry that should be resident is missing: besides the capacity / memory rule it was lost under, this breaks
            // every "stored and then served" property (C01 C03 C09 C10 C11) -- marked for the --prop filter
            let lost = if ek.iter().any(|k| !ak.contains(k)) { " [lost entry]" } else { "" };
            return fail(keys_prop, format!("store keys are {ak:?}, expected {ek:?}{lost}"));
        }
        for (k, e) in &exp.store {
            let a = &act.store[k];
            if a.value != e.value {
                // a store that did not replace the value: besides C01 this breaks "the fresh result replaces the stale
                // entry" (C11) -- marked for the --prop filter
                return fail("C01", format!("stored value of {k} is {:?}, expected {:?} [value not replaced]", a.value, e.value));
            }
            if !self.birth_ok(e.birth, a.birth) {
                // an entry that was just (re-)stored must carry a fresh birth time: besides the TTL rule this breaks the
                // "a refresh replaces the entry" properties (C11, C20) -- marked for the --prop filter
                let w = if e.birth == Birth::Fresh { "is not fresh [stale refresh]" } else { "changed" };
                return fail("C06", format!("birth time of {k} {w}: {:?}, expected {:?}", a.birth, e.birth));
            }
            if a.hits != e.hits {
                return fail("C08", format!("hit counter of {k} is {}, expected {}", a.hits, e.hits));
            }
            if a.est != e.est {
                return fail("C05", format!("memory estimate of {k} is {}, expected {}", a.est, e.est));
            }
        }
        if act.queue != exp.queue {
            let (mut x, mut y) = (act.queue.clone(), exp.queue.clone());
            x.sort();
            y.sort();
            // a queue that is not a permutation of the expected one is a representation defect [C04],
            // except on the expiry path where purging the queue is part of the expiry rule itself [C06]
            let prop = if x == y || queue_prop == "C06" { queue_prop } else { "C04" };
            return fail(prop, format!("queue is {:?}, expected {:?}", act.queue, exp.queue));
        }
        Ok(())
    }

    fn stats(&self, pre: &State, post: &State, dh: u64, dm: u64) -> Chk {
        if post.hits != pre.hits + dh || post.misses != pre.misses + dm {
            return fail(
                "C15",
                format!(
                    "stats went hits {}->{} misses {}->{}, expected hits +{dh} misses +{dm}",
                    pre.hits, post.hits, pre.misses, post.misses
                ),
            );
        }
        Ok(())
    }

    // ---- get -----------------------------------------------------------------------------------
    fn check_get(&self, pre: &State, k: &str, result: &Option<String>, post: &State) -> Chk {
        let qp = self.policy_prop();
        match pre.sq.store.get(k) {
            None => {
                if let Some(v) = result {
                    return fail("C01", format!("get {k}: key absent but Some({v:?}) returned"));
                }
                self.diff(&pre.sq, &post.sq, "C04", qp)?;
                self.stats(pre, post, 0, 1)
            }
            Some(e) if self.expired(e) => {
                if let Some(v) = result {
                    return fail(
                        "C06",
                        format!("get {k}: entry of age {}s (ttl {:?}) served Some({v:?})", age_secs(e.birth, &self.c0), self.cfg.ttl),
                    );
                }
                self.diff(&pre.sq.without(k), &post.sq, "C06", "C06")?;
                self.stats(pre, post, 0, 1)
            }
            Some(e) => {
                match result {
                    None => {
                        let prop = if self.cfg.ttl.is_some() && !post.sq.store.contains_key(k) { "C06" } else { "C01" };
                        return fail(
                            prop,
                            format!("get {k}: live entry (age {}s, ttl {:?}) not served", age_secs(e.birth, &self.c0), self.cfg.ttl),
                        );
                    }
                    Some(v) if *v != e.value => {
                        return fail("C01", format!("get {k} returned {v:?}, stored value is {:?}", e.value));
                    }
                    _ => {}
                }
                let mut exp = pre.sq.clone();
                if self.counts() {
                    let ent = exp.store.get_mut(k).unwrap();
                    ent.hits = ent.hits.saturating_add(1);
                }
                if self.touches() {
                    exp.touch(k);
                }
                self.diff(&exp, &post.sq, "C04", qp)?;
                self.stats(pre, post, 1, 0)
            }
        }
    }

    // ---- victims -------------------------------------------------------------------------------
    /// score used by ARC / TLRU (spec formula: rank = index in the queue + 1)
    fn score(&self, s: &SQ, idx: usize) -> f64 {
        let e = &s.store[&s.queue[idx]];
        let rank = (idx + 1) as f64;
        let h = e.hits as f64;
        match self.cfg.policy {
            Pol::Tlru => {
                let w = self.cfg.fw.unwrap_or(1.0);
                let fc = if e.hits == 0 { 0.0 } else { h.powf(w) };
                let remaining = match self.cfg.ttl {
                    Some(t) => (1.0 - (age_secs(e.birth, &self.c0) as f64 / t as f64).min(1.0)).max(0.0),
                    None => 1.0,
                };
                fc * rank * remaining
            }
            _ => h * rank,
        }
    }

    /// Is `x` an allowed victim of ONE policy eviction from `s` (WF(s) holds, x in s)?
    fn allowed(&self, s: &SQ, x: &str) -> Chk {
        let hx = s.store[x].hits;
        match self.cfg.policy {
            Pol::Random => Ok(()),
            Pol::Fifo | Pol::Lru => {
                let want = &s.queue[self.fifo_index(s.queue.len())];
                if want != x {
                    return fail("C07", format!("evicted {x}, expected {want} (queue before eviction {:?})", s.queue));
                }
                Ok(())
            }
            Pol::Lfu => {
                let min = s.store.values().map(|e| e.hits).min().unwrap_or(0);
                if hx != min {
                    return fail("C08", format!("evicted {x} with {hx} hits although the minimum is {min}"));
                }
                Ok(())
            }
            Pol::Arc | Pol::Tlru if !self.is_async() => {
                // sync: eviction happens with the newcomer (0 hits) present, so the minimal score is 0:
                // x is allowed iff hits(x) == 0, or (TLRU with ttl) age(x) >= ttl.
                let zero = |e: &Ent| {
                    e.hits == 0
                        || (self.cfg.policy == Pol::Tlru && self.cfg.ttl.map_or(false, |t| age_secs(e.birth, &self.c0) >= t))
                };
                if !s.store.values().any(|e| zero(e)) {
                    return Ok(()); // unreachable from a state within the limit; no rule applies
                }
                if !zero(&s.store[x]) {
                    return fail(
                        "C08",
                        format!("evicted {x} ({hx} hits, age {}s) although an entry with score 0 exists", age_secs(s.store[x].birth, &self.c0)),
                    );
                }
                Ok(())
            }
            Pol::Arc | Pol::Tlru => {
                let scores: Vec<f64> = (0..s.queue.len()).map(|i| self.score(s, i)).collect();
                let min = scores.iter().cloned().fold(f64::INFINITY, f64::min);
                let ix = s.queue.iter().position(|q| q == x).unwrap();
                let sx = scores[ix];
                if (sx - min).abs() > 1e-9 * sx.abs().max(min.abs()) {
                    return fail(
                        "C08",
                        format!("evicted {x} with score {sx} although the minimum is {min} (queue {:?}, scores {scores:?})", s.queue),
                    );
                }
                Ok(())
            }
        }
    }

    fn new_ent(v: &str, est: usize) -> Ent {
        Ent { value: v.to_string(), est, birth: Birth::Fresh, hits: 0 }
    }

    // ---- insert, sync ----------------------------------------------------------------------------
    fn sync_s1(pre: &SQ, k: &str, v: &str, est: usize) -> SQ {
        let mut s1 = pre.clone();
        s1.store.insert(k.to_string(), Self::new_ent(v, est));
        s1.touch(k);
        s1
    }

    /// entry-limit step of the sync insert applied to s1; `mem` = called from insertm with total(s1) <= M
    fn check_limit_step_sync(&self, s1: &SQ, post: &SQ, mem: bool) -> Chk {
        let extra = post.keys_missing_in(s1);
        if !extra.is_empty() {
            return fail("C04", format!("keys {extra:?} appeared in the store"));
        }
        let victims = s1.keys_missing_in(post);
        let over = self.cfg.limit.map_or(false, |n| s1.queue.len() > n);
        let exp = if !over {
            if !victims.is_empty() {
                let p = if mem { "C05" } else { "C04" };
                return fail(p, format!("{victims:?} displaced although neither the entry limit nor max_memory was exceeded"));
            }
            s1.clone()
        } else {
            if victims.len() != 1 {
                return fail(
                    "C04",
                    format!("store over its limit {:?}: expected exactly one victim, got {victims:?}", self.cfg.limit),
                );
            }
            self.allowed(s1, &victims[0])?;
            s1.without(&victims[0])
        };
        self.diff(&exp, post, "C04", self.policy_prop())
    }

    fn check_insert_sync(&self, pre: &State, k: &str, v: &str, est: usize, post: &State) -> Chk {
        let s1 = Self::sync_s1(&pre.sq, k, v, est);
        self.check_limit_step_sync(&s1, &post.sq, false)?;
        self.stats(pre, post, 0, 0)
    }

    /// greedy simulation of `n` ... evict while `need(total)`; None when LFU meets a tie
    fn sim_evict_one(&self, s: &mut SQ) -> Option<()> {
        match self.cfg.policy {
            Pol::Fifo | Pol::Lru => {
                if s.queue.is_empty() {
                    return None;
                }
                let x = s.queue[self.fifo_index(s.queue.len())].clone();
                s.remove(&x);
                Some(())
            }
            Pol::Lfu => {
                let min = s.store.values().map(|e| e.hits).min()?;
                let mut it = s.store.iter().filter(|(_, e)| e.hits == min);
                let x = it.next()?.0.clone();
                if it.next().is_some() {
                    return None; // tie: no unique expectation
                }
                s.remove(&x);
                Some(())
            }
            _ => None,
        }
    }

    fn victim_count_prop(&self, base: &SQ, exp: &SQ, post: &SQ) -> &'static str {
        if base.keys_missing_in(post).len() != base.keys_missing_in(exp).len() {
            "C05"
        } else {
            self.policy_prop()
        }
    }

    fn check_insertm_sync(&self, pre: &State, k: &str, v: &str, est: usize, post: &State) -> Chk {
        let m = match self.cfg.max_memory {
            None => return self.check_insert_sync(pre, k, v, est, post),
            Some(m) => m,
        };
        if est > m {
            // value larger than max_memory: not cached, nothing else displaced
            self.diff(&pre.sq.without(k), &post.sq, "C05", "C05")?;
            return self.stats(pre, post, 0, 0);
        }
        let s1 = Self::sync_s1(&pre.sq, k, v, est);
        if s1.total() <= m {
            self.check_limit_step_sync(&s1, &post.sq, true)?;
            return self.stats(pre, post, 0, 0);
        }
        if post.sq.total() > m {
            return fail("C05", format!("total memory {} exceeds max_memory {m} after insertm", post.sq.total()));
        }
        // exact expectation where the policy order is deterministic
        let mut sim = Some(s1.clone());
        if let Some(s) = sim.as_mut() {
            let mut ok = true;
            while ok && s.total() > m {
                ok = self.sim_evict_one(s).is_some();
            }
            if ok {
                if let Some(n) = self.cfg.limit {
                    if s.queue.len() > n {
                        ok = self.sim_evict_one(s).is_some();
                    }
                }
            }
            if !ok {
                sim = None;
            }
        }
        match sim {
            Some(exp) => {
                let kp = self.victim_count_prop(&s1, &exp, &post.sq);
                self.diff(&exp, &post.sq, kp, self.policy_prop())?;
            }
            None => {
                // weaker conditions: survivors (and their queue order) unchanged, nothing new
                let extra = post.sq.keys_missing_in(&s1);
                if !extra.is_empty() {
                    return fail("C04", format!("keys {extra:?} appeared in the store"));
                }
                let exp = s1.restricted_to(&keyset(&post.sq));
                self.diff(&exp, &post.sq, "C04", "C04")?;
            }
        }
        self.stats(pre, post, 0, 0)
    }

    // ---- insert, async ---------------------------------------------------------------------------
    /// entry-limit step + store of k on sa = S - k; `mem` = called from insertm with enough memory
    fn check_limit_step_async(&self, sa: &SQ, k: &str, v: &str, est: usize, post: &SQ, mem: bool) -> Chk {
        if !post.store.contains_key(k) {
            return fail("C01", format!("key {k} is not in the store after it was stored"));
        }
        let extra: Vec<String> = post.keys_missing_in(sa).into_iter().filter(|x| x != k).collect();
        if !extra.is_empty() {
            return fail("C04", format!("keys {extra:?} appeared in the store"));
        }
        let victims = sa.keys_missing_in(post);
        let full = self.cfg.limit.map_or(false, |n| sa.store.len() >= n);
        let mut exp = if !full {
            if !victims.is_empty() {
                let p = if mem { "C05" } else { "C04" };
                return fail(p, format!("{victims:?} displaced although neither the entry limit nor max_memory required it"));
            }
            sa.clone()
        } else {
            if victims.len() != 1 {
                return fail(
                    "C04",
                    format!("store at its limit {:?}: expected exactly one victim, got {victims:?}", self.cfg.limit),
                );
            }
            self.allowed(sa, &victims[0])?;
            sa.without(&victims[0])
        };
        exp.store.insert(k.to_string(), Self::new_ent(v, est));
        exp.queue.push(k.to_string());
        self.diff(&exp, post, "C04", self.policy_prop())
    }

    fn check_insert_async(&self, pre: &State, k: &str, v: &str, est: usize, post: &State) -> Chk {
        let sa = pre.sq.without(k);
        self.check_limit_step_async(&sa, k, v, est, &post.sq, false)?;
        self.stats(pre, post, 0, 0)
    }

    fn check_insertm_async(&self, pre: &State, k: &str, v: &str, est: usize, post: &State) -> Chk {
        let m = match self.cfg.max_memory {
            None => return self.check_insert_async(pre, k, v, est, post),
            Some(m) => m,
        };
        let sa = pre.sq.without(k);
        if est > m {
            self.diff(&sa, &post.sq, "C05", "C05")?;
            return self.stats(pre, post, 0, 0);
        }
        if sa.total() + est <= m {
            self.check_limit_step_async(&sa, k, v, est, &post.sq, true)?;
            return self.stats(pre, post, 0, 0);
        }
        if !post.sq.store.contains_key(k) {
            return fail("C01", format!("key {k} is not in the store after it was stored"));
        }
        if post.sq.total() > m {
            return fail("C05", format!("total memory {} exceeds max_memory {m} after insertm", post.sq.total()));
        }
        let mut sim = Some(sa.clone());
        if let Some(s) = sim.as_mut() {
            let mut ok = true;
            while ok && s.total() + est > m {
                ok = self.sim_evict_one(s).is_some();
            }
            if ok {
                if let Some(n) = self.cfg.limit {
                    if s.store.len() >= n {
                        ok = self.sim_evict_one(s).is_some();
                    }
                }
            }
            if !ok {
                sim = None;
            }
        }
        match sim {
            Some(mut exp) => {
                let kp = self.victim_count_prop(&sa, &exp, &post.sq);
                exp.store.insert(k.to_string(), Self::new_ent(v, est));
                exp.queue.push(k.to_string());
                self.diff(&exp, &post.sq, kp, self.policy_prop())?;
            }
            None => {
                let extra: Vec<String> = post.sq.keys_missing_in(&sa).into_iter().filter(|x| x != k).collect();
                if !extra.is_empty() {
                    return fail("C04", format!("keys {extra:?} appeared in the store"));
                }
                let mut exp = sa.restricted_to(&keyset(&post.sq));
                exp.store.insert(k.to_string(), Self::new_ent(v, est));
                exp.queue.push(k.to_string());
                self.diff(&exp, &post.sq, "C04", "C04")?;
            }
        }
        self.stats(pre, post, 0, 0)
    }

    // ---- dispatch --------------------------------------------------------------------------------
    fn check(&self, pre: &State, op: &Op, stored: Option<(&str, usize)>, result: &Option<String>, post: &State) -> Chk {
        match op {
            Op::Get(k) => self.check_get(pre, k, result, post)?,
            Op::Insert(k, _) => {
                let (v, est) = stored.unwrap();
                if self.is_async() {
                    self.check_insert_async(pre, k, v, est, post)?
                } else {
                    self.check_insert_sync(pre, k, v, est, post)?
                }
            }
            Op::InsertM(k, _) => {
                let (v, est) = stored.unwrap();
                if self.is_async() {
                    self.check_insertm_async(pre, k, v, est, post)?
                } else {
                    self.check_insertm_sync(pre, k, v, est, post)?
                }
            }
            Op::Age(..) => {}
        }
        self.wf(&post.sq)
    }
}

// ------------------------------------------------------------------------------------------------
// running one history
// ------------------------------------------------------------------------------------------------

enum Outcome {
    Pass,
    Violation(Violation),
    /// a clock boundary was crossed while an operation ran: the step cannot be judged, run it again
    Ambiguous,
    Harness(String),
}

/// progress beacon for the watchdog
static HEARTBEAT: AtomicU64 = AtomicU64::new(0);
static CUR_STEP: AtomicUsize = AtomicUsize::new(0);
static FINISHED: AtomicBool = AtomicBool::new(false);
static CURRENT: std::sync::Mutex<Option<(Config, Vec<Op>)>> = std::sync::Mutex::new(None);
/// tallies of the SEARCHED line (configs, histories, ops)
static N_CFG: AtomicU64 = AtomicU64::new(0);
static N_HIST: AtomicU64 = AtomicU64::new(0);
static N_OPS: AtomicU64 = AtomicU64::new(0);
static SEARCHING: AtomicBool = AtomicBool::new(false);

fn searched_line() -> String {
    format!(
        "SEARCHED configs={} histories={} ops={}",
        N_CFG.load(Ordering::Relaxed),
        N_HIST.load(Ordering::Relaxed),
        N_OPS.load(Ordering::Relaxed)
    )
}

fn value_for(step: usize, size: usize) -> String {
    let mut s = String::with_capacity(size);
    s.push((b'A' + (step % 26) as u8) as char);
    s
}

/// async time-dependent operations: stay clear of the next second boundary
fn settle_subsecond() {
    while unix_now().subsec_millis() >= 700 {
        std::thread::sleep(Duration::from_millis(2));
    }
}

fn run_history(eng: &dyn Engine, cfg: &Config, ops: &[Op]) -> Outcome {
    eng.clear();
    if let Ok(mut g) = CURRENT.lock() {
        *g = Some((cfg.clone(), ops.to_vec()));
    }
    let time_matters = cfg.ttl.is_some();
    let mut cur = eng.observe();
    for (i, op) in ops.iter().enumerate() {
        CUR_STEP.store(i + 1, Ordering::Relaxed);
        HEARTBEAT.fetch_add(1, Ordering::Relaxed);
        if time_matters && cfg.flavour == Flavour::Async {
            settle_subsecond();
        }
        if let Op::Age(k, s) = op {
            if let Err(e) = eng.age(k, *s) {
                return Outcome::Harness(e);
            }
            cur = eng.observe();
            continue;
        }
        let stored: Option<(String, usize)> = match op {
            Op::Insert(_, n) | Op::InsertM(_, n) => {
                let v = value_for(i, *n);
                let est = v.estimate_memory();
                Some((v, est))
            }
            _ => None,
        };
        let to_store = stored.as_ref().map(|(v, _)| {
            // keep the capacity: a clone would shrink it
            let mut s = String::with_capacity(v.capacity());
            s.push_str(v);
            s
        });
        let pre = cur;
        let c0 = Clock::now();
        let r = catch_unwind(AssertUnwindSafe(|| match op {
            Op::Get(k) => eng.get(k),
            Op::Insert(k, _) => {
                eng.insert(k, to_store.unwrap());
                None
            }
            Op::InsertM(k, _) => {
                eng.insertm(k, to_store.unwrap());
                None
            }
            Op::Age(..) => None,
        }));
        let c1 = Clock::now();
        let result = match r {
            Ok(x) => x,
            Err(p) => {
                let msg = p
                    .downcast_ref::<String>()
                    .cloned()
                    .or_else(|| p.downcast_ref::<&str>().map(|s| s.to_string()))
                    .unwrap_or_else(|| "<non-string panic>".into());
                return Outcome::Violation(Violation { prop: "C16", step: i + 1, what: format!("{} panicked: {msg}", op.line()) });
            }
        };
        let post = eng.observe();
        if time_matters {
            let crossed = pre.sq.store.values().any(|e| age_secs(e.birth, &c0) != age_secs(e.birth, &c1))
                || (cfg.flavour == Flavour::Async && c0.secs != c1.secs);
            if crossed {
                return Outcome::Ambiguous;
            }
        }
        let o = Oracle { cfg, c0, c1 };
        if let Err(f) = o.check(&pre, op, stored.as_ref().map(|(v, e)| (v.as_str(), *e)), &result, &post) {
            return Outcome::Violation(Violation { prop: f.prop, step: i + 1, what: format!("{}: {}", op.line(), f.what) });
        }
        cur = post;
    }
    Outcome::Pass
}

fn run_history_settled(eng: &dyn Engine, cfg: &Config, ops: &[Op]) -> Result<Option<Violation>, String> {
    for _ in 0..MAX_RETRIES {
        match run_history(eng, cfg, ops) {
            Outcome::Pass => return Ok(None),
            Outcome::Violation(v) => return Ok(Some(v)),
            Outcome::Harness(e) => return Err(e),
            Outcome::Ambiguous => continue,
        }
    }
    Err(format!("history kept crossing clock boundaries {MAX_RETRIES} times (machine stalled?)"))
}

/// `--history`: rebuild the configuration, run the operations under the oracle.
pub fn replay(cfg: &Config, ops: &[Op]) -> Result<Option<Violation>, String> {
    let (c, o) = (cfg.clone(), ops.to_vec());
    let r = on_engine(cfg, move |eng| run_history_settled(eng, &c, &o))?;
    FINISHED.store(true, Ordering::Relaxed);
    r
}

pub fn witness_line(cfg: &Config, v: &Violation) -> String {
    format!(
        "WITNESS property={} flavour={} policy={} step={} {}",
        v.prop,
        cfg.flavour.name(),
        cfg.policy.name(),
        v.step,
        v.what
    )
}

fn write_history(path: &str, cfg: &Config, ops: &[Op]) -> Result<(), String> {
    if let Some(dir) = std::path::Path::new(path).parent() {
        std::fs::create_dir_all(dir).map_err(|e| format!("cannot create {}: {e}", dir.display()))?;
    }
    std::fs::write(path, format_history(cfg, ops)).map_err(|e| format!("cannot write {path}: {e}"))
}

/// An operation of mutated code may never return (lost wake-up, endless eviction loop). The watchdog
/// turns 10 s without progress into a witness instead of a hung search.
pub fn start_watchdog(out: Option<String>) {
    std::thread::spawn(move || {
        let mut last = HEARTBEAT.load(Ordering::Relaxed);
        let mut still = 0;
        loop {
            std::thread::sleep(Duration::from_secs(1));
            if FINISHED.load(Ordering::Relaxed) {
                return;
            }
            let h = HEARTBEAT.load(Ordering::Relaxed);
            if h != last {
                last = h;
                still = 0;
                continue;
            }
            still += 1;
            if still < 10 {
                continue;
            }
            let cur = CURRENT.lock().ok().and_then(|g| g.clone());
            if let Some((cfg, ops)) = cur {
                let step = CUR_STEP.load(Ordering::Relaxed).clamp(1, ops.len().max(1));
                let upto = &ops[..step.min(ops.len())];
                if let Some(p) = &out {
                    let _ = write_history(p, &cfg, upto);
                }
                let what = format!("{}: operation did not return within 10 s (hang)", upto.last().map(|o| o.line()).unwrap_or_default());
                println!("{}", witness_line(&cfg, &Violation { prop: "C16", step, what }));
                if SEARCHING.load(Ordering::Relaxed) {
                    if let Some(p) = &out {
                        println!("HISTORY {p}");
                    }
                    N_OPS.fetch_add(step as u64, Ordering::Relaxed);
                    println!("{}", searched_line());
                }
                std::process::exit(1);
            }
            eprintln!("harness error: no progress for 10 s outside an operation");
            std::process::exit(2);
        }
    });
}

// ------------------------------------------------------------------------------------------------
// the search
// ------------------------------------------------------------------------------------------------

struct Rng(u64);

impl Rng {
    fn new(seed: u64) -> Rng {
        let mut r = Rng(seed ^ 0x9E37_79B9_7F4A_7C15);
        if r.0 == 0 {
            r.0 = 0x2545_F491_4F6C_DD1D;
        }
        for _ in 0..4 {
            r.next();
        }
        r
    }
    fn next(&mut self) -> u64 {
        // xorshift64*
        let mut x = self.0;
        x ^= x >> 12;
        x ^= x << 25;
        x ^= x >> 27;
        self.0 = x;
        x.wrapping_mul(0x2545_F491_4F6C_DD1D)
    }
    fn below(&mut self, n: usize) -> usize {
        ((self.next() >> 33) % n as u64) as usize
    }
}

fn fnv(s: &str) -> u64 {
    let mut h: u64 = 0xcbf2_9ce4_8422_2325;
    for b in s.bytes() {
        h ^= b as u64;
        h = h.wrapping_mul(0x0000_0100_0000_01b3);
    }
    h
}

fn gen_ops(rng: &mut Rng, cfg: &Config, max_ops: usize) -> Vec<Op> {
    let mut ops = Vec::with_capacity(max_ops);
    for _ in 0..max_ops {
        let k = KEYS[rng.below(KEYS.len())].to_string();
        let r = rng.below(100);
        let (age_w, get_w) = if cfg.ttl.is_some() { (20, 60) } else { (0, 50) };
        let op = if r < age_w {
            let t = cfg.ttl.unwrap_or(TTL);
            let ages = [0, t.saturating_sub(1), t, t + 1];
            Op::Age(k, ages[rng.below(ages.len())])
        } else if r < get_w {
            Op::Get(k)
        } else {
            let mut size = SIZES[rng.below(SIZES.len())];
            if cfg.max_memory.is_some() {
                if rng.below(12) == 0 {
                    size = OVERSIZE;
                }
                Op::InsertM(k, size)
            } else {
                Op::Insert(k, size)
            }
        };
        ops.push(op);
    }
    ops
}

pub fn max_memory_m() -> usize {
    let mut s = String::with_capacity(40);
    s.push('v');
    2 * s.estimate_memory() + 10
}

struct Tri(bool, bool); // (include None, include Some)

fn configs(flavours: &[Flavour], policies: &[Pol], mem: &Tri, ttl: &Tri, selftest: bool) -> Vec<Config> {
    let m = max_memory_m();
    let mut v = Vec::new();
    for &flavour in flavours {
        for &policy in policies {
            for limit in [None, Some(1), Some(2), Some(3)] {
                for t in [None, Some(0), Some(TTL)] {
                    if (t.is_none() && !ttl.0) || (t.is_some() && !ttl.1) {
                        continue;
                    }
                    for mm in [None, Some(m)] {
                        if (mm.is_none() && !mem.0) || (mm.is_some() && !mem.1) {
                            continue;
                        }
                        let fws: &[Option<f64>] = if policy == Pol::Tlru { &[None, Some(FW)] } else { &[None] };
                        for &fw in fws {
                            v.push(Config { flavour, policy, limit, ttl: t, max_memory: mm, fw, selftest });
                        }
                    }
                }
            }
        }
    }
    v
}

struct Found {
    ops: Vec<Op>,
    v: Violation,
}

struct ConfigResult {
    histories: u64,
    ops: u64,
    found: Option<Found>,
}

/// `--prop Cxx`: only violations the oracle attributes to this property count (others are skipped, the search goes on).
static PROP_FILTER: std::sync::OnceLock<String> = std::sync::OnceLock::new();

fn run_config(eng: &dyn Engine, cfg: &Config, seed: u64, iters: usize, max_ops: usize) -> Result<ConfigResult, String> {
    let mut rng = Rng::new(seed.wrapping_mul(0x9E37_79B9_7F4A_7C15) ^ fnv(&cfg.header()));
    let mut res = ConfigResult { histories: 0, ops: 0, found: None };
    for _ in 0..iters {
        let ops = gen_ops(&mut rng, cfg, max_ops);
        res.histories += 1;
        N_HIST.fetch_add(1, Ordering::Relaxed);
        match run_history_settled(eng, cfg, &ops)? {
            None => {
                res.ops += ops.len() as u64;
                N_OPS.fetch_add(ops.len() as u64, Ordering::Relaxed);
            }
            Some(v)
                if PROP_FILTER.get().map_or(false, |p| {
                    p != v.prop
                        && !(v.what.contains("[lost entry]") && ["C01", "C03", "C09", "C10", "C11"].contains(&p.as_str()))
                        && !(v.what.contains("[stale refresh]") && ["C11", "C20"].contains(&p.as_str()))
                        && !(v.what.contains("[value not replaced]") && p == "C11")
                }) =>
            {
                res.ops += v.step as u64;
                N_OPS.fetch_add(v.step as u64, Ordering::Relaxed);
            }
            Some(v) => {
                res.ops += v.step as u64;
                N_OPS.fetch_add(v.step as u64, Ordering::Relaxed);
                let upto = ops[..v.step].to_vec();
                res.found = Some(Found { ops: upto, v });
                return Ok(res);
            }
        }
    }
    Ok(res)
}

fn usage() -> i32 {
    eprintln!(
        "usage: cachelito-replay --search [--flavour global|thread|async|all] [--policy fifo|lru|lfu|arc|random|tlru|all]\n\
         \x20                [--seed N] [--iters N] [--max-ops N] [--mem 0|1|both] [--ttl 0|1|both] [--out FILE]\n\
         \x20      cachelito-replay --history FILE"
    );
    2
}

fn tri(s: &str) -> Option<Tri> {
    match s {
        "0" => Some(Tri(true, false)),
        "1" => Some(Tri(false, true)),
        "both" => Some(Tri(true, true)),
        _ => None,
    }
}

/// `--search`: exit code 0 = nothing found within the bound, 1 = witness written, 2 = harness error.
pub fn main_search(args: &[String]) -> i32 {
    let mut flavours: Vec<Flavour> = Flavour::ALL.to_vec();
    let mut policies: Vec<Pol> = Pol::ALL.to_vec();
    let (mut seed, mut iters, mut max_ops) = (1u64, 300usize, 10usize);
    let (mut mem, mut ttl) = (Tri(true, true), Tri(true, true));
    let mut out = DEFAULT_OUT.to_string();
    let mut selftest = false;
    let mut i = 0;
    while i < args.len() {
        let a = args[i].as_str();
        if a == "--search" {
            i += 1;
            continue;
        }
        if a == "--selftest-oracle" {
            selftest = true;
            i += 1;
            continue;
        }
        let Some(val) = args.get(i + 1) else {
            eprintln!("missing value for {a}");
            return usage();
        };
        let ok = match a {
            "--flavour" => {
                if val == "all" {
                    true
                } else if let Some(f) = Flavour::parse(val) {
                    flavours = vec![f];
                    true
                } else {
                    false
                }
            }
            "--policy" => {
                if val == "all" {
                    true
                } else if let Some(p) = Pol::parse(val) {
                    policies = vec![p];
                    true
                } else {
                    false
                }
            }
            "--prop" => PROP_FILTER.set(val.to_string()).is_ok(),
            "--seed" => val.parse().map(|x| seed = x).is_ok(),
            "--iters" => val.parse().map(|x| iters = x).is_ok(),
            "--max-ops" => val.parse().map(|x| max_ops = x).is_ok(),
            "--mem" => tri(val).map(|t| mem = t).is_some(),
            "--ttl" => tri(val).map(|t| ttl = t).is_some(),
            "--out" => {
                out = val.clone();
                true
            }
            _ => {
                eprintln!("unknown option {a}");
                return usage();
            }
        };
        if !ok {
            eprintln!("bad value for {a}: {val}");
            return usage();
        }
        i += 2;
    }

    SEARCHING.store(true, Ordering::Relaxed);
    start_watchdog(Some(out.clone()));
    let started = Instant::now();
    let mut rc = 0;
    for cfg in configs(&flavours, &policies, &mem, &ttl, selftest) {
        N_CFG.fetch_add(1, Ordering::Relaxed);
        let c = cfg.clone();
        let r = on_engine(&cfg, move |eng| run_config(eng, &c, seed, iters, max_ops)).and_then(|r| r);
        match r {
            Err(e) => {
                eprintln!("harness error in [{}]: {e}", cfg.header());
                rc = 2;
                break;
            }
            Ok(res) => {
                if let Some(found) = res.found {
                    if let Err(e) = write_history(&out, &cfg, &found.ops) {
                        eprintln!("harness error: {e}");
                        rc = 2;
                        break;
                    }
                    println!("{}", witness_line(&cfg, &found.v));
                    println!("HISTORY {out}");
                    rc = 1;
                    break;
                }
            }
        }
    }
    FINISHED.store(true, Ordering::Relaxed);
    println!("{}", searched_line());
    eprintln!("bounded search (not a proof): seed={seed} iters={iters} max-ops={max_ops} elapsed={:.1}s", started.elapsed().as_secs_f64());
    rc
}
