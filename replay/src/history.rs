//! Replay of a recorded history file against the real engines (filled in by bin/check replays).
pub fn run_file(path: &str) -> i32 {
    eprintln!("history replay not available for {path}");
    2
}
