//! History files: a configuration header line followed by one operation per line.
//!
//! ```text
//! flavour=global policy=lru limit=2 ttl=none max_memory=none fw=none
//! insert a 8
//! get a
//! age a 2
//! ```
//! `--history FILE` rebuilds the configuration, drives the REAL engine through the operations and
//! runs the same step oracle as `--search` (see search.rs). Exit 0 = passes, 1 = violation, 2 = harness error.
use crate::search;

#[derive(Clone, Copy, PartialEq, Eq, Debug)]
pub enum Flavour {
    Global,
    Thread,
    Async,
}

impl Flavour {
    pub const ALL: [Flavour; 3] = [Flavour::Global, Flavour::Thread, Flavour::Async];
    pub fn name(self) -> &'static str {
        match self {
            Flavour::Global => "global",
            Flavour::Thread => "thread",
            Flavour::Async => "async",
        }
    }
    pub fn parse(s: &str) -> Option<Flavour> {
        Flavour::ALL.iter().copied().find(|f| f.name() == s)
    }
}

#[derive(Clone, Copy, PartialEq, Eq, Debug)]
pub enum Pol {
    Fifo,
    Lru,
    Lfu,
    Arc,
    Random,
    Tlru,
}

impl Pol {
    pub const ALL: [Pol; 6] = [Pol::Fifo, Pol::Lru, Pol::Lfu, Pol::Arc, Pol::Random, Pol::Tlru];
    pub fn name(self) -> &'static str {
        match self {
            Pol::Fifo => "fifo",
            Pol::Lru => "lru",
            Pol::Lfu => "lfu",
            Pol::Arc => "arc",
            Pol::Random => "random",
            Pol::Tlru => "tlru",
        }
    }
    pub fn parse(s: &str) -> Option<Pol> {
        Pol::ALL.iter().copied().find(|p| p.name() == s)
    }
}

#[derive(Clone, PartialEq, Debug)]
pub struct Config {
    pub flavour: Flavour,
    pub policy: Pol,
    pub limit: Option<usize>,
    pub ttl: Option<u64>,
    pub max_memory: Option<usize>,
    pub fw: Option<f64>,
    /// `--selftest-oracle`: the ORACLE (not the library) is deliberately wrong: it expects FIFO/LRU to
    /// evict the back of the queue. Only used to demonstrate that a WITNESS is produced and replayable.
    pub selftest: bool,
}

fn opt<T: std::fmt::Display>(v: &Option<T>) -> String {
    match v {
        Some(x) => x.to_string(),
        None => "none".to_string(),
    }
}

impl Config {
    pub fn header(&self) -> String {
        let mut s = format!(
            "flavour={} policy={} limit={} ttl={} max_memory={} fw={}",
            self.flavour.name(),
            self.policy.name(),
            opt(&self.limit),
            opt(&self.ttl),
            opt(&self.max_memory),
            opt(&self.fw)
        );
        if self.selftest {
            s.push_str(" selftest=1");
        }
        s
    }
}

#[derive(Clone, PartialEq, Debug)]
pub enum Op {
    Get(String),
    Insert(String, usize),
    InsertM(String, usize),
    Age(String, u64),
}

impl Op {
    pub fn line(&self) -> String {
        match self {
            Op::Get(k) => format!("get {k}"),
            Op::Insert(k, n) => format!("insert {k} {n}"),
            Op::InsertM(k, n) => format!("insertm {k} {n}"),
            Op::Age(k, s) => format!("age {k} {s}"),
        }
    }
}

pub fn format_history(cfg: &Config, ops: &[Op]) -> String {
    let mut s = cfg.header();
    s.push('\n');
    for op in ops {
        s.push_str(&op.line());
        s.push('\n');
    }
    s
}

fn parse_opt<T: std::str::FromStr>(key: &str, v: &str) -> Result<Option<T>, String> {
    if v == "none" {
        Ok(None)
    } else {
        v.parse::<T>().map(Some).map_err(|_| format!("bad value for {key}: {v}"))
    }
}

pub fn parse_history(text: &str) -> Result<(Config, Vec<Op>), String> {
    let mut lines = text
        .lines()
        .map(|l| l.trim())
        .filter(|l| !l.is_empty() && !l.starts_with('#'));
    let header = lines.next().ok_or("empty history file")?;
    let mut cfg = Config {
        flavour: Flavour::Global,
        policy: Pol::Lru,
        limit: None,
        ttl: None,
        max_memory: None,
        fw: None,
        selftest: false,
    };
    let (mut seen_flavour, mut seen_policy) = (false, false);
    for tok in header.split_whitespace() {
        let (k, v) = tok.split_once('=').ok_or_else(|| format!("bad header token {tok}"))?;
        match k {
            "flavour" => {
                cfg.flavour = Flavour::parse(v).ok_or_else(|| format!("unknown flavour {v}"))?;
                seen_flavour = true;
            }
            "policy" => {
                cfg.policy = Pol::parse(v).ok_or_else(|| format!("unknown policy {v}"))?;
                seen_policy = true;
            }
            "limit" => cfg.limit = parse_opt("limit", v)?,
            "ttl" => cfg.ttl = parse_opt("ttl", v)?,
            "max_memory" => cfg.max_memory = parse_opt("max_memory", v)?,
            "fw" => cfg.fw = parse_opt("fw", v)?,
            "selftest" => cfg.selftest = v == "1",
            other => return Err(format!("unknown header key {other}")),
        }
    }
    if !seen_flavour || !seen_policy {
        return Err("header must name flavour= and policy=".into());
    }
    if cfg.ttl == Some(0) {
        return Err("ttl=0 is not a meaningful configuration".into());
    }
    let mut ops = Vec::new();
    for l in lines {
        let w: Vec<&str> = l.split_whitespace().collect();
        let num = |i: usize| -> Result<u64, String> {
            w.get(i)
                .ok_or_else(|| format!("missing number in '{l}'"))?
                .parse::<u64>()
                .map_err(|_| format!("bad number in '{l}'"))
        };
        let op = match (w[0], w.len()) {
            ("get", 2) => Op::Get(w[1].to_string()),
            ("insert", 3) => Op::Insert(w[1].to_string(), num(2)? as usize),
            ("insertm", 3) => Op::InsertM(w[1].to_string(), num(2)? as usize),
            ("age", 3) => Op::Age(w[1].to_string(), num(2)?),
            _ => return Err(format!("cannot parse operation '{l}'")),
        };
        ops.push(op);
    }
    Ok((cfg, ops))
}

/// Replay a recorded history file against the real engine. `force_selftest` is the command-line
/// `--selftest-oracle` flag (a file written by a selftest search carries `selftest=1` itself).
pub fn run_file(path: &str, force_selftest: bool) -> i32 {
    let text = match std::fs::read_to_string(path) {
        Ok(t) => t,
        Err(e) => {
            eprintln!("cannot read history {path}: {e}");
            return 2;
        }
    };
    let (mut cfg, ops) = match parse_history(&text) {
        Ok(x) => x,
        Err(e) => {
            eprintln!("cannot parse history {path}: {e}");
            return 2;
        }
    };
    if force_selftest {
        cfg.selftest = true;
    }
    search::start_watchdog(None);
    match search::replay(&cfg, &ops) {
        Ok(None) => {
            println!("PASS history={path} {} ops={}", cfg.header(), ops.len());
            0
        }
        Ok(Some(v)) => {
            println!("{}", search::witness_line(&cfg, &v));
            1
        }
        Err(e) => {
            eprintln!("harness error: {e}");
            2
        }
    }
}
