//! `--registry-search`: random histories on the REAL `cachelito_core::InvalidationRegistry`, checked step by step
//! against a model of its three index tables and two callback tables.
//!
//! A bounded stand-in (never a proof) for C12 / C13 on the registry (spec: /verif/notes/macro_history_spec.md, part C).
//!
//! ```text
//! cachelito-replay --registry-search [--prop Cxx] [--seed N] [--iters N] [--max-ops N] [--out FILE]
//! cachelito-replay --registry-replay FILE               exit 0 held / 1 witness / 2 harness
//! ```
//!
//! Semantics derived from the unchanged code (cachelito-core/src/invalidation.rs); the model implements exactly this:
//!
//! * `InvalidationRegistry::default()` is public (`impl Default`), so every history gets a registry of its own.
//! * `register(name, metadata)` only ADDS: for every tag / event / dependency of the metadata, `name` is inserted into the
//!   set kept under that string in the respective table. A second `register` of the same name does NOT withdraw the index
//!   entries of the first one (only the private `cache_metadata` record, which no public function reads, is replaced):
//!   the name stays listed under every string it was ever registered with. Empty strings, duplicates inside one list and
//!   a cache's own name are ordinary strings. The three tables are independent: a string registered as a tag is
//!   unknown as an event or a dependency.
//! * `register_callback` / `register_invalidation_callback` REPLACE the callback kept under that name; they do not
//!   need a previous `register`, and `register` does not need them.
//! * `invalidate_by_tag / _event / _dependency(x)` run the CLEAR callback of every name listed under `x` in that one
//!   table that has one, each once, and return how many they ran; names without a clear callback are skipped and not
//!   counted. `invalidate_cache(name)` runs the clear callback of `name` if there is one and says whether there was
//!   (whether or not `name` was ever `register`ed). Check callbacks play no part in these four.
//! * `invalidate_with(name, p)` hands `p` to the CHECK callback of `name` if there is one and says whether there was;
//!   `invalidate_all_with(p)` hands `|key| p(name, key)` to every check callback, each once, and returns their number.
//!   Clear callbacks play no part in these two.
//! * `get_caches_by_tag / _event`, `get_dependent_caches` return the names listed under the string, each once, in no
//!   particular order.
use crate::macro_search::{panic_text, Rng};
use cachelito_core::{InvalidationMetadata, InvalidationRegistry};
use std::collections::{BTreeMap, BTreeSet};
use std::fmt;
use std::panic::{catch_unwind, AssertUnwindSafe};
use std::sync::{Arc, Mutex};
use std::time::Instant;

const DEFAULT_OUT: &str = "/verif/.work/replays/registry.witness";
const NAMES: [&str; 5] = ["c0", "c1", "c2", "c3", "c4"];
/// tags, events and dependencies are drawn from these: blank strings and cache names are legal
const WORDS: [&str; 5] = ["", "x", "y", "c0", "c1"];
/// the keys on which the predicate a check callback receives is compared with the one that was passed in
const KEYS: [&str; 5] = ["", "0", "1", "x", "c0"];
const PROPS: [&str; 3] = ["C12", "C13", "C16"];

#[derive(Clone, Copy, PartialEq, Eq, Debug)]
enum Table {
    Tag,
    Event,
    Dep,
}
impl Table {
    fn idx(self) -> usize {
        self as usize
    }
    fn invalidate(self) -> &'static str {
        ["invalidate_by_tag", "invalidate_by_event", "invalidate_by_dependency"][self.idx()]
    }
    fn getter(self) -> &'static str {
        ["get_caches_by_tag", "get_caches_by_event", "get_dependent_caches"][self.idx()]
    }
    fn token(self) -> &'static str {
        ["tag", "event", "dep"][self.idx()]
    }
}

#[derive(Clone, PartialEq, Eq, Debug)]
enum Op {
    /// name, then indices into WORDS (duplicates allowed) for tags, events, dependencies
    Register(usize, Vec<usize>, Vec<usize>, Vec<usize>),
    Callback(usize),
    Check(usize),
    By(Table, usize),
    Cache(usize),
    /// name, mask over KEYS
    With(usize, u8),
    /// 25 bits: verdict for (name n, key k) is bit n * 5 + k
    AllWith(u32),
    Get(Table, usize),
}

fn words(v: &[usize]) -> Vec<&'static str> {
    v.iter().map(|i| WORDS[*i]).collect()
}
fn all_with_verdict(bits: u32, name: usize, key: usize) -> bool {
    bits & (1 << (name * KEYS.len() + key)) != 0
}
fn key_index(key: &str) -> Option<usize> {
    KEYS.iter().position(|k| *k == key)
}
fn name_index(name: &str) -> Option<usize> {
    NAMES.iter().position(|n| *n == name)
}

impl fmt::Display for Op {
    fn fmt(&self, f: &mut fmt::Formatter<'_>) -> fmt::Result {
        match self {
            Op::Register(n, t, e, d) => {
                write!(f, "register({:?}, tags={:?}, events={:?}, dependencies={:?})", NAMES[*n], words(t), words(e), words(d))
            }
            Op::Callback(n) => write!(f, "register_callback({:?})", NAMES[*n]),
            Op::Check(n) => write!(f, "register_invalidation_callback({:?})", NAMES[*n]),
            Op::By(t, w) => write!(f, "{}({:?})", t.invalidate(), WORDS[*w]),
            Op::Cache(n) => write!(f, "invalidate_cache({:?})", NAMES[*n]),
            Op::With(n, m) => {
                let keys: Vec<&str> = (0..KEYS.len()).filter(|k| m & (1 << k) != 0).map(|k| KEYS[k]).collect();
                write!(f, "invalidate_with({:?}, key in {keys:?})", NAMES[*n])
            }
            Op::AllWith(b) => write!(f, "invalidate_all_with(verdict bits {b:#x})"),
            Op::Get(t, w) => write!(f, "{}({:?})", t.getter(), WORDS[*w]),
        }
    }
}

fn list_token(v: &[usize]) -> String {
    if v.is_empty() {
        "-".to_string()
    } else {
        v.iter().map(|i| i.to_string()).collect()
    }
}
fn parse_list(s: &str) -> Option<Vec<usize>> {
    if s == "-" {
        return Some(Vec::new());
    }
    s.chars().map(|c| c.to_digit(10).map(|d| d as usize).filter(|d| *d < WORDS.len())).collect()
}
impl Op {
    fn token(&self) -> String {
        match self {
            Op::Register(n, t, e, d) => format!("reg:{n}:t{}:e{}:d{}", list_token(t), list_token(e), list_token(d)),
            Op::Callback(n) => format!("cb:{n}"),
            Op::Check(n) => format!("chk:{n}"),
            Op::By(t, w) => format!("{}:{w}", t.token()),
            Op::Cache(n) => format!("inv:{n}"),
            Op::With(n, m) => format!("with:{n}:{m}"),
            Op::AllWith(b) => format!("allwith:{b}"),
            Op::Get(t, w) => format!("g{}:{w}", t.token()),
        }
    }
    fn parse(tok: &str) -> Result<Op, String> {
        let bad = || format!("bad operation {tok:?}");
        let parts: Vec<&str> = tok.split(':').collect();
        let idx = |s: &str, n: usize| s.parse::<usize>().ok().filter(|x| *x < n);
        let table = |s: &str| match s {
            "tag" => Some(Table::Tag),
            "event" => Some(Table::Event),
            "dep" => Some(Table::Dep),
            _ => None,
        };
        let op = match parts.as_slice() {
            ["reg", n, t, e, d] => {
                let n = idx(n, NAMES.len()).ok_or_else(bad)?;
                let t = t.strip_prefix('t').and_then(parse_list).ok_or_else(bad)?;
                let e = e.strip_prefix('e').and_then(parse_list).ok_or_else(bad)?;
                let d = d.strip_prefix('d').and_then(parse_list).ok_or_else(bad)?;
                Op::Register(n, t, e, d)
            }
            ["cb", n] => Op::Callback(idx(n, NAMES.len()).ok_or_else(bad)?),
            ["chk", n] => Op::Check(idx(n, NAMES.len()).ok_or_else(bad)?),
            ["inv", n] => Op::Cache(idx(n, NAMES.len()).ok_or_else(bad)?),
            ["with", n, m] => Op::With(idx(n, NAMES.len()).ok_or_else(bad)?, m.parse::<u8>().ok().filter(|m| *m < 32).ok_or_else(bad)?),
            ["allwith", b] => Op::AllWith(b.parse::<u32>().ok().filter(|b| *b < (1 << 25)).ok_or_else(bad)?),
            [k, w] => {
                let w = idx(w, WORDS.len()).ok_or_else(bad)?;
                if let Some(t) = table(k) {
                    Op::By(t, w)
                } else if let Some(t) = k.strip_prefix('g').and_then(table) {
                    Op::Get(t, w)
                } else {
                    return Err(bad());
                }
            }
            _ => return Err(bad()),
        };
        Ok(op)
    }
}

fn gen_ops(rng: &mut Rng, max_ops: usize) -> Vec<Op> {
    let n = 1 + rng.below(max_ops.max(1));
    // few names / few words make collisions (re-registration, shared strings) likely
    let n_names = 2 + rng.below(NAMES.len() - 1);
    let n_words = 2 + rng.below(WORDS.len() - 1);
    let list = |rng: &mut Rng| -> Vec<usize> {
        let len = [0, 0, 1, 1, 2, 3][rng.below(6)];
        (0..len).map(|_| rng.below(n_words)).collect()
    };
    let table = |rng: &mut Rng| [Table::Tag, Table::Event, Table::Dep][rng.below(3)];
    let mut ops = Vec::with_capacity(n);
    for _ in 0..n {
        let name = rng.below(n_names);
        let op = match rng.below(100) {
            0..=24 => {
                let (t, e, mut d) = (list(rng), list(rng), list(rng));
                // a cache that lists its OWN name as a dependency (only c0 and c1 are also words)
                if let Some(own) = WORDS.iter().position(|w| *w == NAMES[name]) {
                    if rng.below(4) == 0 {
                        d.push(own);
                    }
                }
                Op::Register(name, t, e, d)
            }
            25..=39 => Op::Callback(name),
            40..=49 => Op::Check(name),
            50..=69 => {
                let t = table(rng);
                Op::By(t, rng.below(n_words))
            }
            70..=75 => Op::Cache(name),
            76..=81 => Op::With(name, (rng.next() >> 40) as u8 & 31),
            82..=86 => Op::AllWith((rng.next() >> 32) as u32 & ((1 << 25) - 1)),
            _ => {
                let t = table(rng);
                Op::Get(t, rng.below(n_words))
            }
        };
        ops.push(op);
    }
    ops
}

// ------------------------------------------------------------------------------------------------
// the model and what the callbacks record
// ------------------------------------------------------------------------------------------------
#[derive(Clone, PartialEq, Eq, Debug)]
enum Ev {
    /// the clear callback with this id ran
    Clear(u64),
    /// the check callback with this id ran; verdicts of the predicate it was given on KEYS
    Check(u64, Vec<bool>),
}

#[derive(Default)]
struct Model {
    /// per table: word -> names listed under it
    index: [BTreeMap<usize, BTreeSet<usize>>; 3],
    /// name -> id of the clear callback registered last
    clear: BTreeMap<usize, u64>,
    /// name -> id of the check callback registered last
    check: BTreeMap<usize, u64>,
    /// id -> name it was registered under (also the replaced ones)
    owner: BTreeMap<u64, usize>,
    next_id: u64,
}
impl Model {
    fn listed(&self, t: Table, w: usize) -> BTreeSet<usize> {
        self.index[t.idx()].get(&w).cloned().unwrap_or_default()
    }
    fn describe(&self, id: u64) -> String {
        match self.owner.get(&id) {
            Some(n) => {
                let current = self.clear.get(n) == Some(&id) || self.check.get(n) == Some(&id);
                format!("{}#{id}{}", NAMES[*n], if current { "" } else { " (a callback that has been replaced)" })
            }
            None => format!("?#{id}"),
        }
    }
}

#[derive(Debug, Clone)]
struct Breach {
    prop: &'static str,
    what: String,
}
struct Ctx {
    prop: Option<String>,
    /// `--selftest-oracle`: the ORACLE (not the library) is deliberately wrong: it expects `invalidate_cache` of a
    /// name with a clear callback to answer false.
    selftest: bool,
}
impl Ctx {
    fn counts(&self, prop: &str) -> bool {
        self.prop.as_deref().map_or(true, |p| p == prop)
    }
}

fn name_set(s: &BTreeSet<usize>) -> Vec<&'static str> {
    s.iter().map(|n| NAMES[*n]).collect()
}

/// Compares what the callbacks recorded with the callbacks that had to run (each exactly once).
/// `missing` is the property a missing or repeated invocation is attributed to; anything else that ran is C13.
fn judge_log(m: &Model, what: &str, log: &[Ev], want: &[Ev], missing: &'static str, out: &mut Vec<Breach>) {
    let id_of = |e: &Ev| match e {
        Ev::Clear(id) | Ev::Check(id, _) => *id,
    };
    for w in want {
        let same_id: Vec<&Ev> = log.iter().filter(|e| std::mem::discriminant(*e) == std::mem::discriminant(w) && id_of(e) == id_of(w)).collect();
        let kind = if matches!(w, Ev::Clear(_)) { "clear" } else { "check" };
        if same_id.len() != 1 {
            out.push(Breach {
                prop: missing,
                what: format!("{what}: the {kind} callback of {} ran {} times, expected once", m.describe(id_of(w)), same_id.len()),
            });
        } else if same_id[0] != w {
            if let (Ev::Check(_, got), Ev::Check(_, exp)) = (same_id[0], w) {
                out.push(Breach {
                    prop: "C13",
                    what: format!(
                        "{what}: the check callback of {} received a predicate with verdicts {got:?} on the keys {KEYS:?}, the predicate passed in gives {exp:?}",
                        m.describe(id_of(w))
                    ),
                });
            }
        }
    }
    for e in log {
        let wanted = want.iter().any(|w| std::mem::discriminant(e) == std::mem::discriminant(w) && id_of(e) == id_of(w));
        if !wanted {
            let kind = if matches!(e, Ev::Clear(_)) { "clear" } else { "check" };
            out.push(Breach { prop: "C13", what: format!("{what}: the {kind} callback of {} ran; it does not match the request", m.describe(id_of(e))) });
        }
    }
}

/// Runs one operation on the real registry and judges it; the model is advanced alongside.
fn step(reg: &InvalidationRegistry, log: &Arc<Mutex<Vec<Ev>>>, ctx: &Ctx, m: &mut Model, op: &Op) -> Vec<Breach> {
    let mut out = Vec::new();
    log.lock().unwrap_or_else(|e| e.into_inner()).clear();
    let text = op.to_string();
    // what the operation answered: a count / boolean, or the list of a getter
    enum Ans {
        Unit,
        Count(usize),
        Names(Vec<String>),
    }
    let new_id = m.next_id;
    let done = catch_unwind(AssertUnwindSafe(|| match op {
        Op::Register(n, t, e, d) => {
            let conv = |v: &Vec<usize>| v.iter().map(|i| WORDS[*i].to_string()).collect::<Vec<String>>();
            reg.register(NAMES[*n], InvalidationMetadata::new(conv(t), conv(e), conv(d)));
            Ans::Unit
        }
        Op::Callback(n) => {
            let log = log.clone();
            reg.register_callback(NAMES[*n], move || log.lock().unwrap_or_else(|e| e.into_inner()).push(Ev::Clear(new_id)));
            Ans::Unit
        }
        Op::Check(n) => {
            let log = log.clone();
            reg.register_invalidation_callback(NAMES[*n], move |pred: &dyn Fn(&str) -> bool| {
                let verdicts: Vec<bool> = KEYS.iter().map(|k| pred(k)).collect();
                log.lock().unwrap_or_else(|e| e.into_inner()).push(Ev::Check(new_id, verdicts));
            });
            Ans::Unit
        }
        Op::By(Table::Tag, w) => Ans::Count(reg.invalidate_by_tag(WORDS[*w])),
        Op::By(Table::Event, w) => Ans::Count(reg.invalidate_by_event(WORDS[*w])),
        Op::By(Table::Dep, w) => Ans::Count(reg.invalidate_by_dependency(WORDS[*w])),
        Op::Cache(n) => Ans::Count(reg.invalidate_cache(NAMES[*n]) as usize),
        Op::With(n, mask) => {
            let mask = *mask;
            Ans::Count(reg.invalidate_with(NAMES[*n], |key| key_index(key).map_or(false, |k| mask & (1 << k) != 0)) as usize)
        }
        Op::AllWith(bits) => {
            let bits = *bits;
            Ans::Count(reg.invalidate_all_with(|name, key| match (name_index(name), key_index(key)) {
                (Some(n), Some(k)) => all_with_verdict(bits, n, k),
                _ => false,
            }))
        }
        Op::Get(Table::Tag, w) => Ans::Names(reg.get_caches_by_tag(WORDS[*w])),
        Op::Get(Table::Event, w) => Ans::Names(reg.get_caches_by_event(WORDS[*w])),
        Op::Get(Table::Dep, w) => Ans::Names(reg.get_dependent_caches(WORDS[*w])),
    }));
    let ans = match done {
        Ok(a) => a,
        Err(p) => {
            out.push(Breach { prop: "C16", what: format!("{text} panicked: {}", panic_text(p.as_ref())) });
            return out;
        }
    };
    let seen: Vec<Ev> = log.lock().unwrap_or_else(|e| e.into_inner()).clone();
    let count = match &ans {
        Ans::Count(c) => *c,
        _ => 0,
    };
    match op {
        Op::Register(n, t, e, d) => {
            for (table, list) in [(Table::Tag, t), (Table::Event, e), (Table::Dep, d)] {
                for w in list {
                    m.index[table.idx()].entry(*w).or_default().insert(*n);
                }
            }
            judge_log(m, &text, &seen, &[], "C13", &mut out);
        }
        Op::Callback(n) => {
            m.clear.insert(*n, new_id);
            m.owner.insert(new_id, *n);
            m.next_id += 1;
            judge_log(m, &text, &seen, &[], "C13", &mut out);
        }
        Op::Check(n) => {
            m.check.insert(*n, new_id);
            m.owner.insert(new_id, *n);
            m.next_id += 1;
            judge_log(m, &text, &seen, &[], "C13", &mut out);
        }
        Op::By(table, w) => {
            let listed = m.listed(*table, *w);
            let with_cb: BTreeSet<usize> = listed.iter().copied().filter(|n| m.clear.contains_key(n)).collect();
            if count != with_cb.len() {
                out.push(Breach {
                    prop: "C12",
                    what: format!(
                        "{text} returned {count}, expected {}: listed under it in that table {:?}, of which {:?} have a clear callback",
                        with_cb.len(),
                        name_set(&listed),
                        name_set(&with_cb)
                    ),
                });
            }
            let want: Vec<Ev> = with_cb.iter().map(|n| Ev::Clear(m.clear[n])).collect();
            judge_log(m, &text, &seen, &want, "C12", &mut out);
        }
        Op::Cache(n) => {
            let has = m.clear.contains_key(n);
            let expect_answer = if ctx.selftest { false } else { has };
            if (count == 1) != expect_answer {
                out.push(Breach {
                    prop: "C12",
                    what: format!("{text} answered {}, expected {expect_answer}: the name has {} clear callback", count == 1, if has { "a" } else { "no" }),
                });
            }
            let want: Vec<Ev> = m.clear.get(n).map(|id| Ev::Clear(*id)).into_iter().collect();
            judge_log(m, &text, &seen, &want, "C12", &mut out);
        }
        Op::With(n, mask) => {
            let has = m.check.contains_key(n);
            if (count == 1) != has {
                out.push(Breach {
                    prop: "C13",
                    what: format!("{text} answered {}, expected {has}: the name has {} check callback", count == 1, if has { "a" } else { "no" }),
                });
            }
            let verdicts: Vec<bool> = (0..KEYS.len()).map(|k| mask & (1 << k) != 0).collect();
            let want: Vec<Ev> = m.check.get(n).map(|id| Ev::Check(*id, verdicts)).into_iter().collect();
            judge_log(m, &text, &seen, &want, "C13", &mut out);
        }
        Op::AllWith(bits) => {
            if count != m.check.len() {
                let names: BTreeSet<usize> = m.check.keys().copied().collect();
                out.push(Breach {
                    prop: "C13",
                    what: format!("{text} returned {count}, expected {}: the names with a check callback are {:?}", m.check.len(), name_set(&names)),
                });
            }
            let want: Vec<Ev> =
                m.check.iter().map(|(n, id)| Ev::Check(*id, (0..KEYS.len()).map(|k| all_with_verdict(*bits, *n, k)).collect())).collect();
            judge_log(m, &text, &seen, &want, "C13", &mut out);
        }
        Op::Get(table, w) => {
            let listed = m.listed(*table, *w);
            let want: BTreeSet<String> = listed.iter().map(|n| NAMES[*n].to_string()).collect();
            let got_list = match ans {
                Ans::Names(v) => v,
                _ => Vec::new(),
            };
            let got: BTreeSet<String> = got_list.iter().cloned().collect();
            let missing: Vec<&String> = want.difference(&got).collect();
            let extra: Vec<&String> = got.difference(&want).collect();
            if !missing.is_empty() {
                out.push(Breach { prop: "C12", what: format!("{text} returned {got_list:?}: {missing:?} registered under it in that table are missing (expected {want:?})") });
            }
            if !extra.is_empty() {
                out.push(Breach { prop: "C13", what: format!("{text} returned {got_list:?}: {extra:?} were never registered under it in that table (expected {want:?})") });
            }
            if got.len() != got_list.len() {
                out.push(Breach { prop: "C13", what: format!("{text} returned {got_list:?}: a name is listed more than once") });
            }
            judge_log(m, &text, &seen, &[], "C13", &mut out);
        }
    }
    out
}

// ------------------------------------------------------------------------------------------------
// histories, witness files
// ------------------------------------------------------------------------------------------------
static OPS: std::sync::atomic::AtomicUsize = std::sync::atomic::AtomicUsize::new(0);

fn witness_line(prop: &str, i: usize, op: &str, what: &str) -> String {
    format!("WITNESS property={prop} registry step={i} {op}: {what}")
}

/// One history on a fresh registry. `Err`: the witness line of the first breach that counts.
fn run_history(ctx: &Ctx, ops: &[Op]) -> Result<(), (&'static str, String)> {
    let reg = InvalidationRegistry::default();
    let log: Arc<Mutex<Vec<Ev>>> = Arc::new(Mutex::new(Vec::new()));
    let mut m = Model::default();
    for (i, op) in ops.iter().enumerate() {
        OPS.fetch_add(1, std::sync::atomic::Ordering::Relaxed);
        for b in step(&reg, &log, ctx, &mut m, op) {
            let line = witness_line(b.prop, i + 1, &op.to_string(), &b.what);
            if ctx.counts(b.prop) {
                return Err((b.prop, line));
            }
            eprintln!("not counted (--prop {}): {line}", ctx.prop.as_deref().unwrap_or(""));
        }
    }
    Ok(())
}

fn witness_text(line: &str, seed: u64, selftest: bool, prop: &Option<String>, ops: &[Op]) -> String {
    let mut s = format!("{line}\nmode=registry\nseed={seed}\nselftest={}\n", selftest as u8);
    if let Some(p) = prop {
        s.push_str(&format!("prop={p}\n"));
    }
    s.push_str("# names c0..c4 by index; tags / events / dependencies are indices into [\"\", \"x\", \"y\", \"c0\", \"c1\"] ('-' = empty list);\n");
    s.push_str("# with:<name>:<mask over the keys [\"\", \"0\", \"1\", \"x\", \"c0\"]>; allwith:<bit name*5+key>\n");
    for (i, op) in ops.iter().enumerate() {
        s.push_str(&format!("# {:>2} {op}\n", i + 1));
    }
    s.push_str(&format!("history={}\n", ops.iter().map(|o| o.token()).collect::<Vec<_>>().join(" ")));
    s.push_str("replay: cachelito-replay --registry-replay <this file>\n");
    s
}
fn write_file(path: &str, text: &str) -> Result<(), String> {
    if let Some(dir) = std::path::Path::new(path).parent() {
        std::fs::create_dir_all(dir).map_err(|e| format!("cannot create {}: {e}", dir.display()))?;
    }
    std::fs::write(path, text).map_err(|e| format!("cannot write {path}: {e}"))
}

fn summary_line(histories: usize) -> String {
    format!("REGISTRY-SEARCHED histories={histories} ops={}", OPS.load(std::sync::atomic::Ordering::Relaxed))
}

fn usage() -> i32 {
    eprintln!(
        "usage: cachelito-replay --registry-search [--prop Cxx] [--seed N] [--iters N] [--max-ops N] [--out FILE]\n\
         \x20      cachelito-replay --registry-replay FILE"
    );
    2
}

/// `--registry-search` / `--registry-replay`: exit 0 = nothing found, 1 = witness, 2 = harness error.
pub fn main_registry(args: &[String]) -> i32 {
    let mut seed = 1u64;
    let mut iters = 300usize;
    let mut max_ops = 16usize;
    let mut out = DEFAULT_OUT.to_string();
    let mut prop: Option<String> = None;
    let mut selftest = false;
    let mut replay: Option<String> = None;
    let mut i = 0;
    while i < args.len() {
        let a = args[i].as_str();
        match a {
            "--registry-search" => {
                i += 1;
                continue;
            }
            "--selftest-oracle" => {
                selftest = true;
                i += 1;
                continue;
            }
            _ => {}
        }
        let Some(val) = args.get(i + 1) else {
            eprintln!("missing value for {a}");
            return usage();
        };
        let ok = match a {
            "--registry-replay" => {
                replay = Some(val.clone());
                true
            }
            "--prop" => {
                prop = Some(val.clone());
                true
            }
            "--seed" => val.parse().map(|x| seed = x).is_ok(),
            "--iters" => val.parse().map(|x| iters = x).is_ok(),
            "--max-ops" => val.parse().map(|x| max_ops = x).is_ok(),
            "--out" => {
                out = val.clone();
                true
            }
            _ => {
                eprintln!("unknown option {a}");
                return usage();
            }
        };
        if !ok {
            eprintln!("bad value for {a}: {val}");
            return usage();
        }
        i += 2;
    }
    if let Some(path) = replay {
        return main_replay(&path, selftest);
    }
    if let Some(p) = &prop {
        if !PROPS.contains(&p.as_str()) {
            eprintln!("no registry clause is attributed to {p} (known: {})", PROPS.join(" "));
            println!("{}", summary_line(0));
            return 0;
        }
    }
    let ctx = Ctx { prop: prop.clone(), selftest };
    let started = Instant::now();
    let mut rc = 0;
    let mut histories = 0;
    for it in 0..iters {
        let mut rng = Rng::new(seed ^ 0x4E61 ^ ((it as u64 + 1) << 16));
        let ops = gen_ops(&mut rng, max_ops);
        histories += 1;
        if let Err((_, line)) = run_history(&ctx, &ops) {
            println!("{line}");
            rc = match write_file(&out, &witness_text(&line, seed, selftest, &prop, &ops)) {
                Ok(()) => {
                    println!("REPLAY {out}");
                    1
                }
                Err(e) => {
                    eprintln!("harness error: {e}");
                    2
                }
            };
            break;
        }
    }
    println!("{}", summary_line(histories));
    eprintln!("bounded registry check (not a proof): seed={seed} elapsed={:.2}s", started.elapsed().as_secs_f64());
    rc
}

fn main_replay(path: &str, force_selftest: bool) -> i32 {
    let text = match std::fs::read_to_string(path) {
        Ok(t) => t,
        Err(e) => {
            eprintln!("cannot read {path}: {e}");
            return 2;
        }
    };
    let mut selftest = force_selftest;
    let mut prop = None;
    let mut histories: Vec<Vec<Op>> = Vec::new();
    for line in text.lines() {
        let line = line.trim();
        if line.is_empty() || line.starts_with('#') || line.starts_with("WITNESS") || line.starts_with("replay:") {
            continue;
        }
        let Some((k, v)) = line.split_once('=') else {
            eprintln!("{path}: cannot parse line {line:?}");
            return 2;
        };
        match k {
            "mode" => {
                if v != "registry" {
                    eprintln!("{path}: mode={v}, expected registry");
                    return 2;
                }
            }
            "seed" => {}
            "selftest" => selftest = selftest || v == "1",
            "prop" => prop = Some(v.to_string()),
            "history" => {
                let mut ops = Vec::new();
                for t in v.split_whitespace() {
                    match Op::parse(t) {
                        Ok(op) => ops.push(op),
                        Err(e) => {
                            eprintln!("{path}: {e}");
                            return 2;
                        }
                    }
                }
                histories.push(ops);
            }
            _ => {
                eprintln!("{path}: unknown field {k}");
                return 2;
            }
        }
    }
    if histories.is_empty() {
        eprintln!("{path}: no history= line");
        return 2;
    }
    let ctx = Ctx { prop, selftest };
    let mut rc = 0;
    let mut n = 0;
    for h in &histories {
        n += 1;
        if let Err((_, line)) = run_history(&ctx, h) {
            println!("{line}");
            rc = 1;
            break;
        }
    }
    if rc == 0 {
        println!("PASS registry histories={}", histories.len());
    }
    println!("{}", summary_line(n));
    rc
}
