//! `--macro-search`: bounded check of the wrappers emitted by the REAL `#[cache]` / `#[cache_async]` macros.
//!
//! A bounded stand-in (never a proof) for the wrapper contracts C01 C02 C03 C09 C10 C11 C12 C13 C20. Every scenario
//! drives functions decorated with /repo's own macros and compares against an uncached twin, execution
//! counters and predicate logs (spec: /verif/notes/macro_search_spec.md).
//!
//! ```text
//! cachelito-replay --macro-search [--prop Cxx] [--seed N] [--out FILE]      exit 0 nothing found / 1 witness / 2 harness
//! cachelito-replay --macro-scenario <name> [--seed N] [--selftest-oracle]    re-run one scenario
//! ```
//! `distinct_tuples_<flavour>` also covers Vec, nested Vec, Option, tuple, char, f64, `&str`, a destructuring
//! pattern, arity 1 and 5 and a one-argument method (spec: /verif/notes/macro_history_spec.md, part A).
//!
//! `exhaustive_small_strings_<flavour>` is a small-scope EXHAUSTIVE check of key injectivity: every pair of strings over
//! {a, |, ", \} with at most 5 characters in total (7737 tuples), also as `&str`, a receiver x every string of length <= 4,
//! and Option<String> x String, each called once on an unbounded cache.
//!
//! Isolation between scenarios: global / async caches are emptied through `invalidate_with(name, |_| true)`
//! (registered by the expansion on first use), thread-scope functions are driven on a fresh thread, and the
//! instrumentation slot of every function a scenario touches is reset first. No scenario depends on another
//! one having run (the execution order is shuffled by the seed).
use cachelito::cache;
use cachelito_async::cache_async;
use std::collections::BTreeSet;
use std::fmt::Debug;
use std::future::Future;
use std::pin::Pin;
use std::sync::atomic::{AtomicBool, AtomicU64, Ordering};
use std::sync::Mutex;
use std::task::{Context, Poll, Waker};
use std::time::{Duration, Instant};

const DEFAULT_OUT: &str = "/verif/.work/replays/macro.witness";
const HANG_SECS: u64 = 5;

// ------------------------------------------------------------------------------------------------
// instrumentation: one slot per decorated function, keyed by the function (= cache) name
// ------------------------------------------------------------------------------------------------
pub(crate) mod instr {
    use std::collections::{BTreeMap, BTreeSet, VecDeque};
    use std::fmt::Debug;
    use std::sync::Mutex;

    #[derive(Default)]
    pub struct Slot {
        /// executions of the body
        pub runs: u64,
        /// scripted body outcomes (true = Ok); empty = Ok
        pub outcomes: VecDeque<bool>,
        /// scripted `cache_if` verdicts (true = store); empty = store
        pub verdicts: VecDeque<bool>,
        /// every `cache_if` consultation: (key, Debug of the value)
        pub pred_log: Vec<(String, String)>,
        /// verdict of `invalidate_on` (true = stale)
        pub stale: bool,
        /// every `invalidate_on` consultation: (key, Debug of the cached value)
        pub check_log: Vec<(String, String)>,
    }

    static SLOTS: Mutex<BTreeMap<&'static str, Slot>> = Mutex::new(BTreeMap::new());
    /// arguments for which the gate future of the C20 functions stays Pending
    static CLOSED: Mutex<BTreeSet<u32>> = Mutex::new(BTreeSet::new());

    fn with<R>(name: &'static str, f: impl FnOnce(&mut Slot) -> R) -> R {
        let mut g = SLOTS.lock().unwrap_or_else(|e| e.into_inner());
        f(g.entry(name).or_default())
    }

    pub fn reset(name: &'static str) {
        with(name, |s| *s = Slot::default());
    }
    /// The body of `name` executes: returns the execution number (1-based).
    pub fn ran(name: &'static str) -> u64 {
        with(name, |s| {
            s.runs += 1;
            s.runs
        })
    }
    pub fn runs(name: &'static str) -> u64 {
        with(name, |s| s.runs)
    }
    pub fn script_outcomes(name: &'static str, v: &[bool]) {
        with(name, |s| s.outcomes = v.iter().copied().collect());
    }
    pub fn next_outcome(name: &'static str) -> bool {
        with(name, |s| s.outcomes.pop_front().unwrap_or(true))
    }
    pub fn script_verdicts(name: &'static str, v: &[bool]) {
        with(name, |s| s.verdicts = v.iter().copied().collect());
    }
    /// A `cache_if` predicate is consulted.
    pub fn pred<V: Debug>(name: &'static str, key: &str, v: &V) -> bool {
        with(name, |s| {
            s.pred_log.push((key.to_string(), format!("{v:?}")));
            s.verdicts.pop_front().unwrap_or(true)
        })
    }
    pub fn pred_log(name: &'static str) -> Vec<(String, String)> {
        with(name, |s| s.pred_log.clone())
    }
    pub fn set_stale(name: &'static str, stale: bool) {
        with(name, |s| s.stale = stale);
    }
    /// An `invalidate_on` check is consulted.
    pub fn check<V: Debug>(name: &'static str, key: &str, v: &V) -> bool {
        with(name, |s| {
            s.check_log.push((key.to_string(), format!("{v:?}")));
            s.stale
        })
    }
    pub fn check_log(name: &'static str) -> Vec<(String, String)> {
        with(name, |s| s.check_log.clone())
    }

    pub fn gate_close(a: u32) {
        CLOSED.lock().unwrap_or_else(|e| e.into_inner()).insert(a);
    }
    pub fn gate_open(a: u32) {
        CLOSED.lock().unwrap_or_else(|e| e.into_inner()).remove(&a);
    }
    pub fn gate_open_all() {
        CLOSED.lock().unwrap_or_else(|e| e.into_inner()).clear();
    }
    pub fn gate_closed(a: u32) -> bool {
        CLOSED.lock().unwrap_or_else(|e| e.into_inner()).contains(&a)
    }
}

/// calls of decorated functions made by the scenarios
static CALLS: AtomicU64 = AtomicU64::new(0);
fn tick() {
    CALLS.fetch_add(1, Ordering::Relaxed);
}

// ------------------------------------------------------------------------------------------------
// a tiny executor: no-op waker, manual polling
// ------------------------------------------------------------------------------------------------
pub(crate) fn poll_once<F: Future + ?Sized>(f: Pin<&mut F>) -> Poll<F::Output> {
    let mut cx = Context::from_waker(Waker::noop());
    f.poll(&mut cx)
}

/// Polls to completion. The futures driven here never wait for anything but the C20 gate, so a future that
/// is still pending after many polls is a mistake of the harness (gate left closed), not of the library.
pub(crate) fn block_on<F: Future>(f: F) -> F::Output {
    let mut f = std::pin::pin!(f);
    for _ in 0..10_000 {
        if let Poll::Ready(v) = poll_once(f.as_mut()) {
            return v;
        }
        std::thread::yield_now();
    }
    panic!("harness: future still pending after 10000 polls");
}

/// Pending while the gate for `a` is closed.
struct Gate(u32);
impl Future for Gate {
    type Output = ();
    fn poll(self: Pin<&mut Self>, _cx: &mut Context<'_>) -> Poll<()> {
        if instr::gate_closed(self.0) {
            Poll::Pending
        } else {
            Poll::Ready(())
        }
    }
}

// ------------------------------------------------------------------------------------------------
// uncached twins and instrumented bodies
// ------------------------------------------------------------------------------------------------
fn str_code(s: &str) -> u64 {
    s.bytes().fold(7u64, |h, c| h.wrapping_mul(1_000_003).wrapping_add(c as u64 + 1))
}
fn twin2(a: u32, b: &str) -> u64 {
    (a as u64).wrapping_mul(0x1_0000_0001).wrapping_add(str_code(b))
}
fn twin_strs(a: &str, b: &str) -> String {
    format!("{}:{}:{}{}", a.len(), b.len(), a, b)
}
fn twin_ints3(a: u32, b: u32, c: u32) -> u64 {
    a as u64 * 1_000_000 + b as u64 * 1_000 + c as u64
}
fn twin_m(id: u32, a: u32, b: &str) -> u64 {
    (id as u64).wrapping_mul(0x9E37_79B9_7F4A_7C15).wrapping_add(twin2(a, b))
}
fn twin_m0(id: u32) -> u64 {
    id as u64 + 500
}
const TWIN_NOARGS: u64 = 4242;

fn body2(name: &'static str, a: u32, b: &str) -> u64 {
    instr::ran(name);
    twin2(a, b)
}
/// Scripted outcome; both the Ok and the Err payload name the execution that produced them.
fn res_body(name: &'static str, a: u32) -> Result<u64, String> {
    let n = instr::ran(name);
    if instr::next_outcome(name) {
        Ok(res_ok(a, n))
    } else {
        Err(res_err(a, n))
    }
}
fn res_ok(a: u32, n: u64) -> u64 {
    a as u64 * 1000 + n
}
fn res_err(a: u32, n: u64) -> String {
    format!("e{a}#{n}")
}
/// A fresh, increasing value on every execution.
fn fresh_body(name: &'static str, a: u32) -> u64 {
    fresh_val(a, instr::ran(name))
}
fn fresh_val(a: u32, n: u64) -> u64 {
    a as u64 * 1000 + n
}

#[derive(Debug, Clone)]
pub struct Recv {
    id: u32,
}
impl cachelito_core::DefaultCacheableKey for Recv {}

// ------------------------------------------------------------------------------------------------
// decorated functions: sync global
// ------------------------------------------------------------------------------------------------
#[cache(limit = 64)]
fn g_plain2(a: u32, b: String) -> u64 {
    body2("g_plain2", a, &b)
}
#[cache]
fn g_unbounded2(a: u32, b: String) -> u64 {
    body2("g_unbounded2", a, &b)
}
#[cache]
fn g_strs(a: String, b: String) -> String {
    instr::ran("g_strs");
    twin_strs(&a, &b)
}
#[cache(max_memory = "1MB")]
fn g_strs_mem(a: String, b: String) -> String {
    instr::ran("g_strs_mem");
    twin_strs(&a, &b)
}
#[cache]
fn g_ints3(a: u32, b: u32, c: u32) -> u64 {
    instr::ran("g_ints3");
    twin_ints3(a, b, c)
}
#[cache]
fn g_noargs() -> u64 {
    instr::ran("g_noargs");
    TWIN_NOARGS
}
#[cache]
fn g_res(a: u32) -> Result<u64, String> {
    res_body("g_res", a)
}
#[cache]
fn g_std_res(a: u32) -> std::result::Result<u64, String> {
    res_body("g_std_res", a)
}
#[cache(max_memory = "1MB")]
fn g_res_mem(a: u32) -> Result<u64, String> {
    res_body("g_res_mem", a)
}
fn g_cif_pred(k: &String, v: &u64) -> bool {
    instr::pred("g_cif", k, v)
}
#[cache(cache_if = g_cif_pred)]
fn g_cif(a: u32) -> u64 {
    fresh_body("g_cif", a)
}
fn g_cif_res_pred(k: &String, v: &Result<u64, String>) -> bool {
    instr::pred("g_cif_res", k, v)
}
#[cache(cache_if = g_cif_res_pred)]
fn g_cif_res(a: u32) -> Result<u64, String> {
    res_body("g_cif_res", a)
}
fn g_inv_check(k: &String, v: &u64) -> bool {
    instr::check("g_inv", k, v)
}
#[cache(invalidate_on = g_inv_check)]
fn g_inv(a: u32) -> u64 {
    fresh_body("g_inv", a)
}

// ------------------------------------------------------------------------------------------------
// decorated functions: sync thread scope
// ------------------------------------------------------------------------------------------------
#[cache(scope = "thread", limit = 64)]
fn t_plain2(a: u32, b: String) -> u64 {
    body2("t_plain2", a, &b)
}
#[cache(scope = "thread")]
fn t_unbounded2(a: u32, b: String) -> u64 {
    body2("t_unbounded2", a, &b)
}
#[cache(scope = "thread")]
fn t_strs(a: String, b: String) -> String {
    instr::ran("t_strs");
    twin_strs(&a, &b)
}
#[cache(scope = "thread", max_memory = "1MB")]
fn t_strs_mem(a: String, b: String) -> String {
    instr::ran("t_strs_mem");
    twin_strs(&a, &b)
}
#[cache(scope = "thread")]
fn t_ints3(a: u32, b: u32, c: u32) -> u64 {
    instr::ran("t_ints3");
    twin_ints3(a, b, c)
}
#[cache(scope = "thread")]
fn t_noargs() -> u64 {
    instr::ran("t_noargs");
    TWIN_NOARGS
}
#[cache(scope = "thread")]
fn t_res(a: u32) -> Result<u64, String> {
    res_body("t_res", a)
}
#[cache(scope = "thread")]
fn t_std_res(a: u32) -> std::result::Result<u64, String> {
    res_body("t_std_res", a)
}
#[cache(scope = "thread", max_memory = "1MB")]
fn t_res_mem(a: u32) -> Result<u64, String> {
    res_body("t_res_mem", a)
}
fn t_cif_pred(k: &String, v: &u64) -> bool {
    instr::pred("t_cif", k, v)
}
#[cache(scope = "thread", cache_if = t_cif_pred)]
fn t_cif(a: u32) -> u64 {
    fresh_body("t_cif", a)
}
fn t_cif_res_pred(k: &String, v: &Result<u64, String>) -> bool {
    instr::pred("t_cif_res", k, v)
}
#[cache(scope = "thread", cache_if = t_cif_res_pred)]
fn t_cif_res(a: u32) -> Result<u64, String> {
    res_body("t_cif_res", a)
}
fn t_inv_check(k: &String, v: &u64) -> bool {
    instr::check("t_inv", k, v)
}
#[cache(scope = "thread", invalidate_on = t_inv_check)]
fn t_inv(a: u32) -> u64 {
    fresh_body("t_inv", a)
}
fn t_all_pred(k: &String, v: &u64) -> bool {
    instr::pred("t_all", k, v)
}
fn t_all_check(k: &String, v: &u64) -> bool {
    instr::check("t_all", k, v)
}
#[cache(scope = "thread", cache_if = t_all_pred, invalidate_on = t_all_check, max_memory = "1MB")]
fn t_all(a: u32) -> u64 {
    fresh_body("t_all", a)
}

// ------------------------------------------------------------------------------------------------
// decorated functions: async
// ------------------------------------------------------------------------------------------------
#[cache_async(limit = 64)]
async fn a_plain2(a: u32, b: String) -> u64 {
    body2("a_plain2", a, &b)
}
#[cache_async]
async fn a_unbounded2(a: u32, b: String) -> u64 {
    body2("a_unbounded2", a, &b)
}
#[cache_async]
async fn a_strs(a: String, b: String) -> String {
    instr::ran("a_strs");
    twin_strs(&a, &b)
}
#[cache_async(max_memory = "1MB")]
async fn a_strs_mem(a: String, b: String) -> String {
    instr::ran("a_strs_mem");
    twin_strs(&a, &b)
}
#[cache_async]
async fn a_ints3(a: u32, b: u32, c: u32) -> u64 {
    instr::ran("a_ints3");
    twin_ints3(a, b, c)
}
#[cache_async]
async fn a_noargs() -> u64 {
    instr::ran("a_noargs");
    TWIN_NOARGS
}
#[cache_async]
async fn a_res(a: u32) -> Result<u64, String> {
    res_body("a_res", a)
}
#[cache_async]
async fn a_std_res(a: u32) -> std::result::Result<u64, String> {
    res_body("a_std_res", a)
}
#[cache_async(max_memory = "1MB")]
async fn a_res_mem(a: u32) -> Result<u64, String> {
    res_body("a_res_mem", a)
}
fn a_cif_pred(k: &String, v: &u64) -> bool {
    instr::pred("a_cif", k, v)
}
#[cache_async(cache_if = a_cif_pred)]
async fn a_cif(a: u32) -> u64 {
    fresh_body("a_cif", a)
}
fn a_cif_res_pred(k: &String, v: &Result<u64, String>) -> bool {
    instr::pred("a_cif_res", k, v)
}
#[cache_async(cache_if = a_cif_res_pred)]
async fn a_cif_res(a: u32) -> Result<u64, String> {
    res_body("a_cif_res", a)
}
fn a_inv_check(k: &String, v: &u64) -> bool {
    instr::check("a_inv", k, v)
}
#[cache_async(invalidate_on = a_inv_check)]
async fn a_inv(a: u32) -> u64 {
    fresh_body("a_inv", a)
}
/// C20: the body suspends at a gate.
fn gated_val(a: u32) -> u64 {
    a as u64 * 7 + 1
}
#[cache_async]
async fn a_gated(a: u32) -> u64 {
    instr::ran("a_gated");
    Gate(a).await;
    gated_val(a)
}
fn a_gated_inv_check(k: &String, v: &u64) -> bool {
    instr::check("a_gated_inv", k, v)
}
#[cache_async(invalidate_on = a_gated_inv_check)]
async fn a_gated_inv(a: u32) -> u64 {
    let n = instr::ran("a_gated_inv");
    Gate(a).await;
    fresh_val(a, n)
}

impl Recv {
    #[cache]
    fn g_m(&self, a: u32, b: String) -> u64 {
        instr::ran("g_m");
        twin_m(self.id, a, &b)
    }
    #[cache]
    fn g_m0(&self) -> u64 {
        instr::ran("g_m0");
        twin_m0(self.id)
    }
    #[cache(scope = "thread")]
    fn t_m(&self, a: u32, b: String) -> u64 {
        instr::ran("t_m");
        twin_m(self.id, a, &b)
    }
    #[cache(scope = "thread")]
    fn t_m0(&self) -> u64 {
        instr::ran("t_m0");
        twin_m0(self.id)
    }
    #[cache_async]
    async fn a_m(&self, a: u32, b: String) -> u64 {
        instr::ran("a_m");
        twin_m(self.id, a, &b)
    }
    #[cache_async]
    async fn a_m0(&self) -> u64 {
        instr::ran("a_m0");
        twin_m0(self.id)
    }
}

// ------------------------------------------------------------------------------------------------
// one uniform view per flavour
// ------------------------------------------------------------------------------------------------
#[derive(Clone, Copy, PartialEq, Eq, Debug)]
enum Kind {
    Global,
    Thread,
    Async,
}
impl Kind {
    const ALL: [Kind; 3] = [Kind::Global, Kind::Thread, Kind::Async];
    fn name(self) -> &'static str {
        match self {
            Kind::Global => "global",
            Kind::Thread => "thread",
            Kind::Async => "async",
        }
    }
}

/// A decorated function: its cache / instrumentation name and a synchronous entry point.
struct F<T> {
    name: &'static str,
    call: T,
}
type ResT = Result<u64, String>;

struct Fl {
    kind: Kind,
    plain2: F<fn(u32, String) -> u64>,
    unbounded2: F<fn(u32, String) -> u64>,
    strs: F<fn(String, String) -> String>,
    /// the same signature with `max_memory` configured (keys must not depend on the memory configuration)
    strs_mem: F<fn(String, String) -> String>,
    ints3: F<fn(u32, u32, u32) -> u64>,
    m: F<fn(&Recv, u32, String) -> u64>,
    m0: F<fn(&Recv) -> u64>,
    noargs: F<fn() -> u64>,
    res: F<fn(u32) -> ResT>,
    std_res: F<fn(u32) -> ResT>,
    res_mem: F<fn(u32) -> ResT>,
    cif: F<fn(u32) -> u64>,
    cif_res: F<fn(u32) -> ResT>,
    inv: F<fn(u32) -> u64>,
    /// thread scope only: cache_if + invalidate_on + max_memory together
    all: Option<F<fn(u32) -> u64>>,
}

macro_rules! f {
    ($name:literal, |$($p:ident),*| $body:expr) => {
        F { name: $name, call: |$($p),*| { tick(); $body } }
    };
}

// ------------------------------------------------------------------------------------------------
// more key shapes for distinct_tuples (C02 / C01): Vec, nested containers, Option, tuples, chars, floats,
// arity 1 and 5, a destructuring pattern, a one-argument method, &str. One definition per flavour.
// The twins take every argument by reference and use an encoding that has nothing in common with the
// Debug text the keys are made of (length prefixes, bit patterns).
// ------------------------------------------------------------------------------------------------
fn enc_u32s(v: &[u32]) -> String {
    format!("{}[{}]", v.len(), v.iter().map(|x| x.to_string()).collect::<Vec<_>>().join(","))
}
fn enc_str(s: &str) -> String {
    format!("{}:{};", s.len(), s)
}
fn enc_opt(o: &Option<String>) -> String {
    match o {
        None => "n".to_string(),
        Some(x) => format!("s{}", enc_str(x)),
    }
}
fn tw_vecs2(a: &Vec<u32>, b: &Vec<u32>) -> String {
    format!("vecs2 {} {}", enc_u32s(a), enc_u32s(b))
}
fn tw_vstr(a: &Vec<String>) -> String {
    format!("vstr {}<{}>", a.len(), a.iter().map(|x| enc_str(x)).collect::<String>())
}
fn tw_nested(a: &Vec<Vec<u32>>, b: &Option<u32>) -> String {
    let inner: String = a.iter().map(|v| enc_u32s(v)).collect();
    let opt = match b {
        None => "n".to_string(),
        Some(x) => format!("s{x}"),
    };
    format!("nested {}<{inner}> {opt}", a.len())
}
fn tw_opt2(a: &Option<String>, b: &Option<String>) -> String {
    format!("opt2 {} {}", enc_opt(a), enc_opt(b))
}
fn tw_tup(a: &(u32, String), b: &u32) -> String {
    format!("tup {} {} {}", a.0, enc_str(&a.1), b)
}
fn tw_chars(a: &char, b: &char) -> u64 {
    ((*a as u64) << 32) | *b as u64
}
fn tw_mixed5(a: &i64, b: &bool, c: &char, d: &String, e: &Vec<u32>) -> String {
    format!("mixed5 {} {} {} {} {}", a, *b as u8, *c as u32, enc_str(d), enc_u32s(e))
}
fn tw_floats(a: &f64, b: &f64) -> String {
    format!("floats {:016x} {:016x}", a.to_bits(), b.to_bits())
}
fn tw_one(a: &u32) -> u64 {
    *a as u64 * 3 + 1
}
fn tw_destructured(x: u32, y: u32, c: u32) -> u64 {
    x as u64 * 1_000_003 * 1_000_003 + y as u64 * 1_000_003 + c as u64
}
fn tw_m1(id: u32, a: u32) -> u64 {
    ((id as u64) << 32) | a as u64
}

/// The same decorated function in the three flavours; the body bumps the run counter of its own name.
macro_rules! shape_fns {
    ($g:ident, $t:ident, $a:ident, ($($p:ident : $ty:ty),+) -> $ret:ty, $twin:ident) => {
        #[cache]
        fn $g($($p: $ty),+) -> $ret {
            instr::ran(stringify!($g));
            $twin($(&$p),+)
        }
        #[cache(scope = "thread")]
        fn $t($($p: $ty),+) -> $ret {
            instr::ran(stringify!($t));
            $twin($(&$p),+)
        }
        #[cache_async]
        async fn $a($($p: $ty),+) -> $ret {
            instr::ran(stringify!($a));
            $twin($(&$p),+)
        }
    };
}
/// `sel(kind)`: name and synchronous entry point (arguments as one tuple) of the flavour's function.
macro_rules! shape_sel {
    ($sel:ident, $g:ident, $t:ident, $a:ident, ($($p:ident : $ty:ty),+) -> $ret:ty) => {
        fn $sel(kind: Kind) -> F<fn(&($($ty,)+)) -> $ret> {
            match kind {
                Kind::Global => F {
                    name: stringify!($g),
                    call: |t| {
                        let ($($p,)+) = t.clone();
                        tick();
                        $g($($p),+)
                    },
                },
                Kind::Thread => F {
                    name: stringify!($t),
                    call: |t| {
                        let ($($p,)+) = t.clone();
                        tick();
                        $t($($p),+)
                    },
                },
                Kind::Async => F {
                    name: stringify!($a),
                    call: |t| {
                        let ($($p,)+) = t.clone();
                        tick();
                        block_on($a($($p),+))
                    },
                },
            }
        }
    };
}
macro_rules! shape {
    ($sel:ident, $g:ident, $t:ident, $a:ident, ($($p:ident : $ty:ty),+) -> $ret:ty, $twin:ident) => {
        shape_fns!($g, $t, $a, ($($p: $ty),+) -> $ret, $twin);
        shape_sel!($sel, $g, $t, $a, ($($p: $ty),+) -> $ret);
    };
}
shape!(sel_vecs2, g_vecs2, t_vecs2, a_vecs2, (a: Vec<u32>, b: Vec<u32>) -> String, tw_vecs2);
shape!(sel_vstr, g_vstr, t_vstr, a_vstr, (a: Vec<String>) -> String, tw_vstr);
shape!(sel_nested, g_nested, t_nested, a_nested, (a: Vec<Vec<u32>>, b: Option<u32>) -> String, tw_nested);
shape!(sel_opt2, g_opt2, t_opt2, a_opt2, (a: Option<String>, b: Option<String>) -> String, tw_opt2);
shape!(sel_tup, g_tup, t_tup, a_tup, (a: (u32, String), b: u32) -> String, tw_tup);
shape!(sel_chars, g_chars, t_chars, a_chars, (a: char, b: char) -> u64, tw_chars);
shape!(sel_mixed5, g_mixed5, t_mixed5, a_mixed5, (a: i64, b: bool, c: char, d: String, e: Vec<u32>) -> String, tw_mixed5);
shape!(sel_one, g_one, t_one, a_one, (a: u32) -> u64, tw_one);
// floats: the tuples of the scenario are bit patterns (0.0 == -0.0 as f64 but they are different arguments)
shape_fns!(g_floats, t_floats, a_floats, (a: f64, b: f64) -> String, tw_floats);
fn sel_floats(kind: Kind) -> F<fn(&(u64, u64)) -> String> {
    match kind {
        Kind::Global => f!("g_floats", |t| g_floats(f64::from_bits(t.0), f64::from_bits(t.1))),
        Kind::Thread => f!("t_floats", |t| t_floats(f64::from_bits(t.0), f64::from_bits(t.1))),
        Kind::Async => f!("a_floats", |t| block_on(a_floats(f64::from_bits(t.0), f64::from_bits(t.1)))),
    }
}

// a destructuring pattern in argument position
#[cache]
fn g_destructured((x, y): (u32, u32), c: u32) -> u64 {
    instr::ran("g_destructured");
    tw_destructured(x, y, c)
}
#[cache(scope = "thread")]
fn t_destructured((x, y): (u32, u32), c: u32) -> u64 {
    instr::ran("t_destructured");
    tw_destructured(x, y, c)
}
#[cache_async]
async fn a_destructured((x, y): (u32, u32), c: u32) -> u64 {
    instr::ran("a_destructured");
    tw_destructured(x, y, c)
}
fn sel_destructured(kind: Kind) -> F<fn(&(u32, u32, u32)) -> u64> {
    match kind {
        Kind::Global => f!("g_destructured", |t| g_destructured((t.0, t.1), t.2)),
        Kind::Thread => f!("t_destructured", |t| t_destructured((t.0, t.1), t.2)),
        Kind::Async => f!("a_destructured", |t| block_on(a_destructured((t.0, t.1), t.2))),
    }
}

// borrowed string arguments
#[cache]
fn g_strs_ref(a: &str, b: &str) -> String {
    instr::ran("g_strs_ref");
    twin_strs(a, b)
}
#[cache(scope = "thread")]
fn t_strs_ref(a: &str, b: &str) -> String {
    instr::ran("t_strs_ref");
    twin_strs(a, b)
}
#[cache_async]
async fn a_strs_ref(a: &str, b: &str) -> String {
    instr::ran("a_strs_ref");
    twin_strs(a, b)
}
fn sel_strs_ref(kind: Kind) -> F<fn(&(String, String)) -> String> {
    match kind {
        Kind::Global => f!("g_strs_ref", |t| g_strs_ref(&t.0, &t.1)),
        Kind::Thread => f!("t_strs_ref", |t| t_strs_ref(&t.0, &t.1)),
        Kind::Async => f!("a_strs_ref", |t| block_on(a_strs_ref(&t.0, &t.1))),
    }
}

// a method with exactly one argument besides the receiver
impl Recv {
    #[cache]
    fn g_m1(&self, a: u32) -> u64 {
        instr::ran("g_m1");
        tw_m1(self.id, a)
    }
    #[cache(scope = "thread")]
    fn t_m1(&self, a: u32) -> u64 {
        instr::ran("t_m1");
        tw_m1(self.id, a)
    }
    #[cache_async]
    async fn a_m1(&self, a: u32) -> u64 {
        instr::ran("a_m1");
        tw_m1(self.id, a)
    }
}
/// (receiver id, argument)
fn sel_m1(kind: Kind) -> F<fn(&(u32, u32)) -> u64> {
    match kind {
        Kind::Global => f!("g_m1", |t| Recv { id: t.0 }.g_m1(t.1)),
        Kind::Thread => f!("t_m1", |t| Recv { id: t.0 }.t_m1(t.1)),
        Kind::Async => f!("a_m1", |t| block_on(Recv { id: t.0 }.a_m1(t.1))),
    }
}

// ------------------------------------------------------------------------------------------------
// exhaustive_small_strings: unbounded functions whose EVERY small argument tuple is called (C02 / C01)
// ------------------------------------------------------------------------------------------------
fn tw_xs2(a: &String, b: &String) -> String {
    format!("xs2 {}{}", enc_str(a), enc_str(b))
}
fn tw_xo(a: &Option<String>, b: &String) -> String {
    format!("xo {} {}", enc_opt(a), enc_str(b))
}
fn tw_xm(id: u32, a: &str) -> String {
    format!("xm {id} {}", enc_str(a))
}
shape!(sel_xs2, g_xs2, t_xs2, a_xs2, (a: String, b: String) -> String, tw_xs2);
shape!(sel_xo, g_xo, t_xo, a_xo, (a: Option<String>, b: String) -> String, tw_xo);
// borrowed strings: the sync flavours build the key of a `&str` through another impl than that of a `String`
#[cache]
fn g_xs2r(a: &str, b: &str) -> String {
    instr::ran("g_xs2r");
    tw_xs2(&a.to_string(), &b.to_string())
}
#[cache(scope = "thread")]
fn t_xs2r(a: &str, b: &str) -> String {
    instr::ran("t_xs2r");
    tw_xs2(&a.to_string(), &b.to_string())
}
#[cache_async]
async fn a_xs2r(a: &str, b: &str) -> String {
    instr::ran("a_xs2r");
    tw_xs2(&a.to_string(), &b.to_string())
}
fn sel_xs2r(kind: Kind) -> F<fn(&(String, String)) -> String> {
    match kind {
        Kind::Global => f!("g_xs2r", |t| g_xs2r(&t.0, &t.1)),
        Kind::Thread => f!("t_xs2r", |t| t_xs2r(&t.0, &t.1)),
        Kind::Async => f!("a_xs2r", |t| block_on(a_xs2r(&t.0, &t.1))),
    }
}
// the boundary between the receiver and the one argument
impl Recv {
    #[cache]
    fn g_xm(&self, a: String) -> String {
        instr::ran("g_xm");
        tw_xm(self.id, &a)
    }
    #[cache(scope = "thread")]
    fn t_xm(&self, a: String) -> String {
        instr::ran("t_xm");
        tw_xm(self.id, &a)
    }
    #[cache_async]
    async fn a_xm(&self, a: String) -> String {
        instr::ran("a_xm");
        tw_xm(self.id, &a)
    }
}
/// (receiver id, argument)
fn sel_xm(kind: Kind) -> F<fn(&(u32, String)) -> String> {
    match kind {
        Kind::Global => f!("g_xm", |t| Recv { id: t.0 }.g_xm(t.1.clone())),
        Kind::Thread => f!("t_xm", |t| Recv { id: t.0 }.t_xm(t.1.clone())),
        Kind::Async => f!("a_xm", |t| block_on(Recv { id: t.0 }.a_xm(t.1.clone()))),
    }
}


fn flavour(kind: Kind) -> Fl {
    match kind {
        Kind::Global => Fl {
            kind,
            plain2: f!("g_plain2", |a, b| g_plain2(a, b)),
            unbounded2: f!("g_unbounded2", |a, b| g_unbounded2(a, b)),
            strs: f!("g_strs", |a, b| g_strs(a, b)),
            strs_mem: f!("g_strs_mem", |a, b| g_strs_mem(a, b)),
            ints3: f!("g_ints3", |a, b, c| g_ints3(a, b, c)),
            m: f!("g_m", |r, a, b| r.g_m(a, b)),
            m0: f!("g_m0", |r| r.g_m0()),
            noargs: f!("g_noargs", | | g_noargs()),
            res: f!("g_res", |a| g_res(a)),
            std_res: f!("g_std_res", |a| g_std_res(a)),
            res_mem: f!("g_res_mem", |a| g_res_mem(a)),
            cif: f!("g_cif", |a| g_cif(a)),
            cif_res: f!("g_cif_res", |a| g_cif_res(a)),
            inv: f!("g_inv", |a| g_inv(a)),
            all: None,
        },
        Kind::Thread => Fl {
            kind,
            plain2: f!("t_plain2", |a, b| t_plain2(a, b)),
            unbounded2: f!("t_unbounded2", |a, b| t_unbounded2(a, b)),
            strs: f!("t_strs", |a, b| t_strs(a, b)),
            strs_mem: f!("t_strs_mem", |a, b| t_strs_mem(a, b)),
            ints3: f!("t_ints3", |a, b, c| t_ints3(a, b, c)),
            m: f!("t_m", |r, a, b| r.t_m(a, b)),
            m0: f!("t_m0", |r| r.t_m0()),
            noargs: f!("t_noargs", | | t_noargs()),
            res: f!("t_res", |a| t_res(a)),
            std_res: f!("t_std_res", |a| t_std_res(a)),
            res_mem: f!("t_res_mem", |a| t_res_mem(a)),
            cif: f!("t_cif", |a| t_cif(a)),
            cif_res: f!("t_cif_res", |a| t_cif_res(a)),
            inv: f!("t_inv", |a| t_inv(a)),
            all: Some(f!("t_all", |a| t_all(a))),
        },
        Kind::Async => Fl {
            kind,
            plain2: f!("a_plain2", |a, b| block_on(a_plain2(a, b))),
            unbounded2: f!("a_unbounded2", |a, b| block_on(a_unbounded2(a, b))),
            strs: f!("a_strs", |a, b| block_on(a_strs(a, b))),
            strs_mem: f!("a_strs_mem", |a, b| block_on(a_strs_mem(a, b))),
            ints3: f!("a_ints3", |a, b, c| block_on(a_ints3(a, b, c))),
            m: f!("a_m", |r, a, b| block_on(r.a_m(a, b))),
            m0: f!("a_m0", |r| block_on(r.a_m0())),
            noargs: f!("a_noargs", | | block_on(a_noargs())),
            res: f!("a_res", |a| block_on(a_res(a))),
            std_res: f!("a_std_res", |a| block_on(a_std_res(a))),
            res_mem: f!("a_res_mem", |a| block_on(a_res_mem(a))),
            cif: f!("a_cif", |a| block_on(a_cif(a))),
            cif_res: f!("a_cif_res", |a| block_on(a_cif_res(a))),
            inv: f!("a_inv", |a| block_on(a_inv(a))),
            all: None,
        },
    }
}

// ------------------------------------------------------------------------------------------------
// failures, progress, watchdog
// ------------------------------------------------------------------------------------------------
#[derive(Debug, Clone)]
struct Fail {
    /// "C01".."C20", or "HARNESS" when the scenario itself is at fault
    prop: &'static str,
    what: String,
}
fn fail<T>(prop: &'static str, what: String) -> Result<T, Fail> {
    Err(Fail { prop, what })
}
fn harness<T>(what: String) -> Result<T, Fail> {
    Err(Fail { prop: "HARNESS", what })
}

struct Ctx {
    seed: u64,
    /// `--selftest-oracle`: the ORACLE (not the library) is deliberately wrong: it expects the body of
    /// `noargs` to run twice for two calls. Only to demonstrate WITNESS + `--macro-scenario` replay.
    selftest: bool,
    /// `--prop Cxx`: only failures attributed to this property count
    prop: Option<String>,
}
impl Ctx {
    fn counts(&self, prop: &str) -> bool {
        prop == "HARNESS" || self.prop.as_deref().map_or(true, |p| p == prop)
    }
    /// A scenario that can fail for two properties goes on after a failure that does not count.
    fn report(&self, scenario_part: &str, f: Fail) -> Result<(), Fail> {
        if self.counts(f.prop) {
            return Err(f);
        }
        eprintln!("not counted (--prop {}): property={} {scenario_part}: {}", self.prop.as_deref().unwrap_or(""), f.prop, f.what);
        Ok(())
    }
}

struct Current {
    scenario: String,
    prop: &'static str,
    step: String,
    since: Instant,
}
struct RunInfo {
    out: Option<String>,
    seed: u64,
    selftest: bool,
    scenarios_done: u64,
}
static CURRENT: Mutex<Option<Current>> = Mutex::new(None);
static RUN: Mutex<Option<RunInfo>> = Mutex::new(None);
static FINISHED: AtomicBool = AtomicBool::new(false);

/// Names what the scenario is doing right now (reported by the watchdog if it never returns).
fn step(s: impl Into<String>) {
    if let Some(c) = CURRENT.lock().unwrap_or_else(|e| e.into_inner()).as_mut() {
        c.step = s.into();
    }
}

fn witness_line(prop: &str, scenario: &str, what: &str) -> String {
    format!("WITNESS property={prop} scenario={scenario} {what}")
}

fn write_witness(path: &str, line: &str, scenario: &str, seed: u64, selftest: bool) -> Result<(), String> {
    if let Some(dir) = std::path::Path::new(path).parent() {
        std::fs::create_dir_all(dir).map_err(|e| format!("cannot create {}: {e}", dir.display()))?;
    }
    let text = format!(
        "{line}\nscenario={scenario}\nseed={seed}\nreplay: cachelito-replay --macro-scenario {scenario} --seed {seed}{}\n",
        if selftest { " --selftest-oracle" } else { "" }
    );
    std::fs::write(path, text).map_err(|e| format!("cannot write {path}: {e}"))
}

fn searched_line(scenarios: u64) -> String {
    format!("MACRO-SEARCHED scenarios={scenarios} calls={}", CALLS.load(Ordering::Relaxed))
}

/// A wrapper of mutated code may never return (a lock held across a suspension, a lost entry that is
/// waited for). The watchdog turns `HANG_SECS` inside one scenario into a witness instead of a hung run.
fn start_watchdog() {
    std::thread::spawn(|| loop {
        std::thread::sleep(Duration::from_millis(100));
        if FINISHED.load(Ordering::Relaxed) {
            return;
        }
        let hung = {
            let g = CURRENT.lock().unwrap_or_else(|e| e.into_inner());
            match g.as_ref() {
                Some(c) if c.since.elapsed() >= Duration::from_secs(HANG_SECS) => {
                    Some((c.scenario.clone(), c.prop, c.step.clone()))
                }
                _ => None,
            }
        };
        if let Some((scenario, prop, st)) = hung {
            let what = format!(
                "did not return within {HANG_SECS} s (hang; a lock held across the suspension point would do this) at step: {st}"
            );
            let line = witness_line(prop, &scenario, &what);
            println!("{line}");
            let mut done = 0;
            if let Some(r) = RUN.lock().unwrap_or_else(|e| e.into_inner()).as_ref() {
                if let Some(p) = &r.out {
                    match write_witness(p, &line, &scenario, r.seed, r.selftest) {
                        Ok(()) => println!("REPLAY {p}"),
                        Err(e) => eprintln!("harness error: {e}"),
                    }
                }
                done = r.scenarios_done;
            }
            println!("{}", searched_line(done + 1));
            std::process::exit(1);
        }
    });
}

pub(crate) struct Rng(u64);
impl Rng {
    pub(crate) fn new(seed: u64) -> Rng {
        let mut r = Rng(seed.wrapping_mul(0x9E37_79B9_7F4A_7C15) ^ 0x2545_F491_4F6C_DD1D);
        if r.0 == 0 {
            r.0 = 0x9E37_79B9_7F4A_7C15;
        }
        for _ in 0..4 {
            r.next();
        }
        r
    }
    pub(crate) fn next(&mut self) -> u64 {
        let mut x = self.0;
        x ^= x >> 12;
        x ^= x << 25;
        x ^= x >> 27;
        self.0 = x;
        x.wrapping_mul(0x2545_F491_4F6C_DD1D)
    }
    pub(crate) fn below(&mut self, n: usize) -> usize {
        ((self.next() >> 33) % n as u64) as usize
    }
    pub(crate) fn shuffle<T>(&mut self, v: &mut [T]) {
        for i in (1..v.len()).rev() {
            let j = self.below(i + 1);
            v.swap(i, j);
        }
    }
}

// ------------------------------------------------------------------------------------------------
// isolation
// ------------------------------------------------------------------------------------------------
/// Empties the global / async cache registered under `name`. Before the first use of the function
/// nothing is registered (and nothing is cached): `false` is fine then.
pub(crate) fn clear_cache(name: &str) {
    cachelito_core::invalidate_with(name, |_| true);
}

/// Lists the keys of a global / async cache through the predicate of `invalidate_with` (removes nothing).
/// `None`: no cache registered under that name.
pub(crate) fn list_keys(name: &str) -> Option<BTreeSet<String>> {
    let keys = Mutex::new(BTreeSet::new());
    let found = cachelito_core::invalidate_with(name, |k| {
        keys.lock().unwrap_or_else(|e| e.into_inner()).insert(k.to_string());
        false
    });
    if found {
        Some(keys.into_inner().unwrap_or_else(|e| e.into_inner()))
    } else {
        None
    }
}

/// Runs `f` against empty caches and reset instrumentation for the functions in `names`: thread-scope
/// functions get a fresh thread (their caches are thread-locals and are registered nowhere), the
/// process-global caches of the other two flavours are emptied.
fn fresh<R: Send>(kind: Kind, names: &[&'static str], f: impl FnOnce() -> R + Send) -> R {
    for n in names {
        instr::reset(n);
    }
    match kind {
        Kind::Thread => std::thread::scope(|s| match s.spawn(f).join() {
            Ok(r) => r,
            Err(p) => std::panic::resume_unwind(p),
        }),
        Kind::Global | Kind::Async => {
            for n in names {
                clear_cache(n);
            }
            f()
        }
    }
}

// ------------------------------------------------------------------------------------------------
// C02 / C01 distinct_tuples
// ------------------------------------------------------------------------------------------------
/// For every ordered pair of different tuples: f(t1) then f(t2) on empty caches. The body must run for
/// both and both results must equal the twin; f(t1) again is then served (no execution) with the twin's value.
fn check_pairs<T, V>(
    ctx: &Ctx,
    kind: Kind,
    fname: &'static str,
    tuples: &[T],
    call: &(dyn Fn(&T) -> V + Sync),
    twin: &(dyn Fn(&T) -> V + Sync),
) -> Result<(), Fail>
where
    T: Debug + PartialEq + Sync,
    V: Debug + PartialEq,
{
    // the harness's own premise: different tuples, different twin values
    for i in 0..tuples.len() {
        for j in 0..i {
            if tuples[i] == tuples[j] {
                return harness(format!("{fname}: tuple {:?} listed twice", tuples[i]));
            }
            if twin(&tuples[i]) == twin(&tuples[j]) {
                return harness(format!("{fname}: twin does not separate {:?} and {:?}", tuples[i], tuples[j]));
            }
        }
    }
    for (i, t1) in tuples.iter().enumerate() {
        for (j, t2) in tuples.iter().enumerate() {
            if i == j {
                continue;
            }
            step(format!("{fname}{t1:?} then {fname}{t2:?}"));
            let r = fresh(kind, &[fname], || {
                let r1 = call(t1);
                let n1 = instr::runs(fname);
                if n1 != 1 {
                    return fail(
                        "C02",
                        format!("{fname}{t1:?} on an empty cache: body ran {n1} times, expected 1 (returned {r1:?})"),
                    );
                }
                let e1 = twin(t1);
                if r1 != e1 {
                    return fail("C01", format!("{fname}{t1:?} returned {r1:?}, the uncached twin gives {e1:?}"));
                }
                let r2 = call(t2);
                let n2 = instr::runs(fname);
                if n2 != 2 {
                    return fail(
                        "C02",
                        format!(
                            "{fname}{t1:?} then {fname}{t2:?}: the body ran {n2} times in total, expected 2 \
                             (the second call returned {r2:?}: served from the entry of the other tuple)"
                        ),
                    );
                }
                let e2 = twin(t2);
                if r2 != e2 {
                    return fail(
                        "C01",
                        format!("{fname}{t1:?} then {fname}{t2:?}: the second call returned {r2:?}, the uncached twin gives {e2:?}"),
                    );
                }
                // the first tuple again: its own entry is still there and still holds its own value
                let r3 = call(t1);
                let n3 = instr::runs(fname);
                if n3 != 2 {
                    return fail(
                        "C02",
                        format!(
                            "{fname}{t1:?}, {fname}{t2:?}, then {fname}{t1:?} again: the body ran {n3} times in total, expected 2 \
                             (the entry of the first tuple did not survive the store of the second; the third call returned {r3:?})"
                        ),
                    );
                }
                if r3 != e1 {
                    return fail(
                        "C01",
                        format!(
                            "{fname}{t1:?}, {fname}{t2:?}, then {fname}{t1:?} again: served {r3:?}, the uncached twin gives {e1:?}"
                        ),
                    );
                }
                Ok(())
            });
            if let Err(f) = r {
                ctx.report(fname, f)?;
            }
        }
    }
    Ok(())
}

fn s(x: &str) -> String {
    x.to_string()
}

fn distinct_tuples(fl: &Fl, ctx: &Ctx) -> Result<(), Fail> {
    let kind = fl.kind;

    // (u32, u32, u32): the two-int lists are padded on either side
    let ints3: Vec<(u32, u32, u32)> = vec![
        (1, 2, 34),
        (12, 3, 4),
        (1, 23, 4),
        (1, 23, 0),
        (12, 3, 0),
        (0, 1, 23),
        (0, 12, 3),
        (1, 10, 0),
        (11, 0, 0),
        (0, 1, 10),
        (0, 11, 0),
    ];
    let f = fl.ints3.call;
    check_pairs(ctx, kind, fl.ints3.name, &ints3, &|t| f(t.0, t.1, t.2), &|t| twin_ints3(t.0, t.1, t.2))?;

    // (String, String)
    let strs: Vec<(String, String)> = [
        ("a|b", "c"),
        ("a", "b|c"),
        ("a\"|\"b", "c"),
        ("a", "b\"|\"c"),
        ("a\\\"|\\\"b", "c"),
        ("a\\", "|\"b"),
        ("a|", "b"),
        ("a", "|b"),
        ("", ""),
        ("", "|"),
        ("|", ""),
        ("\"|\"", ""),
        ("", "\"|\""),
        ("\"", "\""),
        ("\\", "\\"),
        ("\n", ""),
        ("\\n", ""),
        ("\u{e9}", "x"),
        ("e\u{301}", "x"),
        ("\u{1F600}|", "\u{1F600}"),
        ("\u{1F600}", "|\u{1F600}"),
    ]
    .iter()
    .map(|(a, b)| (s(a), s(b)))
    .collect();
    let f = fl.strs.call;
    check_pairs(ctx, kind, fl.strs.name, &strs, &|t| f(t.0.clone(), t.1.clone()), &|t| twin_strs(&t.0, &t.1))?;

    // long arguments of equal length that differ in one place only (first / middle / last character, and which of the two
    // arguments carries the difference), with and without `max_memory`: the key is the whole rendering at every length
    let mut long: Vec<(String, String)> = Vec::new();
    for n in [300usize, 1000, 5000] {
        let base = "k".repeat(n);
        long.push((base.clone(), s("v")));
        for pos in [0, n / 2, n - 1] {
            let mut x = base.clone().into_bytes();
            x[pos] = b'j';
            long.push((String::from_utf8(x).unwrap(), s("v")));
        }
        long.push((s("v"), base.clone()));
        let mut y = base.into_bytes();
        y[n - 1] = b'j';
        long.push((s("v"), String::from_utf8(y).unwrap()));
    }
    let f = fl.strs.call;
    check_pairs(ctx, kind, fl.strs.name, &long, &|t| f(t.0.clone(), t.1.clone()), &|t| twin_strs(&t.0, &t.1))?;
    let f = fl.strs_mem.call;
    check_pairs(ctx, kind, fl.strs_mem.name, &long, &|t| f(t.0.clone(), t.1.clone()), &|t| twin_strs(&t.0, &t.1))?;
    check_pairs(ctx, kind, fl.strs_mem.name, &strs, &|t| f(t.0.clone(), t.1.clone()), &|t| twin_strs(&t.0, &t.1))?;

    // (u32, String)
    let mixed: Vec<(u32, String)> = [
        (1, "2|3"),
        (12, "3"),
        (1, "|"),
        (1, ""),
        (1, "23"),
        (12, "|3"),
        (1, "\"2|3\""),
        (1, "2\"|\"3"),
        (12, "\"|\"3"),
        (1, "2|\"3"),
    ]
    .iter()
    .map(|(a, b)| (*a, s(b)))
    .collect();
    let f = fl.plain2.call;
    check_pairs(ctx, kind, fl.plain2.name, &mixed, &|t| f(t.0, t.1.clone()), &|t| twin2(t.0, &t.1))?;

    // methods: (receiver id, a, b)
    let meth: Vec<(u32, u32, String)> = [
        (1, 23, "x"),
        (12, 3, "x"),
        (1, 3, "x"),
        (1, 23, "|x"),
        (1, 2, "3|x"),
        (12, 3, ""),
        (1, 23, ""),
    ]
    .iter()
    .map(|(id, a, b)| (*id, *a, s(b)))
    .collect();
    let f = fl.m.call;
    check_pairs(ctx, kind, fl.m.name, &meth, &|t| f(&Recv { id: t.0 }, t.1, t.2.clone()), &|t| twin_m(t.0, t.1, &t.2))?;

    let recvs: Vec<u32> = vec![1, 12, 112, 2];
    let f = fl.m0.call;
    check_pairs(ctx, kind, fl.m0.name, &recvs, &|id| f(&Recv { id: *id }), &|id| twin_m0(*id))?;

    distinct_shapes(kind, ctx)?;

    // no arguments: two calls, one execution
    let name = fl.noargs.name;
    let f = fl.noargs.call;
    let expected_runs: u64 = if ctx.selftest { 2 } else { 1 };
    step(format!("{name}() twice"));
    fresh(kind, &[name], || {
        let r1 = f();
        let r2 = f();
        let n = instr::runs(name);
        if n != expected_runs {
            let what = format!("{name}() called twice: the body ran {n} times, expected {expected_runs} (returned {r1} and {r2})");
            ctx.report(name, Fail { prop: "C02", what })?;
        }
        if r1 != TWIN_NOARGS || r2 != TWIN_NOARGS {
            let what = format!("{name}() returned {r1} then {r2}, the uncached twin gives {TWIN_NOARGS}");
            ctx.report(name, Fail { prop: "C01", what })?;
        }
        Ok(())
    })
}

/// Containers, options, tuples, chars, floats, arity 1 and 5, a destructuring pattern, a one-argument method
/// and `&str` arguments: adversarial pairs whose Debug texts differ only in where the boundaries fall.
/// Every list is checked for ALL ordered pairs (a superset of the pairs of the spec).
fn distinct_shapes(kind: Kind, ctx: &Ctx) -> Result<(), Fail> {
    fn run<T, V>(ctx: &Ctx, kind: Kind, f: F<fn(&T) -> V>, tuples: Vec<T>, twin: &(dyn Fn(&T) -> V + Sync)) -> Result<(), Fail>
    where
        T: Debug + PartialEq + Sync,
        V: Debug + PartialEq,
    {
        let call = f.call;
        check_pairs(ctx, kind, f.name, &tuples, &move |t| call(t), twin)
    }
    let vs = |v: &[&str]| -> Vec<String> { v.iter().map(|x| s(x)).collect() };
    let os = |o: Option<&str>| o.map(s);

    let vecs2: Vec<(Vec<u32>, Vec<u32>)> = vec![
        (vec![], vec![7]),
        (vec![7], vec![]),
        (vec![1, 2], vec![3]),
        (vec![1], vec![2, 3]),
        (vec![], vec![]),
        (vec![0], vec![]),
        (vec![12], vec![3]),
        (vec![1], vec![23]),
    ];
    run(ctx, kind, sel_vecs2(kind), vecs2, &|t| tw_vecs2(&t.0, &t.1))?;

    let vstr: Vec<(Vec<String>,)> = vec![
        (vs(&["a, b"]),),
        (vs(&["a", "b"]),),
        (vs(&["a\", \"b"]),),
        (vs(&[]),),
        (vs(&[""]),),
        (vs(&["|"]),),
        (vs(&["", ""]),),
        (vs(&["\"|\""]),),
    ];
    run(ctx, kind, sel_vstr(kind), vstr, &|t| tw_vstr(&t.0))?;

    let nested: Vec<(Vec<Vec<u32>>, Option<u32>)> = vec![
        (vec![vec![]], None),
        (vec![], None),
        (vec![vec![1], vec![2]], None),
        (vec![vec![1, 2]], None),
        (vec![], Some(0)),
        (vec![vec![], vec![]], None),
    ];
    run(ctx, kind, sel_nested(kind), nested, &|t| tw_nested(&t.0, &t.1))?;

    let opt2: Vec<(Option<String>, Option<String>)> = vec![
        (None, os(Some("None"))),
        (os(Some("None")), None),
        (os(Some("")), None),
        (None, None),
        (os(Some("Some(\"x\")")), None),
        (os(Some("x")), None),
        (os(Some("None|None")), None),
    ];
    run(ctx, kind, sel_opt2(kind), opt2, &|t| tw_opt2(&t.0, &t.1))?;

    let tup: Vec<((u32, String), u32)> = vec![
        ((1, s("2")), 3),
        ((1, s("2, 3")), 3),
        ((1, s("2\")|(3, \"")), 3),
        ((12, s("")), 3),
        ((1, s("2")), 33),
        ((1, s("a|b")), 2),
        ((1, s("a")), 2),
        ((1, s("a\")|2")), 2),
    ];
    run(ctx, kind, sel_tup(kind), tup, &|t| tw_tup(&t.0, &t.1))?;

    let chars: Vec<(char, char)> = vec![('|', 'a'), ('a', '|'), ('\'', 'a'), ('a', '\''), ('\\', '|'), ('|', '\\'), ('\'', '|'), ('|', '\'')];
    run(ctx, kind, sel_chars(kind), chars, &|t| tw_chars(&t.0, &t.1))?;

    let mixed5: Vec<(i64, bool, char, String, Vec<u32>)> = vec![
        (-1, true, 'x', s(""), vec![]),
        (1, true, 'x', s(""), vec![]),
        (1, true, '|', s("|"), vec![1]),
        (1, true, '|', s(""), vec![1]),
        // differ only in the last position
        (1, true, 'x', s(""), vec![1]),
        (1, true, 'x', s(""), vec![2]),
        // differ only in the first position
        (2, true, 'x', s(""), vec![]),
        (1, false, 'x', s(""), vec![]),
        (1, true, 'x', s("\"|[]"), vec![]),
    ];
    run(ctx, kind, sel_mixed5(kind), mixed5, &|t| tw_mixed5(&t.0, &t.1, &t.2, &t.3, &t.4))?;

    let floats: Vec<(u64, u64)> = [(1.0f64, 2.5f64), (1.0, 2.25), (0.0, -0.0), (-0.0, 0.0), (0.0, 0.0), (1e300, 1.0), (1.0, 1e300), (12.0, 3.0), (1.0, 23.0)]
        .iter()
        .map(|(a, b)| (a.to_bits(), b.to_bits()))
        .collect();
    run(ctx, kind, sel_floats(kind), floats, &|t| tw_floats(&f64::from_bits(t.0), &f64::from_bits(t.1)))?;

    // ((x, y), c)
    let destructured: Vec<(u32, u32, u32)> = vec![(1, 2, 3), (1, 3, 2), (2, 1, 3), (0, 0, 1), (0, 1, 0), (12, 3, 4), (1, 23, 4)];
    run(ctx, kind, sel_destructured(kind), destructured, &|t| tw_destructured(t.0, t.1, t.2))?;

    let one: Vec<(u32,)> = vec![(1,), (12,), (0,), (u32::MAX,)];
    run(ctx, kind, sel_one(kind), one, &|t| tw_one(&t.0))?;

    // (receiver id, argument): same argument on different receivers, same receiver with different arguments
    let m1: Vec<(u32, u32)> = vec![(1, 23), (12, 3), (1, 3), (12, 23), (123, 0), (1, 230)];
    run(ctx, kind, sel_m1(kind), m1, &|t| tw_m1(t.0, t.1))?;

    let strs_ref: Vec<(String, String)> = [
        ("a|b", "c"),
        ("a", "b|c"),
        ("a\"|\"b", "c"),
        ("a", "b\"|\"c"),
        ("", ""),
        ("", "|"),
        ("|", ""),
        ("\\", "\\"),
        ("\"", "\""),
        ("\\\"|\\\"", ""),
    ]
    .iter()
    .map(|(a, b)| (s(a), s(b)))
    .collect();
    run(ctx, kind, sel_strs_ref(kind), strs_ref, &|t| twin_strs(&t.0, &t.1))
}

// ------------------------------------------------------------------------------------------------
// C02 / C01 exhaustive_small_strings: small-scope EXHAUSTIVE check of key injectivity
// ------------------------------------------------------------------------------------------------
/// Every string over `alphabet` of at most `max` characters, shortest first.
fn strings_upto(alphabet: &[char], max: usize) -> Vec<String> {
    let mut all = vec![String::new()];
    let mut last = vec![String::new()];
    for _ in 0..max {
        let mut next = Vec::with_capacity(last.len() * alphabet.len());
        for s in &last {
            for c in alphabet {
                let mut t = s.clone();
                t.push(*c);
                next.push(t);
            }
        }
        all.extend(next.iter().cloned());
        last = next;
    }
    all
}

/// Calls the UNBOUNDED function once on every tuple (seeded shuffled order) on empty caches: nothing is ever evicted,
/// so the body must run exactly once per tuple and every value must be the twin's. A call that is served (no body run)
/// collided with an earlier tuple: the value it was served names that tuple (the twin is injective); a second pass calls
/// every tuple again and counts how many are served a value that is not their own.
fn check_exhaustive<T, V>(ctx: &Ctx, kind: Kind, f: F<fn(&T) -> V>, tuples: &[T], twin: &(dyn Fn(&T) -> V + Sync), salt: u64) -> Result<(), Fail>
where
    T: Debug + Sync,
    V: Debug + Eq + std::hash::Hash,
{
    let (fname, call) = (f.name, f.call);
    let flavour = kind.name();
    step(format!("{fname}: every one of {} tuples once", tuples.len()));
    let seed = ctx.seed;
    let findings: Vec<Fail> = fresh(kind, &[fname], || {
        let mut found: Vec<Fail> = Vec::new();
        let mut order: Vec<usize> = (0..tuples.len()).collect();
        Rng::new(seed ^ salt).shuffle(&mut order);
        // the twin's value -> tuple that owns it, for the tuples called so far
        let mut owner: std::collections::HashMap<V, usize> = std::collections::HashMap::with_capacity(tuples.len());
        let mut collision: Option<String> = None;
        let mut wrong: Option<String> = None;
        let mut runs = instr::runs(fname);
        for (pos, &i) in order.iter().enumerate() {
            let t = &tuples[i];
            let r = call(t);
            let now = instr::runs(fname);
            let ran = now - runs;
            runs = now;
            let e = twin(t);
            let differs = r != e;
            if let Some(j) = owner.get(&e) {
                found.push(Fail { prop: "HARNESS", what: format!("{fname}: the twin does not separate {:?} and {t:?}", tuples[*j]) });
                return found;
            }
            if ran != 1 && collision.is_none() {
                let from = match owner.get(&r) {
                    Some(j) if *j != i => format!("served the value of {fname}{:?}, which was called before", tuples[*j]),
                    _ => format!("served {r:?}, which is the value of no tuple called before"),
                };
                collision = Some(format!(
                    "flavour={flavour} {fname}{t:?} (call {} of {}, every tuple is called once, the cache is unbounded): the body ran {ran} times, expected 1: {from}: the two tuples share a cache entry",
                    pos + 1,
                    tuples.len()
                ));
            } else if ran == 1 && differs && wrong.is_none() {
                wrong = Some(format!("flavour={flavour} {fname}{t:?}: the body ran and the call returned {r:?}, the uncached twin gives {e:?}"));
            }
            owner.insert(e, i);
        }
        if collision.is_some() || wrong.is_some() {
            // second pass: everything is cached now; who is served a value that is not its own?
            let mut strangers = 0usize;
            let mut first: Option<String> = None;
            for t in tuples {
                let r = call(t);
                let e = twin(t);
                if r != e {
                    strangers += 1;
                    if first.is_none() {
                        let whose = owner.get(&r).map_or("no tuple".to_string(), |j| format!("{fname}{:?}", tuples[*j]));
                        first = Some(format!("{fname}{t:?} is served the value of {whose}"));
                    }
                }
            }
            let second = format!("second pass over all {} tuples: {strangers} are served a value that is not their own (first: {})", tuples.len(), first.unwrap_or("none".to_string()));
            if let Some(c) = collision {
                found.push(Fail { prop: "C02", what: format!("{c}; {second}") });
            }
            if let Some(w) = wrong {
                found.push(Fail { prop: "C01", what: format!("{w}; {second}") });
            }
        }
        let n = instr::runs(fname);
        if found.is_empty() && n != tuples.len() as u64 {
            found.push(Fail { prop: "C02", what: format!("flavour={flavour} {fname}: the body ran {n} times for {} distinct tuples", tuples.len()) });
        }
        found
    });
    // the caches of the other two flavours are process-global: give the memory back
    if kind != Kind::Thread {
        clear_cache(fname);
    }
    for fl in findings {
        if fl.prop == "HARNESS" {
            return Err(fl);
        }
        ctx.report(fname, fl)?;
    }
    Ok(())
}

fn exhaustive_small_strings(fl: &Fl, ctx: &Ctx) -> Result<(), Fail> {
    let kind = fl.kind;
    const ALPHABET: [char; 4] = ['a', '|', '"', '\\'];
    let all5 = strings_upto(&ALPHABET, 5);

    // (a, b) with len(a) + len(b) <= 5: 7737 tuples
    let mut pairs: Vec<(String, String)> = Vec::new();
    for a in &all5 {
        let la = a.chars().count();
        for b in all5.iter().take_while(|b| la + b.chars().count() <= 5) {
            pairs.push((a.clone(), b.clone()));
        }
    }
    if pairs.len() != 7737 {
        return harness(format!("exhaustive_small_strings: {} pairs enumerated, 7737 expected", pairs.len()));
    }
    // receivers 1, 12, 2 x every string of length <= 4
    let all4 = strings_upto(&ALPHABET, 4);
    let mut meth: Vec<(u32, String)> = Vec::new();
    for id in [1u32, 12, 2] {
        for a in &all4 {
            meth.push((id, a.clone()));
        }
    }

    // Option: the alphabet cannot spell "None" / "Some(": those two literal strings join the pool
    let mut pool = strings_upto(&ALPHABET, 2);
    pool.push(s("None"));
    pool.push(s("Some(\"a\")"));
    let mut opts: Vec<(Option<String>, String)> = Vec::new();
    for a in std::iter::once(None).chain(pool.iter().cloned().map(Some)) {
        for b in &pool {
            opts.push((a.clone(), b.clone()));
        }
    }

    // The four functions have caches of their own: one thread each (every cache still sees ONE sequential history).
    // The sync engines look a new key up in the whole queue on every store, 7737 stores are 30 million comparisons.
    let results: Vec<Result<(), Fail>> = std::thread::scope(|sc| {
        let (pairs, meth, opts) = (&pairs, &meth, &opts);
        let hs = vec![
            sc.spawn(move || check_exhaustive(ctx, kind, sel_xs2(kind), pairs, &|t| tw_xs2(&t.0, &t.1), 0xE5_01)),
            sc.spawn(move || check_exhaustive(ctx, kind, sel_xs2r(kind), pairs, &|t| tw_xs2(&t.0, &t.1), 0xE5_02)),
            sc.spawn(move || check_exhaustive(ctx, kind, sel_xm(kind), meth, &|t| tw_xm(t.0, &t.1), 0xE5_03)),
            sc.spawn(move || check_exhaustive(ctx, kind, sel_xo(kind), opts, &|t| tw_xo(&t.0, &t.1), 0xE5_04)),
        ];
        hs.into_iter()
            .map(|h| match h.join() {
                Ok(r) => r,
                Err(p) => std::panic::resume_unwind(p),
            })
            .collect()
    });
    for r in results {
        r?;
    }
    Ok(())
}

// ------------------------------------------------------------------------------------------------
// C03 computed_once
// ------------------------------------------------------------------------------------------------
fn computed_once(fl: &Fl, ctx: &Ctx) -> Result<(), Fail> {
    let name = fl.unbounded2.name;
    let f = fl.unbounded2.call;
    let bs = ["", "|", "a", "a|b", "1"];
    let mut tuples: Vec<(u32, String)> = Vec::new();
    for a in 0..8u32 {
        for b in bs {
            tuples.push((a, s(b)));
        }
    }
    for i in 0..tuples.len() {
        for j in 0..i {
            if twin2(tuples[i].0, &tuples[i].1) == twin2(tuples[j].0, &tuples[j].1) {
                return harness(format!("{name}: twin does not separate {:?} and {:?}", tuples[i], tuples[j]));
            }
        }
    }
    let mut rng = Rng::new(ctx.seed ^ 0xC03);
    // every tuple 1..=3 times, in a shuffled order
    let mut order: Vec<usize> = Vec::new();
    for i in 0..tuples.len() {
        for _ in 0..1 + rng.below(3) {
            order.push(i);
        }
    }
    rng.shuffle(&mut order);
    let n_distinct = tuples.len() as u64;
    step(format!("{name}: {} calls over {n_distinct} tuples", order.len()));
    fresh(fl.kind, &[name], || {
        let mut seen = vec![false; tuples.len()];
        let mut expected = 0u64;
        for (pos, &i) in order.iter().enumerate() {
            let (a, b) = &tuples[i];
            let r = f(*a, b.clone());
            if !seen[i] {
                seen[i] = true;
                expected += 1;
            }
            let e = twin2(*a, b);
            if r != e {
                return fail(
                    "C03",
                    format!("call {} of the sequence, {name}({a}, {b:?}) returned {r}, the uncached twin gives {e}", pos + 1),
                );
            }
            let n = instr::runs(name);
            if n != expected {
                return fail(
                    "C03",
                    format!(
                        "after call {} of the sequence, {name}({a}, {b:?}): the body ran {n} times for {expected} distinct tuples so far",
                        pos + 1
                    ),
                );
            }
        }
        let n = instr::runs(name);
        if n != n_distinct {
            return fail("C03", format!("{name}: the body ran {n} times for {n_distinct} distinct tuples"));
        }
        Ok(())
    })
}

// ------------------------------------------------------------------------------------------------
// C09 err_not_cached
// ------------------------------------------------------------------------------------------------
fn err_not_cached_one(kind: Kind, name: &'static str, f: fn(u32) -> ResT) -> Result<(), Fail> {
    step(format!("{name}: Err, Err, Ok, then two more calls"));
    fresh(kind, &[name], || {
        let a = 7u32;
        instr::script_outcomes(name, &[false, false, true]);
        let expected: [(ResT, u64); 5] = [
            (Err(res_err(a, 1)), 1),
            (Err(res_err(a, 2)), 2),
            (Ok(res_ok(a, 3)), 3),
            (Ok(res_ok(a, 3)), 3),
            (Ok(res_ok(a, 3)), 3),
        ];
        for (i, (er, en)) in expected.iter().enumerate() {
            let r = f(a);
            let n = instr::runs(name);
            if n != *en {
                return fail(
                    "C09",
                    format!(
                        "{name}({a}) scripted Err,Err,Ok: after call {} the body ran {n} times, expected {en} (call returned {r:?})",
                        i + 1
                    ),
                );
            }
            if r != *er {
                return fail("C09", format!("{name}({a}) scripted Err,Err,Ok: call {} returned {r:?}, expected {er:?}", i + 1));
            }
        }
        // a different key whose first outcome is Ok: one execution
        let b = 8u32;
        instr::script_outcomes(name, &[true, false]);
        let r1 = f(b);
        let r2 = f(b);
        let n = instr::runs(name);
        let e: ResT = Ok(res_ok(b, 4));
        if n != 4 {
            return fail(
                "C09",
                format!("{name}({b}) twice, first outcome Ok: the body ran {} times for this key, expected 1", n.saturating_sub(3)),
            );
        }
        if r1 != e || r2 != e {
            return fail("C09", format!("{name}({b}) twice, first outcome Ok: returned {r1:?} then {r2:?}, expected {e:?} twice"));
        }
        Ok(())
    })
}

fn err_not_cached(fl: &Fl, _ctx: &Ctx) -> Result<(), Fail> {
    err_not_cached_one(fl.kind, fl.res.name, fl.res.call)?;
    err_not_cached_one(fl.kind, fl.std_res.name, fl.std_res.call)?;
    err_not_cached_one(fl.kind, fl.res_mem.name, fl.res_mem.call)
}

// ------------------------------------------------------------------------------------------------
// C10 cache_if
// ------------------------------------------------------------------------------------------------
/// reject, reject, accept, then two more calls. `hits_checked`: the function also has `invalidate_on`
/// (thread-scope `all`); its check says "valid" and must be consulted on the two hits only.
fn cache_if_seq(kind: Kind, name: &'static str, f: fn(u32) -> u64, hits_checked: bool) -> Result<(), Fail> {
    step(format!("{name}: reject, reject, accept, then two more calls"));
    fresh(kind, &[name], || {
        let a = 5u32;
        let key = format!("{a:?}");
        instr::script_verdicts(name, &[false, false, true]);
        let expected: [(u64, u64); 5] =
            [(fresh_val(a, 1), 1), (fresh_val(a, 2), 2), (fresh_val(a, 3), 3), (fresh_val(a, 3), 3), (fresh_val(a, 3), 3)];
        for (i, (ev, en)) in expected.iter().enumerate() {
            let r = f(a);
            let n = instr::runs(name);
            if n != *en {
                return fail(
                    "C10",
                    format!(
                        "{name}({a}) verdicts reject,reject,accept: after call {} the body ran {n} times, expected {en} (call returned {r})",
                        i + 1
                    ),
                );
            }
            if r != *ev {
                return fail("C10", format!("{name}({a}) verdicts reject,reject,accept: call {} returned {r}, expected {ev}", i + 1));
            }
            let log = instr::pred_log(name);
            let want: Vec<(String, String)> = (1..=*en).map(|k| (key.clone(), format!("{:?}", fresh_val(a, k)))).collect();
            if log != want {
                return fail(
                    "C10",
                    format!("{name}({a}): after call {} the predicate had been consulted with {log:?}, expected {want:?}", i + 1),
                );
            }
        }
        if hits_checked {
            let log = instr::check_log(name);
            let want: Vec<(String, String)> = vec![(key.clone(), format!("{:?}", fresh_val(a, 3))); 2];
            if log != want {
                return fail("C10", format!("{name}({a}): invalidate_on consulted with {log:?}, expected {want:?} (the two hits)"));
            }
        }
        Ok(())
    })
}

fn cache_if_res(kind: Kind, name: &'static str, f: fn(u32) -> ResT) -> Result<(), Fail> {
    let key_of = |a: u32| format!("{a:?}");
    step(format!("{name}: accepted Err, then accepted Ok"));
    fresh(kind, &[name], || {
        let a = 6u32;
        instr::script_verdicts(name, &[true, true, true]);
        instr::script_outcomes(name, &[false, true, true]);
        let e1: ResT = Err(res_err(a, 1));
        let r1 = f(a);
        if r1 != e1 || instr::runs(name) != 1 {
            return fail(
                "C10",
                format!("{name}({a}) first call, outcome Err: returned {r1:?} after {} executions, expected {e1:?} after 1", instr::runs(name)),
            );
        }
        let (r2, r3) = (f(a), f(a));
        let n = instr::runs(name);
        let log = instr::pred_log(name);
        if kind == Kind::Async {
            // the async wrapper hands the decision to the predicate alone: an accepted Err IS stored
            if n != 1 || r2 != e1 || r3 != e1 {
                return fail(
                    "C10",
                    format!("{name}({a}): accepted Err must be stored and served: body ran {n} times (expected 1), calls 2,3 returned {r2:?}, {r3:?} (expected {e1:?})"),
                );
            }
            let want = vec![(key_of(a), format!("{e1:?}"))];
            if log != want {
                return fail("C10", format!("{name}({a}): predicate consulted with {log:?}, expected {want:?}"));
            }
        } else {
            // the sync wrappers store through insert_result: an accepted Err is NOT stored
            let e2: ResT = Ok(res_ok(a, 2));
            if n != 2 || r2 != e2 || r3 != e2 {
                return fail(
                    "C10",
                    format!("{name}({a}): accepted Err must not be stored, accepted Ok must: body ran {n} times (expected 2), calls 2,3 returned {r2:?}, {r3:?} (expected {e2:?})"),
                );
            }
            let want = vec![(key_of(a), format!("{e1:?}")), (key_of(a), format!("{e2:?}"))];
            if log != want {
                return fail("C10", format!("{name}({a}): predicate consulted with {log:?}, expected {want:?}"));
            }
        }
        // a rejected Ok is not stored, the next accepted one is
        let b = 9u32;
        let base = instr::runs(name);
        instr::script_verdicts(name, &[false, true]);
        instr::script_outcomes(name, &[true, true]);
        let (q1, q2, q3) = (f(b), f(b), f(b));
        let n = instr::runs(name) - base;
        let (w1, w2): (ResT, ResT) = (Ok(res_ok(b, base + 1)), Ok(res_ok(b, base + 2)));
        if n != 2 || q1 != w1 || q2 != w2 || q3 != w2 {
            return fail(
                "C10",
                format!("{name}({b}) verdicts reject,accept: body ran {n} times (expected 2), returned {q1:?}, {q2:?}, {q3:?} (expected {w1:?}, {w2:?}, {w2:?})"),
            );
        }
        Ok(())
    })
}

fn cache_if(fl: &Fl, _ctx: &Ctx) -> Result<(), Fail> {
    cache_if_seq(fl.kind, fl.cif.name, fl.cif.call, false)?;
    cache_if_res(fl.kind, fl.cif_res.name, fl.cif_res.call)?;
    if let Some(all) = &fl.all {
        cache_if_seq(fl.kind, all.name, all.call, true)?;
    }
    Ok(())
}

// ------------------------------------------------------------------------------------------------
// C11 invalidate_on
// ------------------------------------------------------------------------------------------------
/// `preds`: the function also has `cache_if` (thread-scope `all`); it accepts everything and must be
/// consulted once per execution.
fn invalidate_on_seq(kind: Kind, name: &'static str, f: fn(u32) -> u64, preds: bool) -> Result<(), Fail> {
    step(format!("{name}: valid, stale, stale, valid"));
    fresh(kind, &[name], || {
        let a = 3u32;
        let key = format!("{a:?}");
        let (v1, v2, v3) = (fresh_val(a, 1), fresh_val(a, 2), fresh_val(a, 3));
        let entry = |v: u64| (key.clone(), format!("{v:?}"));
        // (verdict before the call, expected result, executions after, consultations after)
        let plan: [(bool, u64, u64, Vec<(String, String)>); 5] = [
            (false, v1, 1, vec![]),
            (false, v1, 1, vec![entry(v1)]),
            (true, v2, 2, vec![entry(v1), entry(v1)]),
            (true, v3, 3, vec![entry(v1), entry(v1), entry(v2)]),
            (false, v3, 3, vec![entry(v1), entry(v1), entry(v2), entry(v3)]),
        ];
        for (i, (stale, ev, en, elog)) in plan.iter().enumerate() {
            instr::set_stale(name, *stale);
            let r = f(a);
            let n = instr::runs(name);
            let what = if *stale { "stale" } else { "valid" };
            if n != *en {
                return fail(
                    "C11",
                    format!("{name}({a}) call {} (check says {what}): the body had run {n} times, expected {en} (call returned {r})", i + 1),
                );
            }
            if r != *ev {
                return fail("C11", format!("{name}({a}) call {} (check says {what}): returned {r}, expected {ev}", i + 1));
            }
            let log = instr::check_log(name);
            if log != *elog {
                return fail(
                    "C11",
                    format!("{name}({a}) call {} (check says {what}): invalidate_on had been consulted with {log:?}, expected {elog:?}", i + 1),
                );
            }
        }
        if preds {
            let log = instr::pred_log(name);
            let want = vec![entry(v1), entry(v2), entry(v3)];
            if log != want {
                return fail("C11", format!("{name}({a}): cache_if consulted with {log:?}, expected {want:?} (once per execution)"));
            }
        }
        Ok(())
    })
}

fn invalidate_on(fl: &Fl, _ctx: &Ctx) -> Result<(), Fail> {
    invalidate_on_seq(fl.kind, fl.inv.name, fl.inv.call, false)?;
    if let Some(all) = &fl.all {
        invalidate_on_seq(fl.kind, all.name, all.call, true)?;
    }
    Ok(())
}

// ------------------------------------------------------------------------------------------------
// C20 suspended_or_dropped (async only)
// ------------------------------------------------------------------------------------------------
fn keys_of(name: &'static str) -> Result<BTreeSet<String>, Fail> {
    match list_keys(name) {
        Some(k) => Ok(k),
        None => fail("C20", format!("invalidate_with({name:?}, ..) returned false: no cache registered under that name")),
    }
}

fn suspended_or_dropped(_ctx: &Ctx) -> Result<(), Fail> {
    const G: &str = "a_gated";
    const GI: &str = "a_gated_inv";
    const P: &str = "a_plain2";
    for n in [G, GI, P] {
        instr::reset(n);
        clear_cache(n);
    }
    instr::gate_open_all();
    let runs = |n: &'static str| instr::runs(n);

    // (a) a call suspended at its await point holds nothing that other operations need
    step("(a) first poll of a_gated(1), gate closed");
    instr::gate_close(1);
    tick();
    let mut f1 = Box::pin(a_gated(1));
    if let Poll::Ready(v) = poll_once(f1.as_mut()) {
        return fail("C20", format!("a_gated(1) completed with {v} on the first poll although its body waits at a closed gate"));
    }
    if runs(G) != 1 {
        return fail("C20", format!("a_gated(1) polled once: the body started {} times, expected 1", runs(G)));
    }
    step("(a) a_gated(2) while a_gated(1) is suspended");
    tick();
    let v2 = block_on(a_gated(2));
    if v2 != gated_val(2) || runs(G) != 2 {
        return fail(
            "C20",
            format!("a_gated(2) while a_gated(1) is suspended: returned {v2} after {} executions, expected {} after 2", runs(G), gated_val(2)),
        );
    }
    step("(a) invalidate_with(\"a_gated\", |_| false) while a_gated(1) is suspended");
    let keys = keys_of(G)?;
    let want: BTreeSet<String> = [s("2")].into_iter().collect();
    if keys != want {
        return fail("C20", format!("while a_gated(1) is suspended the cache lists keys {keys:?}, expected {want:?}"));
    }
    step("(a) a_plain2(900, \"c20\") while a_gated(1) is suspended");
    tick();
    let p = block_on(a_plain2(900, s("c20")));
    if p != twin2(900, "c20") {
        return fail("C20", format!("a_plain2(900, \"c20\") while a_gated(1) is suspended returned {p}, expected {}", twin2(900, "c20")));
    }

    // (b) the resumed call stores its result
    step("(b) gate opened, a_gated(1) polled to completion");
    instr::gate_open(1);
    let v1 = block_on(f1.as_mut());
    if v1 != gated_val(1) || runs(G) != 2 {
        return fail(
            "C20",
            format!("a_gated(1) resumed: returned {v1} after {} executions in total, expected {} after 2", runs(G), gated_val(1)),
        );
    }
    drop(f1);
    step("(b) a_gated(1) again: served");
    tick();
    let v1b = block_on(a_gated(1));
    if v1b != gated_val(1) || runs(G) != 2 {
        return fail(
            "C20",
            format!("a_gated(1) after the resumed call completed: returned {v1b} after {} executions in total, expected {} served (2 executions)", runs(G), gated_val(1)),
        );
    }

    // (c) a call dropped at its await point leaves no entry
    step("(c) a_gated(3) polled once, then dropped");
    instr::gate_close(3);
    tick();
    let mut f3 = Box::pin(a_gated(3));
    if let Poll::Ready(v) = poll_once(f3.as_mut()) {
        return fail("C20", format!("a_gated(3) completed with {v} on the first poll although its body waits at a closed gate"));
    }
    if runs(G) != 3 {
        return fail("C20", format!("a_gated(3) polled once: {} executions in total, expected 3", runs(G)));
    }
    drop(f3);
    let keys = keys_of(G)?;
    if keys.contains("3") {
        return fail("C20", format!("a_gated(3) was dropped at its await point but the cache lists its key: {keys:?}"));
    }
    step("(c) a_gated(3) after the drop: runs the body");
    instr::gate_open(3);
    tick();
    let v3 = block_on(a_gated(3));
    if v3 != gated_val(3) || runs(G) != 4 {
        return fail(
            "C20",
            format!("a_gated(3) after the dropped call: returned {v3} after {} executions in total, expected {} after 4", runs(G), gated_val(3)),
        );
    }

    // (d) invalidate_on: a stale hit dropped at the await keeps the old entry
    step("(d) a_gated_inv(5) stored");
    instr::set_stale(GI, false);
    tick();
    let w1 = block_on(a_gated_inv(5));
    if w1 != fresh_val(5, 1) || runs(GI) != 1 {
        return fail("C20", format!("a_gated_inv(5) first call: returned {w1} after {} executions, expected {} after 1", runs(GI), fresh_val(5, 1)));
    }
    step("(d) stale hit of a_gated_inv(5), polled once, dropped");
    instr::set_stale(GI, true);
    instr::gate_close(5);
    tick();
    let mut f5 = Box::pin(a_gated_inv(5));
    if let Poll::Ready(v) = poll_once(f5.as_mut()) {
        return fail("C20", format!("a_gated_inv(5) with a stale entry completed with {v} on the first poll although the refresh waits at a closed gate"));
    }
    let log = instr::check_log(GI);
    let want = vec![(s("5"), format!("{w1:?}"))];
    if runs(GI) != 2 || log != want {
        return fail(
            "C20",
            format!("a_gated_inv(5) stale hit polled once: {} executions (expected 2), invalidate_on consulted with {log:?} (expected {want:?})", runs(GI)),
        );
    }
    drop(f5);
    let keys = keys_of(GI)?;
    if !keys.contains("5") {
        return fail("C20", format!("a_gated_inv(5): the refresh was dropped at its await point and the old entry is gone: keys {keys:?}"));
    }
    step("(d) a_gated_inv(5), check says valid again: served the old value");
    instr::set_stale(GI, false);
    instr::gate_open(5);
    tick();
    let w = block_on(a_gated_inv(5));
    if w != w1 || runs(GI) != 2 {
        return fail(
            "C20",
            format!("a_gated_inv(5) after the dropped refresh: returned {w} after {} executions in total, expected the old value {w1} served (2 executions)", runs(GI)),
        );
    }
    Ok(())
}

// ------------------------------------------------------------------------------------------------
// C12 / C13: decorated functions for group and conditional invalidation (global and async only)
// ------------------------------------------------------------------------------------------------
fn twin12(which: u64, a: u32) -> u64 {
    a as u64 * 11 + which * 1000
}
fn twin13(a: u32) -> u64 {
    a as u64 * 13 + 5
}
/// 300 bytes of payload: three of them nearly fill the 1 KB budget of the `*_mem` caches, four do not fit.
fn twin13_mem(a: u32) -> String {
    let mut s = format!("{a:0>300}");
    s.shrink_to_fit();
    s
}

// A: tags t1 t2, events e1 ; B: tags t2, dependencies d1 and its own name ; C: events e1, dependencies d1 and A ; D: nothing
#[cache(name = "c12g_A", tags = ["c12g_t1", "c12g_t2"], events = ["c12g_e1"])]
fn g12_a(a: u32) -> u64 {
    instr::ran("c12g_A");
    twin12(1, a)
}
#[cache(name = "c12g_B", tags = ["c12g_t2"], dependencies = ["c12g_d1", "c12g_B"])]
fn g12_b(a: u32) -> u64 {
    instr::ran("c12g_B");
    twin12(2, a)
}
#[cache(name = "c12g_C", events = ["c12g_e1"], dependencies = ["c12g_d1", "c12g_A"])]
fn g12_c(a: u32) -> u64 {
    instr::ran("c12g_C");
    twin12(3, a)
}
#[cache(name = "c12g_D")]
fn g12_d(a: u32) -> u64 {
    instr::ran("c12g_D");
    twin12(4, a)
}
#[cache_async(name = "c12a_A", tags = ["c12a_t1", "c12a_t2"], events = ["c12a_e1"])]
async fn a12_a(a: u32) -> u64 {
    instr::ran("c12a_A");
    twin12(1, a)
}
#[cache_async(name = "c12a_B", tags = ["c12a_t2"], dependencies = ["c12a_d1", "c12a_B"])]
async fn a12_b(a: u32) -> u64 {
    instr::ran("c12a_B");
    twin12(2, a)
}
#[cache_async(name = "c12a_C", events = ["c12a_e1"], dependencies = ["c12a_d1", "c12a_A"])]
async fn a12_c(a: u32) -> u64 {
    instr::ran("c12a_C");
    twin12(3, a)
}
#[cache_async(name = "c12a_D")]
async fn a12_d(a: u32) -> u64 {
    instr::ran("c12a_D");
    twin12(4, a)
}

#[cache(limit = 4, policy = "fifo", name = "c13g_fifo")]
fn g13_fifo(a: u32) -> u64 {
    instr::ran("c13g_fifo");
    twin13(a)
}
#[cache(limit = 4, policy = "lru", name = "c13g_lru")]
fn g13_lru(a: u32) -> u64 {
    instr::ran("c13g_lru");
    twin13(a)
}
#[cache(name = "c13g_other")]
fn g13_other(a: u32) -> u64 {
    instr::ran("c13g_other");
    twin13(a)
}
#[cache(max_memory = "1KB", policy = "fifo", name = "c13g_mem")]
fn g13_mem(a: u32) -> String {
    instr::ran("c13g_mem");
    twin13_mem(a)
}
#[cache_async(limit = 4, policy = "fifo", name = "c13a_fifo")]
async fn a13_fifo(a: u32) -> u64 {
    instr::ran("c13a_fifo");
    twin13(a)
}
#[cache_async(limit = 4, policy = "lru", name = "c13a_lru")]
async fn a13_lru(a: u32) -> u64 {
    instr::ran("c13a_lru");
    twin13(a)
}
#[cache_async(name = "c13a_other")]
async fn a13_other(a: u32) -> u64 {
    instr::ran("c13a_other");
    twin13(a)
}
#[cache_async(max_memory = "1KB", policy = "fifo", name = "c13a_mem")]
async fn a13_mem(a: u32) -> String {
    instr::ran("c13a_mem");
    twin13_mem(a)
}

/// The four caches of `group_invalidation_<flavour>` and the strings they declare.
struct Grp {
    /// A, B, C, D
    fns: [F<fn(u32) -> u64>; 4],
    t1: &'static str,
    t2: &'static str,
    e1: &'static str,
    d1: &'static str,
    /// a name nothing declares
    nothing: &'static str,
}
fn group(kind: Kind) -> Grp {
    match kind {
        Kind::Async => Grp {
            fns: [
                f!("c12a_A", |a| block_on(a12_a(a))),
                f!("c12a_B", |a| block_on(a12_b(a))),
                f!("c12a_C", |a| block_on(a12_c(a))),
                f!("c12a_D", |a| block_on(a12_d(a))),
            ],
            t1: "c12a_t1",
            t2: "c12a_t2",
            e1: "c12a_e1",
            d1: "c12a_d1",
            nothing: "c12a_nothing",
        },
        _ => Grp {
            fns: [f!("c12g_A", |a| g12_a(a)), f!("c12g_B", |a| g12_b(a)), f!("c12g_C", |a| g12_c(a)), f!("c12g_D", |a| g12_d(a))],
            t1: "c12g_t1",
            t2: "c12g_t2",
            e1: "c12g_e1",
            d1: "c12g_d1",
            nothing: "c12g_nothing",
        },
    }
}

struct Cond {
    fifo: F<fn(u32) -> u64>,
    lru: F<fn(u32) -> u64>,
    other: F<fn(u32) -> u64>,
    mem: F<fn(u32) -> String>,
    unknown: &'static str,
}
fn cond(kind: Kind) -> Cond {
    match kind {
        Kind::Async => Cond {
            fifo: f!("c13a_fifo", |a| block_on(a13_fifo(a))),
            lru: f!("c13a_lru", |a| block_on(a13_lru(a))),
            other: f!("c13a_other", |a| block_on(a13_other(a))),
            mem: f!("c13a_mem", |a| block_on(a13_mem(a))),
            unknown: "c13a_unknown",
        },
        _ => Cond {
            fifo: f!("c13g_fifo", |a| g13_fifo(a)),
            lru: f!("c13g_lru", |a| g13_lru(a)),
            other: f!("c13g_other", |a| g13_other(a)),
            mem: f!("c13g_mem", |a| g13_mem(a)),
            unknown: "c13g_unknown",
        },
    }
}

// ------------------------------------------------------------------------------------------------
// C12 (emptiness, counts) / C13 (precision) group_invalidation
// ------------------------------------------------------------------------------------------------
#[derive(Clone, Copy)]
enum Req {
    Tag(&'static str),
    Event(&'static str),
    Dep(&'static str),
    Name(&'static str),
}
impl Req {
    fn text(self) -> String {
        match self {
            Req::Tag(x) => format!("invalidate_by_tag({x:?})"),
            Req::Event(x) => format!("invalidate_by_event({x:?})"),
            Req::Dep(x) => format!("invalidate_by_dependency({x:?})"),
            Req::Name(x) => format!("invalidate_cache({x:?})"),
        }
    }
    /// The returned count; `invalidate_cache` answers true / false, reported as 1 / 0.
    fn issue(self) -> usize {
        match self {
            Req::Tag(x) => cachelito_core::invalidate_by_tag(x),
            Req::Event(x) => cachelito_core::invalidate_by_event(x),
            Req::Dep(x) => cachelito_core::invalidate_by_dependency(x),
            Req::Name(x) => cachelito_core::invalidate_cache(x) as usize,
        }
    }
}

const GROUP_KEYS: [u32; 3] = [1, 2, 3];

/// Issues `req` against caches `considered` (indices into `g.fns`), all of them warm: the answer must be
/// `matching.len()`, every matching cache must execute again for every key (C12), every other one must
/// serve every key (C13). Leaves all considered caches warm again.
fn group_request(ctx: &Ctx, g: &Grp, req: Req, matching: &[usize], considered: &[usize]) -> Result<(), Fail> {
    let text = req.text();
    step(text.clone());
    let got = req.issue();
    if got != matching.len() {
        let names: Vec<&str> = matching.iter().map(|&i| g.fns[i].name).collect();
        let what = format!("{text} returned {got}, expected {} (used caches that declare it: {names:?})", matching.len());
        ctx.report(&text, Fail { prop: "C12", what })?;
    }
    for &i in considered {
        let f = &g.fns[i];
        for a in GROUP_KEYS {
            let before = instr::runs(f.name);
            let r = (f.call)(a);
            let ran = instr::runs(f.name) - before;
            let e = twin12(i as u64 + 1, a);
            if r != e {
                let what = format!("after {text}: {}({a}) returned {r}, the uncached twin gives {e}", f.name);
                ctx.report(&text, Fail { prop: "C13", what })?;
            }
            if matching.contains(&i) {
                if ran != 1 {
                    let what = format!(
                        "after {text}: {}({a}) ran the body {ran} times, expected 1: the cache matches the request and must hold no entry from before it",
                        f.name
                    );
                    ctx.report(&text, Fail { prop: "C12", what })?;
                }
            } else if ran != 0 {
                let what = format!(
                    "after {text}: {}({a}) ran the body {ran} times, expected 0: the cache does not match the request and must keep its entries",
                    f.name
                );
                ctx.report(&text, Fail { prop: "C13", what })?;
            }
        }
    }
    Ok(())
}

/// B and C of a flavour have been called in this process (their registrations cannot be undone).
static GROUP_USED: [AtomicBool; 2] = [AtomicBool::new(false), AtomicBool::new(false)];

fn group_invalidation(kind: Kind, ctx: &Ctx) -> Result<(), Fail> {
    let g = group(kind);
    let (a, b, c, d) = (0usize, 1usize, 2usize, 3usize);
    for f in &g.fns {
        instr::reset(f.name);
        clear_cache(f.name);
    }
    let warm = |idx: &[usize]| -> Result<(), Fail> {
        for &i in idx {
            for k in GROUP_KEYS {
                (g.fns[i].call)(k);
            }
            let before = instr::runs(g.fns[i].name);
            for k in GROUP_KEYS {
                (g.fns[i].call)(k);
            }
            let ran = instr::runs(g.fns[i].name) - before;
            if ran != 0 {
                let what = format!("{}: second round over keys {GROUP_KEYS:?} ran the body {ran} times with no invalidation requested", g.fns[i].name);
                ctx.report("warm-up", Fail { prop: "C13", what })?;
            }
        }
        Ok(())
    };

    // only A has been used so far: B and C declare t2 / e1 / d1 too but have registered nothing yet
    let first = !GROUP_USED[(kind == Kind::Async) as usize].swap(true, Ordering::Relaxed);
    if first {
        step("only A used");
        warm(&[a])?;
        group_request(ctx, &g, Req::Tag(g.t2), &[a], &[a])?;
        group_request(ctx, &g, Req::Event(g.e1), &[a], &[a])?;
        group_request(ctx, &g, Req::Dep(g.d1), &[], &[a])?;
        group_request(ctx, &g, Req::Name(g.fns[b].name), &[], &[a])?;
    }

    step("warm-up of A B C D");
    warm(&[a, b, c, d])?;
    let all = [a, b, c, d];
    let (na, nb, nc, nd) = (g.fns[a].name, g.fns[b].name, g.fns[c].name, g.fns[d].name);
    let plan: Vec<(Req, Vec<usize>)> = vec![
        (Req::Tag(g.t1), vec![a]),
        (Req::Tag(g.t2), vec![a, b]),
        (Req::Event(g.e1), vec![a, c]),
        (Req::Dep(g.d1), vec![b, c]),
        // C lists A's name as a dependency; B lists its own
        (Req::Dep(na), vec![c]),
        (Req::Dep(nb), vec![b]),
        (Req::Dep(nc), vec![]),
        // names nothing declares
        (Req::Tag(g.nothing), vec![]),
        (Req::Event(g.nothing), vec![]),
        (Req::Dep(g.nothing), vec![]),
        (Req::Name(g.nothing), vec![]),
        // the wrong table
        (Req::Event(g.t1), vec![]),
        (Req::Event(g.t2), vec![]),
        (Req::Tag(g.e1), vec![]),
        (Req::Tag(g.d1), vec![]),
        (Req::Dep(g.t2), vec![]),
        (Req::Dep(g.e1), vec![]),
        (Req::Tag(na), vec![]),
        (Req::Event(na), vec![]),
        // by name: exactly that cache
        (Req::Name(na), vec![a]),
        (Req::Name(nb), vec![b]),
        (Req::Name(nc), vec![c]),
        // the control declares nothing: no request reaches it, not even its own name
        (Req::Name(nd), vec![]),
        (Req::Tag(nd), vec![]),
        (Req::Event(nd), vec![]),
        (Req::Dep(nd), vec![]),
    ];
    for (req, matching) in &plan {
        group_request(ctx, &g, *req, matching, &all)?;
    }
    Ok(())
}

// ------------------------------------------------------------------------------------------------
// C13 conditional_invalidation
// ------------------------------------------------------------------------------------------------
fn keyset(keys: &[u32]) -> BTreeSet<String> {
    keys.iter().map(|k| format!("{k:?}")).collect()
}
fn listed(name: &'static str) -> Result<BTreeSet<String>, Fail> {
    match list_keys(name) {
        Some(k) => Ok(k),
        None => fail("C13", format!("invalidate_with({name:?}, |_| false) returned false although the cache has been used")),
    }
}
fn matches(keys: &[u32], k: &str) -> bool {
    k.parse::<u32>().map_or(false, |x| keys.contains(&x))
}

/// One call of a `u64` function of the C13 family: the body must run `expect_runs` times, the value must be the twin's.
fn call13(f: &F<fn(u32) -> u64>, a: u32, expect_runs: u64, context: &str) -> Result<(), Fail> {
    let before = instr::runs(f.name);
    let r = (f.call)(a);
    let ran = instr::runs(f.name) - before;
    if r != twin13(a) {
        return fail("C13", format!("{context}: {}({a}) returned {r}, the uncached twin gives {}", f.name, twin13(a)));
    }
    if ran != expect_runs {
        let how = if expect_runs == 0 { "served from the cache" } else { "executed" };
        return fail("C13", format!("{context}: {}({a}) ran the body {ran} times, expected {expect_runs} ({how})", f.name));
    }
    Ok(())
}
fn expect_keys(name: &'static str, want: &[u32], context: &str) -> Result<(), Fail> {
    let got = listed(name)?;
    if got != keyset(want) {
        return fail("C13", format!("{context}: cache {name} holds keys {got:?}, expected {:?}", keyset(want)));
    }
    Ok(())
}

/// Store 1..=4 in a cache of limit 4, hit `hits`, invalidate exactly `remove`, then store `adds` one by one.
/// After each step the key listing (which touches neither order nor recency) must be the given one: limits and
/// eviction order behave as if the removed entries had never been stored. Calls probe only at the very end.
struct LimitCase {
    label: &'static str,
    hits: &'static [u32],
    remove: &'static [u32],
    after: &'static [u32],
    adds: &'static [(u32, &'static [u32])],
    /// a key that is gone at the end: must execute again
    gone: u32,
}

fn limit_case(f: &F<fn(u32) -> u64>, c: &LimitCase) -> Result<(), Fail> {
    let name = f.name;
    let cx = format!("{name} [{}]", c.label);
    step(cx.clone());
    instr::reset(name);
    clear_cache(name);
    for a in 1..=4u32 {
        call13(f, a, 1, &format!("{cx}: filling an empty cache of limit 4"))?;
    }
    expect_keys(name, &[1, 2, 3, 4], &format!("{cx}: after storing 1..=4"))?;
    for &h in c.hits {
        call13(f, h, 0, &format!("{cx}: hit before the invalidation"))?;
    }
    let remove = c.remove;
    let found = cachelito_core::invalidate_with(name, |k| matches(remove, k));
    if !found {
        return fail("C13", format!("{cx}: invalidate_with({name:?}, key in {remove:?}) returned false although the cache has been used"));
    }
    expect_keys(name, c.after, &format!("{cx}: after invalidate_with(key in {remove:?})"))?;
    let mut last: &[u32] = c.after;
    for (a, want) in c.adds {
        call13(f, *a, 1, &format!("{cx}: storing a new key after the invalidation"))?;
        expect_keys(
            name,
            want,
            &format!("{cx}: invalidated {remove:?} out of [1, 2, 3, 4] (hits {:?}), held {last:?}, then stored {a}", c.hits),
        )?;
        last = want;
    }
    // probes by calls, at the very end: everything listed is served, a removed / evicted key executes
    for &a in last {
        call13(f, a, 0, &format!("{cx}: final probe of the resident keys {last:?}"))?;
    }
    call13(f, c.gone, 1, &format!("{cx}: final probe of a key that is gone"))
}

const FIFO_CASES: [LimitCase; 5] = [
    LimitCase {
        label: "fifo, remove the second oldest",
        hits: &[],
        remove: &[2],
        after: &[1, 3, 4],
        adds: &[(5, &[1, 3, 4, 5]), (6, &[3, 4, 5, 6]), (7, &[4, 5, 6, 7])],
        gone: 2,
    },
    LimitCase { label: "fifo, remove the newest", hits: &[], remove: &[4], after: &[1, 2, 3], adds: &[(5, &[1, 2, 3, 5]), (6, &[2, 3, 5, 6])], gone: 4 },
    LimitCase { label: "fifo, remove the oldest", hits: &[], remove: &[1], after: &[2, 3, 4], adds: &[(5, &[2, 3, 4, 5]), (6, &[3, 4, 5, 6])], gone: 1 },
    LimitCase {
        label: "fifo, remove all",
        hits: &[],
        remove: &[1, 2, 3, 4],
        after: &[],
        adds: &[(5, &[5]), (6, &[5, 6]), (7, &[5, 6, 7]), (8, &[5, 6, 7, 8]), (9, &[6, 7, 8, 9])],
        gone: 3,
    },
    LimitCase { label: "fifo, remove none", hits: &[], remove: &[], after: &[1, 2, 3, 4], adds: &[(5, &[2, 3, 4, 5])], gone: 1 },
];
// after the hit on 1 the recency order is 2 3 4 1
const LRU_CASES: [LimitCase; 4] = [
    LimitCase {
        label: "lru, remove the least recently used",
        hits: &[1],
        remove: &[2],
        after: &[1, 3, 4],
        adds: &[(5, &[1, 3, 4, 5]), (6, &[1, 4, 5, 6]), (7, &[1, 5, 6, 7]), (8, &[5, 6, 7, 8])],
        gone: 3,
    },
    LimitCase { label: "lru, remove the most recently used", hits: &[1], remove: &[1], after: &[2, 3, 4], adds: &[(5, &[2, 3, 4, 5]), (6, &[3, 4, 5, 6])], gone: 1 },
    LimitCase {
        label: "lru, remove two in the middle",
        hits: &[1],
        remove: &[3, 4],
        after: &[1, 2],
        adds: &[(5, &[1, 2, 5]), (6, &[1, 2, 5, 6]), (7, &[1, 5, 6, 7]), (8, &[5, 6, 7, 8])],
        gone: 3,
    },
    LimitCase { label: "lru, remove none", hits: &[1], remove: &[], after: &[1, 2, 3, 4], adds: &[(5, &[1, 3, 4, 5])], gone: 2 },
];

/// The removed key executes again, the kept ones are served: probed right after the invalidation.
fn immediate_probe(f: &F<fn(u32) -> u64>) -> Result<(), Fail> {
    let name = f.name;
    let cx = format!("{name} [probe right after invalidate_with(key == \"2\")]");
    step(cx.clone());
    instr::reset(name);
    clear_cache(name);
    for a in 1..=4u32 {
        call13(f, a, 1, &format!("{cx}: filling"))?;
    }
    if !cachelito_core::invalidate_with(name, |k| k == "2") {
        return fail("C13", format!("{cx}: invalidate_with returned false although the cache has been used"));
    }
    for a in [1u32, 3, 4] {
        call13(f, a, 0, &format!("{cx}: a key the predicate rejected"))?;
    }
    call13(f, 2, 1, &format!("{cx}: the key the predicate matched"))
}

fn unknown_name(c: &Cond) -> Result<(), Fail> {
    let f = &c.fifo;
    let cx = format!("invalidate_with({:?}, |_| true)", c.unknown);
    step(cx.clone());
    instr::reset(f.name);
    clear_cache(f.name);
    for a in 1..=3u32 {
        call13(f, a, 1, &format!("{cx}: filling {}", f.name))?;
    }
    if cachelito_core::invalidate_with(c.unknown, |_| true) {
        return fail("C13", format!("{cx} returned true although no cache is registered under that name"));
    }
    expect_keys(f.name, &[1, 2, 3], &format!("{cx}: a name nothing registered"))?;
    for a in 1..=3u32 {
        call13(f, a, 0, &format!("{cx}: a name nothing registered"))?;
    }
    Ok(())
}

fn all_with(c: &Cond) -> Result<(), Fail> {
    let (x, y) = (&c.fifo, &c.other);
    let cx = format!("invalidate_all_with(|name, key| name == {:?} && key == \"2\")", x.name);
    step(cx.clone());
    for f in [x, y, &c.lru] {
        instr::reset(f.name);
        clear_cache(f.name);
        for a in 1..=3u32 {
            call13(f, a, 1, &format!("{cx}: filling {}", f.name))?;
        }
    }
    let target = x.name;
    let n = cachelito_core::invalidate_all_with(|name, key| name == target && key == "2");
    if n < 3 {
        return fail("C13", format!("{cx} returned {n}: at least the 3 caches {:?} {:?} {:?} have been used", x.name, y.name, c.lru.name));
    }
    expect_keys(x.name, &[1, 3], &format!("{cx}: the named cache"))?;
    expect_keys(y.name, &[1, 2, 3], &format!("{cx}: another cache with the same keys"))?;
    expect_keys(c.lru.name, &[1, 2, 3], &format!("{cx}: another cache with the same keys"))?;
    for f in [y, &c.lru] {
        for a in 1..=3u32 {
            call13(f, a, 0, &format!("{cx}: another cache with the same keys"))?;
        }
    }
    call13(x, 1, 0, &format!("{cx}: the named cache, a key the predicate rejected"))?;
    call13(x, 3, 0, &format!("{cx}: the named cache, a key the predicate rejected"))?;
    call13(x, 2, 1, &format!("{cx}: the named cache, the matching key"))?;
    // a predicate that holds for no cache name changes nothing anywhere
    let n2 = cachelito_core::invalidate_all_with(|name, _| name == c.unknown);
    if n2 < 3 {
        return fail("C13", format!("invalidate_all_with(|name, _| name == {:?}) returned {n2}, at least 3 caches are registered", c.unknown));
    }
    for f in [x, y, &c.lru] {
        expect_keys(f.name, &[1, 2, 3], "invalidate_all_with with a predicate that matches no cache name")?;
    }
    Ok(())
}

/// `max_memory` only: the budget freed by an invalidated entry is available to the next store.
fn memory_case(c: &Cond) -> Result<(), Fail> {
    use cachelito_core::MemoryEstimator;
    let f = &c.mem;
    let name = f.name;
    let cx = format!("{name} [max_memory = 1KB, no limit]");
    step(cx.clone());
    let one = twin13_mem(1).clone().estimate_memory();
    if !(3 * one <= 1024 && 4 * one > 1024) {
        return harness(format!("{cx}: one value is estimated at {one} bytes: three must fit into 1024, four must not"));
    }
    instr::reset(name);
    clear_cache(name);
    let call = |a: u32, expect_runs: u64, context: &str| -> Result<(), Fail> {
        let before = instr::runs(name);
        let r = (f.call)(a);
        let ran = instr::runs(name) - before;
        if r != twin13_mem(a) {
            return fail("C13", format!("{cx}: {context}: {name}({a}) returned a value that differs from the uncached twin"));
        }
        if ran != expect_runs {
            return fail("C13", format!("{cx}: {context}: {name}({a}) ran the body {ran} times, expected {expect_runs}"));
        }
        Ok(())
    };
    for a in 1..=3u32 {
        call(a, 1, "filling")?;
    }
    expect_keys(name, &[1, 2, 3], &format!("{cx}: three values of {one} bytes"))?;
    if !cachelito_core::invalidate_with(name, |k| k == "2") {
        return fail("C13", format!("{cx}: invalidate_with returned false although the cache has been used"));
    }
    expect_keys(name, &[1, 3], &format!("{cx}: after invalidate_with(key == \"2\")"))?;
    call(4, 1, "storing a fourth value after the invalidation")?;
    expect_keys(name, &[1, 3, 4], &format!("{cx}: 2 of [1, 2, 3] invalidated, then 4 stored: {} of 1024 bytes, nothing to evict", 3 * one))?;
    call(5, 1, "storing a fifth value")?;
    expect_keys(name, &[3, 4, 5], &format!("{cx}: then 5 stored: the oldest survivor goes"))?;
    for a in [3u32, 4, 5] {
        call(a, 0, "final probe of the resident keys")?;
    }
    call(1, 1, "final probe of the evicted key")
}

fn conditional_invalidation(kind: Kind, _ctx: &Ctx) -> Result<(), Fail> {
    let c = cond(kind);
    immediate_probe(&c.fifo)?;
    immediate_probe(&c.lru)?;
    for case in &FIFO_CASES {
        limit_case(&c.fifo, case)?;
    }
    for case in &LRU_CASES {
        limit_case(&c.lru, case)?;
    }
    unknown_name(&c)?;
    all_with(&c)?;
    memory_case(&c)
}

// ------------------------------------------------------------------------------------------------
// the scenario table and the driver
// ------------------------------------------------------------------------------------------------
struct Scenario {
    name: String,
    /// the properties a failure of this scenario can be attributed to; the first is the primary one
    /// (hangs and panics)
    props: &'static [&'static str],
    run: Box<dyn Fn(&Ctx) -> Result<(), Fail>>,
}

fn scenarios() -> Vec<Scenario> {
    let mut v: Vec<Scenario> = Vec::new();
    type PerFlavour = fn(&Fl, &Ctx) -> Result<(), Fail>;
    let table: [(&str, &'static [&'static str], PerFlavour); 6] = [
        ("distinct_tuples", &["C02", "C01"], distinct_tuples),
        ("exhaustive_small_strings", &["C02", "C01"], exhaustive_small_strings),
        ("computed_once", &["C03"], computed_once),
        ("err_not_cached", &["C09"], err_not_cached),
        ("cache_if", &["C10"], cache_if),
        ("invalidate_on", &["C11"], invalidate_on),
    ];
    for (base, props, f) in table {
        for kind in Kind::ALL {
            v.push(Scenario {
                name: format!("{base}_{}", kind.name()),
                props,
                run: Box::new(move |ctx| f(&flavour(kind), ctx)),
            });
        }
    }
    v.push(Scenario { name: "suspended_or_dropped".to_string(), props: &["C20"], run: Box::new(suspended_or_dropped) });
    // the invalidation registry knows global and async caches only
    for kind in [Kind::Global, Kind::Async] {
        v.push(Scenario {
            name: format!("group_invalidation_{}", kind.name()),
            props: &["C12", "C13"],
            run: Box::new(move |ctx| group_invalidation(kind, ctx)),
        });
        v.push(Scenario {
            name: format!("conditional_invalidation_{}", kind.name()),
            props: &["C13"],
            run: Box::new(move |ctx| conditional_invalidation(kind, ctx)),
        });
    }
    v
}

pub(crate) fn panic_text(p: &(dyn std::any::Any + Send)) -> String {
    if let Some(s) = p.downcast_ref::<&str>() {
        s.to_string()
    } else if let Some(s) = p.downcast_ref::<String>() {
        s.clone()
    } else {
        "<non-string panic payload>".to_string()
    }
}

/// Runs one scenario under the watchdog; a panic inside a wrapper is a failure of the scenario's primary property.
fn run_scenario(sc: &Scenario, ctx: &Ctx) -> Result<(), Fail> {
    *CURRENT.lock().unwrap_or_else(|e| e.into_inner()) =
        Some(Current { scenario: sc.name.clone(), prop: sc.props[0], step: "start".to_string(), since: Instant::now() });
    let r = std::panic::catch_unwind(std::panic::AssertUnwindSafe(|| (sc.run)(ctx)));
    let at = CURRENT.lock().unwrap_or_else(|e| e.into_inner()).take().map(|c| c.step).unwrap_or_default();
    instr::gate_open_all();
    match r {
        Ok(r) => r,
        Err(p) => {
            let msg = panic_text(p.as_ref());
            if msg.starts_with("harness:") {
                harness(format!("{msg} (at step: {at})"))
            } else {
                fail(sc.props[0], format!("a call panicked: {msg} (at step: {at})"))
            }
        }
    }
}

fn usage() -> i32 {
    eprintln!(
        "usage: cachelito-replay --macro-search [--prop Cxx] [--seed N] [--out FILE]\n\
         \x20      cachelito-replay --macro-scenario <name> [--seed N]"
    );
    2
}

/// `--macro-search` / `--macro-scenario`: exit 0 = nothing found, 1 = witness, 2 = harness error.
pub fn main_macro(args: &[String]) -> i32 {
    let mut seed = 1u64;
    let mut out = DEFAULT_OUT.to_string();
    let mut prop: Option<String> = None;
    let mut selftest = false;
    let mut only: Option<String> = None;
    let mut i = 0;
    while i < args.len() {
        let a = args[i].as_str();
        match a {
            "--macro-search" => {
                i += 1;
                continue;
            }
            "--selftest-oracle" => {
                selftest = true;
                i += 1;
                continue;
            }
            _ => {}
        }
        let Some(val) = args.get(i + 1) else {
            eprintln!("missing value for {a}");
            return usage();
        };
        let ok = match a {
            "--macro-scenario" => {
                only = Some(val.clone());
                true
            }
            "--prop" => {
                prop = Some(val.clone());
                true
            }
            "--seed" => val.parse().map(|x| seed = x).is_ok(),
            "--out" => {
                out = val.clone();
                true
            }
            _ => {
                eprintln!("unknown option {a}");
                return usage();
            }
        };
        if !ok {
            eprintln!("bad value for {a}: {val}");
            return usage();
        }
        i += 2;
    }

    let mut list = scenarios();
    let replaying = only.is_some();
    if let Some(name) = &only {
        list.retain(|sc| &sc.name == name);
        if list.is_empty() {
            eprintln!("unknown scenario {name}; known: {}", scenarios().iter().map(|s| s.name.clone()).collect::<Vec<_>>().join(" "));
            return 2;
        }
    }
    if let Some(p) = &prop {
        // only scenarios that can attribute a failure to that property are worth running
        list.retain(|sc| sc.props.contains(&p.as_str()));
        if list.is_empty() {
            eprintln!("no macro-level scenario is attributed to {p} (known: C01 C02 C03 C09 C10 C11 C12 C13 C20)");
            println!("{}", searched_line(0));
            return 0;
        }
    }
    let ctx = Ctx { seed, selftest, prop: prop.clone() };
    // no scenario may depend on another one having run before it: the seed picks the order
    Rng::new(seed ^ 0x0DE2).shuffle(&mut list);

    *RUN.lock().unwrap_or_else(|e| e.into_inner()) =
        Some(RunInfo { out: if replaying { None } else { Some(out.clone()) }, seed, selftest, scenarios_done: 0 });
    start_watchdog();
    let started = Instant::now();
    let mut rc = 0;
    let mut done = 0u64;
    for sc in &list {
        let r = run_scenario(sc, &ctx);
        done += 1;
        if let Some(r) = RUN.lock().unwrap_or_else(|e| e.into_inner()).as_mut() {
            r.scenarios_done = done;
        }
        match r {
            Ok(()) => {
                if replaying {
                    println!("PASS scenario={}", sc.name);
                }
            }
            Err(f) if f.prop == "HARNESS" => {
                eprintln!("harness error in scenario {}: {}", sc.name, f.what);
                rc = 2;
                break;
            }
            Err(f) if !ctx.counts(f.prop) => {
                eprintln!("not counted (--prop {}): {}", prop.as_deref().unwrap_or(""), witness_line(f.prop, &sc.name, &f.what));
            }
            Err(f) => {
                let line = witness_line(f.prop, &sc.name, &f.what);
                println!("{line}");
                if !replaying {
                    match write_witness(&out, &line, &sc.name, seed, selftest) {
                        Ok(()) => println!("REPLAY {out}"),
                        Err(e) => {
                            eprintln!("harness error: {e}");
                            rc = 2;
                            break;
                        }
                    }
                }
                rc = 1;
                break;
            }
        }
    }
    FINISHED.store(true, Ordering::Relaxed);
    println!("{}", searched_line(done));
    eprintln!("bounded macro-level check (not a proof): seed={seed} elapsed={:.2}s", started.elapsed().as_secs_f64());
    rc
}
