//! Fixture corpus: small decorated functions expanded by the REAL proc-macros of /repo on every run
//! (`cargo rustc -- -Zunpretty=expanded`). The wrapper contracts are checked on what the macros emit here.
#![allow(dead_code, unused_variables)]
use cachelito_async_macros::cache_async;
use cachelito_macros::cache;

pub fn body2(a: u32, b: String) -> u64 { 0 }
pub fn body1(a: u32) -> u64 { 0 }
pub fn body3(a: u32, b: String, c: u32) -> u64 { 0 }
pub fn body5(a: u32, b: String, c: u32, d: u32, e: String) -> u64 { 0 }
pub fn body_v(a: Vec<u32>, b: Vec<u32>) -> u64 { 0 }
pub fn body_t(p: (u32, u32), c: u32) -> u64 { 0 }
pub fn body_res(a: u32) -> Result<u64, String> { Ok(0) }
pub fn stale(key: &String, v: &u64) -> bool { false }
pub fn keep(key: &String, v: &u64) -> bool { true }
pub fn keep_res(key: &String, v: &Result<u64, String>) -> bool { true }
pub fn stale_res(key: &String, v: &Result<u64, String>) -> bool { false }

// ---- sync, global scope
#[cache(limit = 8, policy = "lru")]
pub fn g_plain(a: u32, b: String) -> u64 { body2(a, b) }

#[cache]
pub fn g_unbounded(a: u32, b: String) -> u64 { body2(a, b) }

#[cache(limit = 4, policy = "lfu", max_memory = "1MB", ttl = 60)]
pub fn g_mem(a: u32, b: String) -> u64 { body2(a, b) }

#[cache(limit = 8)]
pub fn g_result(a: u32) -> Result<u64, String> { body_res(a) }

#[cache(limit = 8)]
pub fn g_std_result(a: u32) -> std::result::Result<u64, String> { body_res(a) }

#[cache(limit = 8, max_memory = "1MB")]
pub fn g_result_mem(a: u32) -> Result<u64, String> { body_res(a) }

#[cache(limit = 8, cache_if = keep)]
pub fn g_cache_if(a: u32, b: String) -> u64 { body2(a, b) }

#[cache(limit = 8, cache_if = keep_res)]
pub fn g_cache_if_result(a: u32) -> Result<u64, String> { body_res(a) }

#[cache(limit = 8, invalidate_on = stale)]
pub fn g_invalidate_on(a: u32, b: String) -> u64 { body2(a, b) }

#[cache(limit = 8, name = "g_named_cache", tags = ["t1", "t2"], events = ["e1"], dependencies = ["d1"])]
pub fn g_tagged(a: u32, b: String) -> u64 { body2(a, b) }

#[cache(limit = 4, policy = "lru", ttl = 30)]
pub fn g_lru_ttl(a: u32, b: String) -> u64 { body2(a, b) }

#[cache(limit = 4, policy = "arc")]
pub fn g_arc(a: u32, b: String) -> u64 { body2(a, b) }

#[cache(limit = 4, policy = "tlru", ttl = 10, frequency_weight = 1.5)]
pub fn g_tlru_fw(a: u32, b: String) -> u64 { body2(a, b) }

#[cache(limit = 4, policy = "random")]
pub fn g_random(a: u32, b: String) -> u64 { body2(a, b) }

#[cache(limit = 8, cache_if = keep, invalidate_on = stale, max_memory = "2KB", policy = "lfu")]
pub fn g_all(a: u32, b: String) -> u64 { body2(a, b) }

// ---- sync, thread scope
#[cache(scope = "thread", limit = 8, max_memory = "1MB")]
pub fn t_result_mem(a: u32) -> Result<u64, String> { body_res(a) }

#[cache(scope = "thread", limit = 2, policy = "lfu")]
pub fn t_lfu(a: u32, b: String) -> u64 { body2(a, b) }

#[cache(scope = "thread", invalidate_on = stale)]
pub fn t_invalidate_on(a: u32, b: String) -> u64 { body2(a, b) }

#[cache(scope = "thread", limit = 4, policy = "lru", ttl = 45)]
pub fn t_lru_ttl(a: u32, b: String) -> u64 { body2(a, b) }

#[cache(scope = "thread", limit = 8, policy = "fifo")]
pub fn t_plain(a: u32, b: String) -> u64 { body2(a, b) }

#[cache(scope = "thread", limit = 8)]
pub fn t_result(a: u32) -> Result<u64, String> { body_res(a) }

#[cache(scope = "thread", limit = 8, cache_if = keep, invalidate_on = stale, max_memory = "1MB")]
pub fn t_all(a: u32, b: String) -> u64 { body2(a, b) }

// ---- methods (receiver is part of the key)
#[derive(Debug, Clone)]
pub struct Recv { pub id: u32 }
impl cachelito_core::DefaultCacheableKey for Recv {}
impl Recv {
    #[cache(limit = 8)]
    pub fn m_args(&self, a: u32, b: String) -> u64 { body2(a, b) }

    #[cache(limit = 8)]
    pub fn m_noargs(&self) -> u64 { 0 }

    #[cache_async(limit = 8)]
    pub async fn am_args(&self, a: u32, b: String) -> u64 { body2(a, b) }

    // arity-specific shapes of the key builders: receiver + exactly one argument, receiver only (async), thread scope
    #[cache(limit = 8)]
    pub fn m_one(&self, a: u32) -> u64 { body1(a) }

    #[cache(scope = "thread", limit = 8)]
    pub fn tm_one(&self, a: u32) -> u64 { body1(a) }

    #[cache_async(limit = 8)]
    pub async fn am_one(&self, a: u32) -> u64 { body1(a) }

    #[cache_async(limit = 8)]
    pub async fn am_noargs(&self) -> u64 { 0 }
}

// ---- argument shapes: one argument, three arguments, container arguments (possibly empty), destructuring patterns
#[cache(limit = 8)]
pub fn g_one(a: u32) -> u64 { body1(a) }

// ---- attribute ORDER must not matter (every other fixture writes policy before the attributes that depend on it);
//      a cache may list its OWN name among its dependencies
#[cache(frequency_weight = 2.5, ttl = 20, limit = 4, policy = "tlru")]
pub fn g_fw_first(a: u32, b: String) -> u64 { body2(a, b) }

#[cache_async(frequency_weight = 2.5, max_memory = "4KB", ttl = 20, limit = 4, policy = "tlru")]
pub async fn a_fw_first(a: u32, b: String) -> u64 { body2(a, b) }

#[cache(dependencies = ["g_selfdep", "d2"], limit = 8, name = "g_selfdep")]
pub fn g_selfdep(a: u32, b: String) -> u64 { body2(a, b) }

#[cache_async(dependencies = ["a_selfdep"], limit = 8, name = "a_selfdep")]
pub async fn a_selfdep(a: u32, b: String) -> u64 { body2(a, b) }

// ---- Result types spelled with paths INSIDE the generic arguments; memory bound without an entry limit
pub fn body_res_path(a: u32) -> Result<u64, std::fmt::Error> { Ok(0) }

#[cache(limit = 8)]
pub fn g_result_path(a: u32) -> Result<u64, std::fmt::Error> { body_res_path(a) }

#[cache_async(limit = 8)]
pub async fn a_result_path(a: u32) -> Result<u64, std::fmt::Error> { body_res_path(a) }

#[cache(max_memory = "1MB", policy = "lru")]
pub fn g_mem_only(a: u32, b: String) -> u64 { body2(a, b) }

#[cache_async(max_memory = "1MB", policy = "lru")]
pub async fn a_mem_only(a: u32, b: String) -> u64 { body2(a, b) }

// ---- TLRU without a ttl but with a frequency_weight; tag / event / dependency names with upper case and spaces (matched verbatim)
#[cache(limit = 4, policy = "tlru", frequency_weight = 3.0)]
pub fn g_tlru_nottl(a: u32, b: String) -> u64 { body2(a, b) }

#[cache_async(limit = 4, policy = "tlru", frequency_weight = 3.0)]
pub async fn a_tlru_nottl(a: u32, b: String) -> u64 { body2(a, b) }

#[cache(limit = 8, name = "G_CaseName", tags = ["UserData", " padded "], events = ["Evt_X"], dependencies = ["Dep One"])]
pub fn g_tag_case(a: u32, b: String) -> u64 { body2(a, b) }

#[cache_async(limit = 8, name = "A_CaseName", tags = ["UserData"], events = ["Evt_X"], dependencies = ["G_CaseName"])]
pub async fn a_tag_case(a: u32, b: String) -> u64 { body2(a, b) }

// ---- ttl together with invalidate_on (the lookup must still honour the ttl); Result together with invalidate_on
#[cache(limit = 8, ttl = 30, invalidate_on = stale)]
pub fn g_inval_ttl(a: u32, b: String) -> u64 { body2(a, b) }

#[cache(scope = "thread", limit = 8, ttl = 30, invalidate_on = stale)]
pub fn t_inval_ttl(a: u32, b: String) -> u64 { body2(a, b) }

#[cache_async(limit = 8, ttl = 30, invalidate_on = stale)]
pub async fn a_inval_ttl(a: u32, b: String) -> u64 { body2(a, b) }

#[cache(limit = 8, invalidate_on = stale_res)]
pub fn g_res_inval(a: u32) -> Result<u64, String> { body_res(a) }

#[cache_async(limit = 8, invalidate_on = stale_res)]
pub async fn a_res_inval(a: u32) -> Result<u64, String> { body_res(a) }

// ---- max_memory spellings: GB suffix, plain byte count
#[cache(limit = 4, max_memory = "1GB")]
pub fn g_mem_gb(a: u32, b: String) -> u64 { body2(a, b) }

#[cache_async(limit = 4, max_memory = 4096)]
pub async fn a_mem_bytes(a: u32, b: String) -> u64 { body2(a, b) }

#[cache_async(limit = 8)]
pub async fn a_one(a: u32) -> u64 { body1(a) }

#[cache(limit = 8)]
pub fn g_three(a: u32, b: String, c: u32) -> u64 { body3(a, b, c) }

#[cache_async(limit = 8)]
pub async fn a_three(a: u32, b: String, c: u32) -> u64 { body3(a, b, c) }

// five arguments (the largest arity the property quantifies over); a method with four
#[cache(limit = 8)]
pub fn g_five(a: u32, b: String, c: u32, d: u32, e: String) -> u64 { body5(a, b, c, d, e) }

#[cache_async(limit = 8)]
pub async fn a_five(a: u32, b: String, c: u32, d: u32, e: String) -> u64 { body5(a, b, c, d, e) }

#[cache(limit = 8)]
pub fn g_vecs(a: Vec<u32>, b: Vec<u32>) -> u64 { body_v(a, b) }

#[cache(scope = "thread", limit = 8)]
pub fn t_vecs(a: Vec<u32>, b: Vec<u32>) -> u64 { body_v(a, b) }

#[cache_async(limit = 8)]
pub async fn a_vecs(a: Vec<u32>, b: Vec<u32>) -> u64 { body_v(a, b) }

#[cache(limit = 8)]
pub fn g_tuple_pat((x, y): (u32, u32), c: u32) -> u64 { body_t((x, y), c) }

#[cache(scope = "thread", limit = 8)]
pub fn t_tuple_pat((x, y): (u32, u32), c: u32) -> u64 { body_t((x, y), c) }

#[cache_async(limit = 8)]
pub async fn a_tuple_pat((x, y): (u32, u32), c: u32) -> u64 { body_t((x, y), c) }

#[cache(limit = 8)]
pub fn g_noargs() -> u64 { 0 }

// ---- async
#[cache_async(limit = 8, policy = "lru")]
pub async fn a_plain(a: u32, b: String) -> u64 { body2(a, b) }

#[cache_async]
pub async fn a_unbounded(a: u32, b: String) -> u64 { body2(a, b) }

#[cache_async(limit = 8, max_memory = "1MB", ttl = 60)]
pub async fn a_mem(a: u32, b: String) -> u64 { body2(a, b) }

#[cache_async(limit = 8)]
pub async fn a_result(a: u32) -> Result<u64, String> { body_res(a) }

#[cache_async(limit = 8)]
pub async fn a_std_result(a: u32) -> std::result::Result<u64, String> { body_res(a) }

#[cache_async(limit = 8, cache_if = keep)]
pub async fn a_cache_if(a: u32, b: String) -> u64 { body2(a, b) }

#[cache_async(limit = 8, cache_if = keep_res)]
pub async fn a_cache_if_result(a: u32) -> Result<u64, String> { body_res(a) }

#[cache_async(limit = 8, max_memory = "1MB")]
pub async fn a_result_mem(a: u32) -> Result<u64, String> { body_res(a) }

#[cache_async(limit = 8, invalidate_on = stale)]
pub async fn a_invalidate_on(a: u32, b: String) -> u64 { body2(a, b) }

#[cache_async(limit = 8, name = "a_named_cache", tags = ["t1"], events = ["e1", "e2"], dependencies = ["d1"])]
pub async fn a_tagged(a: u32, b: String) -> u64 { body2(a, b) }

#[cache_async(limit = 8)]
pub async fn a_noargs() -> u64 { 0 }

#[cache_async(limit = 8, cache_if = keep, invalidate_on = stale, max_memory = "2KB")]
pub async fn a_all(a: u32, b: String) -> u64 { body2(a, b) }

#[cache_async(limit = 4, policy = "lru", ttl = 30)]
pub async fn a_lru_ttl(a: u32, b: String) -> u64 { body2(a, b) }

#[cache_async(limit = 4, policy = "tlru", ttl = 10, frequency_weight = 1.5)]
pub async fn a_tlru_fw(a: u32, b: String) -> u64 { body2(a, b) }
