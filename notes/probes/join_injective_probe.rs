// PROBE RECORD (design phase): the C02 lemma "join with a separator is injective on tuples of equal
// arity when every part language is sep-safe". verus join_injective_probe.rs -> 3 verified, 0 errors (0.8 s).
// This lemma does not depend on /repo; what depends on /repo is the obligation that the emitted key block
// computes join(sep, parts) with the separator and parts the macros really emit (DESIGN.md 6.2).
use vstd::prelude::*;
verus! {

pub open spec fn join(parts: Seq<Seq<char>>, sep: Seq<char>) -> Seq<char>
    decreases parts.len()
{
    if parts.len() == 0 { Seq::empty() }
    else if parts.len() == 1 { parts[0] }
    else { parts[0] + sep + join(parts.skip(1), sep) }
}

pub open spec fn sep_safe(l: spec_fn(Seq<char>) -> bool, sep: Seq<char>) -> bool {
    forall|p: Seq<char>, q: Seq<char>, r1: Seq<char>, r2: Seq<char>|
        l(p) && l(q) && #[trigger] (p + sep + r1) == #[trigger] (q + sep + r2) ==> p == q
}

pub open spec fn in_langs(parts: Seq<Seq<char>>, langs: Seq<spec_fn(Seq<char>) -> bool>) -> bool {
    parts.len() == langs.len() && forall|i: int| 0 <= i < parts.len() ==> (#[trigger] langs[i])(parts[i])
}

proof fn lemma_cancel(p: Seq<char>, a: Seq<char>, b: Seq<char>)
    requires p + a == p + b
    ensures a == b
{
    assert(a =~= (p + a).skip(p.len() as int));
    assert(b =~= (p + b).skip(p.len() as int));
}

pub proof fn join_injective(a: Seq<Seq<char>>, b: Seq<Seq<char>>, langs: Seq<spec_fn(Seq<char>) -> bool>, sep: Seq<char>)
    requires in_langs(a, langs), in_langs(b, langs),
        forall|i: int| 0 <= i < langs.len() ==> sep_safe(#[trigger] langs[i], sep),
        join(a, sep) == join(b, sep),
    ensures a == b
    decreases a.len()
{
    if a.len() == 0 {
        assert(a =~= b);
    } else if a.len() == 1 {
        assert(a[0] == b[0]);
        assert(a =~= b);
    } else {
        let ra = join(a.skip(1), sep);
        let rb = join(b.skip(1), sep);
        assert(join(a, sep) == a[0] + sep + ra);
        assert(join(b, sep) == b[0] + sep + rb);
        assert(langs[0](a[0]) && langs[0](b[0]));
        assert(sep_safe(langs[0], sep));
        assert(a[0] == b[0]);
        assert(a[0] + sep + ra =~= (a[0] + sep) + ra);
        assert(b[0] + sep + rb =~= (a[0] + sep) + rb);
        lemma_cancel(a[0] + sep, ra, rb);
        let l2 = langs.skip(1);
        assert(in_langs(a.skip(1), l2)) by {
            assert forall|i: int| 0 <= i < a.skip(1).len() implies (#[trigger] l2[i])(a.skip(1)[i]) by { assert(langs[i + 1](a[i + 1])); }
        }
        assert(in_langs(b.skip(1), l2)) by {
            assert forall|i: int| 0 <= i < b.skip(1).len() implies (#[trigger] l2[i])(b.skip(1)[i]) by { assert(langs[i + 1](b[i + 1])); }
        }
        assert forall|i: int| 0 <= i < l2.len() implies sep_safe(#[trigger] l2[i], sep) by { assert(sep_safe(langs[i + 1], sep)); }
        join_injective(a.skip(1), b.skip(1), l2, sep);
        assert(a =~= b) by {
            assert forall|i: int| 0 <= i < a.len() implies a[i] == b[i] by {
                if i > 0 { assert(a.skip(1)[i - 1] == b.skip(1)[i - 1]); }
            }
        }
    }
}

} // verus!
fn main() {}
