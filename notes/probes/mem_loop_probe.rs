// PROBE RECORD (design phase, not framework code): the memory-eviction loop of
// GlobalCache::insert_with_memory (LFU / Random / FIFO|LRU arms) with rules R1,R2,R4,R5 of
// DESIGN.md applied BY HAND, plus candidate contracts/invariants/hints. Verified by
//   verus mem_loop_probe.rs   ->  5 verified, 0 errors (1.3 s)
// Kept as a worked example of contract shapes, module layout (spec vocabulary in a submodule so
// that module-level `broadcast use` does not form a cycle), loop `ensures`,
// `invariant_except_break`, and `let ghost` snapshots. The real machinery must GENERATE such
// text from /repo; nothing here is to be used as a model of the code.
#![feature(allocator_api)]
use vstd::prelude::*;
use vstd::std_specs::hash::*;
use std::collections::{HashMap, VecDeque};
verus! {

mod ax {
use vstd::prelude::*;
use vstd::std_specs::hash::*;
pub broadcast axiom fn axiom_string_obeys_key_model()
    ensures #[trigger] obeys_key_model::<String>();
}
mod sp {
use vstd::prelude::*;
pub trait MemoryEstimator {
    spec fn mem(&self) -> nat;
    fn estimate_memory(&self) -> (r: usize) ensures r == self.mem();
}

pub struct CacheEntry<R> { pub value: R, pub inserted_at: u64, pub frequency: u64 }
impl<R> CacheEntry<R> {
    #[verifier::external_body]
    pub fn new(value: R) -> (e: Self) ensures e.value == value, e.frequency == 0 { unimplemented!() }
}

pub uninterp spec fn total<R: MemoryEstimator>(m: Map<String, CacheEntry<R>>) -> nat;
pub broadcast axiom fn total_remove<R: MemoryEstimator>(m: Map<String, CacheEntry<R>>, k: String)
    requires m.contains_key(k)
    ensures #[trigger] total(m.remove(k)) + m[k].value.mem() == total(m);
pub broadcast axiom fn total_empty<R: MemoryEstimator>(m: Map<String, CacheEntry<R>>)
    requires m.dom() =~= Set::empty()
    ensures #[trigger] total(m) == 0;

}
use sp::*;
broadcast use {group_hash_axioms, ax::axiom_string_obeys_key_model, sp::total_remove, sp::total_empty};

#[derive(Clone, Copy)]
pub enum EvictionPolicy { FIFO, LRU, LFU, ARC, Random, TLRU }

pub assume_specification<T, A: std::alloc::Allocator> [std::collections::VecDeque::<T, A>::is_empty] (v: &std::collections::VecDeque<T, A>) -> (b: bool)
    ensures b == (v@.len() == 0);

#[verifier::external_body]
fn rand_below(n: usize) -> (r: usize) requires n > 0 ensures r < n { unimplemented!() }

// ---------- spec vocabulary
pub open spec fn no_dup(s: Seq<String>) -> bool { forall|i: int, j: int| 0 <= i < j < s.len() ==> s[i] != s[j] }
pub open spec fn wf<R>(map: Map<String, CacheEntry<R>>, order: Seq<String>) -> bool {
    no_dup(order) && (forall|k: String| #[trigger] map.contains_key(k) <==> order.contains(k))
}
pub open spec fn rm(s: Seq<String>, k: String) -> Seq<String> { s.filter(|x: String| x != k) }

#[verifier::external_body]
fn sum_estimates<R: MemoryEstimator>(m: &HashMap<String, CacheEntry<R>>) -> (r: usize)
    ensures r == total(m@)
{ unimplemented!() }

#[verifier::external_body]
fn vd_position(o: &VecDeque<String>, key: &String) -> (r: Option<usize>)
    ensures match r {
        Some(p) => p < o@.len() && o@[p as int] == *key && forall|j: int| 0 <= j < p ==> o@[j] != *key,
        None => forall|j: int| 0 <= j < o@.len() ==> o@[j] != *key,
    }
{ unimplemented!() }

#[verifier::external_body]
pub fn find_min_frequency_key<R>(map: &HashMap<String, CacheEntry<R>>, order: &VecDeque<String>) -> (res: Option<String>)
    ensures
        match res {
            Some(k) => map@.contains_key(k) && order@.contains(k)
                && forall|j: int| 0 <= j < order@.len() && map@.contains_key(#[trigger] order@[j]) ==> map@[k].frequency <= map@[order@[j]].frequency,
            None => forall|j: int| 0 <= j < order@.len() && map@.contains_key(#[trigger] order@[j]) ==> map@[order@[j]].frequency == u64::MAX,
        }
{ unimplemented!() }

// contract of the real helper (verified separately in the utils unit)
#[verifier::external_body]
fn remove_key_from_global_cache<R>(map: &mut HashMap<String, CacheEntry<R>>, order: &mut VecDeque<String>, key: &String) -> (b: bool)
    ensures final(map)@ == old(map)@.remove(*key),
        no_dup(old(order)@) && old(order)@.contains(*key) ==> exists|i: int| 0 <= i < old(order)@.len() && old(order)@[i] == *key && final(order)@ == old(order)@.remove(i),
        !old(order)@.contains(*key) ==> final(order)@ == old(order)@,
{ unimplemented!() }

pub open spec fn freq_ok<R>(map: Map<String, CacheEntry<R>>) -> bool {
    forall|k: String| map.contains_key(k) ==> (#[trigger] map[k]).frequency < u64::MAX
}

pub proof fn lemma_remove_wf<R>(m: Map<String, CacheEntry<R>>, s: Seq<String>, i: int)
    requires wf(m, s), 0 <= i < s.len()
    ensures wf(m.remove(s[i]), s.remove(i))
{
    let k = s[i];
    let t = s.remove(i);
    assert forall|a: int, b: int| 0 <= a < b < t.len() implies t[a] != t[b] by {
        let a2 = if a < i { a } else { a + 1 };
        let b2 = if b < i { b } else { b + 1 };
        assert(t[a] == s[a2] && t[b] == s[b2]);
    }
    assert forall|x: String| #[trigger] m.remove(k).contains_key(x) <==> t.contains(x) by {
        if m.remove(k).contains_key(x) {
            assert(s.contains(x));
            let p = choose|p: int| 0 <= p < s.len() && s[p] == x;
            let q = if p < i { p } else { p - 1 };
            assert(t[q] == x);
        }
        if t.contains(x) {
            let q = choose|q: int| 0 <= q < t.len() && t[q] == x;
            let p = if q < i { q } else { q + 1 };
            assert(s[p] == x);
            assert(s.contains(x));
        }
    }
}

pub struct GlobalCache<R> {
    pub map: HashMap<String, CacheEntry<R>>,
    pub order: VecDeque<String>,
    pub limit: Option<usize>,
    pub max_memory: Option<usize>,
    pub policy: EvictionPolicy,
}

// memory-eviction loop only (the part of insert_with_memory after the oversize check), policy arms LFU / Random / FIFO|LRU
fn mem_loop<R: MemoryEstimator>(max_mem: usize, policy: EvictionPolicy, map: &mut HashMap<String, CacheEntry<R>>, o: &mut VecDeque<String>)
    requires wf(old(map)@, old(o)@), freq_ok(old(map)@),
        policy is FIFO || policy is LRU || policy is LFU || policy is Random,
    ensures wf(final(map)@, final(o)@),
        total(final(map)@) <= max_mem,
        total(old(map)@) <= max_mem ==> final(map)@ == old(map)@ && final(o)@ == old(o)@,
        (forall|k: String| #[trigger] final(map)@.contains_key(k) ==> old(map)@.contains_key(k) && final(map)@[k] == old(map)@[k]),
{
    loop
        invariant wf(map@, o@), freq_ok(map@), (forall|k: String| #[trigger] map@.contains_key(k) ==> old(map)@.contains_key(k) && map@[k] == old(map)@[k]),
            total(old(map)@) <= max_mem ==> map@ == old(map)@ && o@ == old(o)@,
            policy is FIFO || policy is LRU || policy is LFU || policy is Random,
        ensures total(map@) <= max_mem,
        decreases o@.len()
    {
        let current_mem = {
            let map_read = (&*map);
            sum_estimates(map_read)
        };

        if current_mem <= max_mem {
            break;
        }
        assert(o@.len() > 0) by {
            if o@.len() == 0 {
                assert forall|k: String| !map@.contains_key(k) by { if map@.contains_key(k) { assert(o@.contains(k)); } }
                assert(map@.dom() =~= Set::empty());
            }
        }

        let evicted = match policy {
            EvictionPolicy::LFU => {
                let map_write = (&mut *map);
                let min_freq_key = find_min_frequency_key(&*map_write, &*o);
                if let Some(evict_key) = min_freq_key {
                    let ghost mm = map_write@; let ghost oo = o@;
                    remove_key_from_global_cache(&mut *map_write, &mut *o, &evict_key);
                    proof { let i = choose|i: int| 0 <= i < oo.len() && oo[i] == evict_key && o@ == oo.remove(i); lemma_remove_wf(mm, oo, i); }
                    true
                } else {
                    assert(map@.contains_key(o@[0]));
                    assert(false);
                    false
                }
            }
            EvictionPolicy::Random => {
                if !o.is_empty() {
                    let pos = rand_below(o.len());
                    let ghost mm = map@; let ghost oo = o@;
                    if let Some(evict_key) = o.remove(pos) {
                        let map_write = (&mut *map);
                        map_write.remove(&evict_key);
                        proof { lemma_remove_wf(mm, oo, pos as int); }
                        true
                    } else {
                        false
                    }
                } else {
                    false
                }
            }
            EvictionPolicy::FIFO | EvictionPolicy::LRU => {
                let mut successfully_evicted = false;
                let map_write = (&mut *map);
                let ghost o0 = o@; let ghost m0 = map_write@;
                while let Some(evict_key) = o.pop_front()
                    invariant_except_break !successfully_evicted, wf(map_write@, o@), map_write@ == m0, o@ == o0
                    invariant wf(m0, o0), freq_ok(m0), o0.len() > 0
                    ensures successfully_evicted, o@.len() < o0.len(), wf(map_write@, o@), map_write@ == m0.remove(o0[0]),
                    decreases o@.len()
                {
                    assert(o0[0] == evict_key);
                    assert(o@ =~= o0.remove(0));
                    if map_write.contains_key(&evict_key) {
                        map_write.remove(&evict_key);
                        proof { lemma_remove_wf(m0, o0, 0); }
                        successfully_evicted = true;
                        break;
                    }
                    assert(o0.contains(evict_key));
                    assert(false);
                }
                successfully_evicted
            }
            _ => false,
        };

        if !evicted {
            assert(false);
            break;
        }
    }
}

} // verus!
fn main() {}
