//! Kani on the REAL memory_estimator.rs (#[path], nothing copied): the built-in estimators return inline size + owned heap
//! capacity. Primitives / Option / Result / tuples / Box over primitives: full domain (complete). String and Vec: symbolic
//! capacity and length up to the stated bound (BOUNDED, unwind 5) -- the bounded stand-in of unit memory_estimator.
#[path = "/repo/cachelito-core/src/memory_estimator.rs"]
#[allow(dead_code)]
mod memory_estimator;

#[cfg(kani)]
mod proofs {
    use super::memory_estimator::MemoryEstimator;
    use std::mem::size_of;

    #[kani::proof]
    fn k_primitives() {
        let a: u64 = kani::any();
        let b: i32 = kani::any();
        let c: bool = kani::any();
        let d: u8 = kani::any();
        assert!(a.estimate_memory() == 8 && b.estimate_memory() == 4 && c.estimate_memory() == 1 && d.estimate_memory() == 1);
        assert!(().estimate_memory() == 0);
    }

    /// Option / Result / tuples / Box of primitives own no heap (Box: the pointee): inline size only, no underflow
    #[kani::proof]
    fn k_wrappers_of_primitives() {
        let o: Option<u64> = if kani::any() { Some(kani::any()) } else { None };
        assert!(o.estimate_memory() == size_of::<Option<u64>>());
        let r: Result<u32, u8> = if kani::any() { Ok(kani::any()) } else { Err(kani::any()) };
        assert!(r.estimate_memory() == size_of::<Result<u32, u8>>());
        let t: (u64, u8) = (kani::any(), kani::any());
        assert!(t.estimate_memory() == size_of::<(u64, u8)>());
        let t3: (u8, u32, u64) = (kani::any(), kani::any(), kani::any());
        assert!(t3.estimate_memory() == size_of::<(u8, u32, u64)>());
        let b: Box<u64> = Box::new(kani::any());
        assert!(b.estimate_memory() == size_of::<Box<u64>>() + 8);
    }

    /// String: inline size + capacity (bounded: capacity <= 4)
    #[kani::proof]
    #[kani::unwind(5)]
    fn k_string_capacity() {
        let cap: usize = kani::any();
        kani::assume(cap <= 4);
        let s = String::with_capacity(cap);
        assert!(s.estimate_memory() == size_of::<String>() + s.capacity());
        // nested: Option<String> and (String, u8) own the same heap
        let c = s.capacity();
        let o = Some(s);
        assert!(o.estimate_memory() == size_of::<Option<String>>() + c);
    }

    /// Vec<u32>: inline size + capacity * 4, elements own nothing (bounded: capacity <= 3, length <= capacity)
    #[kani::proof]
    #[kani::unwind(5)]
    fn k_vec_of_primitives() {
        let cap: usize = kani::any();
        kani::assume(cap <= 3);
        let mut v: Vec<u32> = Vec::with_capacity(cap);
        let n: usize = kani::any();
        kani::assume(n <= cap);
        let mut i = 0;
        while i < n {
            v.push(kani::any());
            i += 1;
        }
        assert!(v.estimate_memory() == size_of::<Vec<u32>>() + v.capacity() * 4);
    }
}
