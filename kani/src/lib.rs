//! Bit-precise validation (Kani / CBMC, loop-free harnesses over full-domain symbolic inputs => complete, not bounded)
//! of those float axioms of /verif/contracts/prelude_float.rs that CBMC can decide. Each harness states one axiom on
//! REAL f64 operations. Axioms not covered here (ax_powf, ax_score_below_max for scores with a powf term, "zero only if a factor is zero" for non-integer factors) stay assumed.

#[cfg(kani)]
mod float_axioms {
    /// ax_conv: integers convert to finite non-negative values; only 0 converts to zero
    #[kani::proof]
    fn k_to_f64_nonneg_zero() {
        let n: u64 = kani::any();
        let x = n as f64;
        assert!(x.is_finite() && x >= 0.0);
        assert!((x == 0.0) == (n == 0));
    }

    /// ax_mul (sign / zero part): products of converted integers are non-negative, zero iff a factor is zero
    #[kani::proof]
    fn k_fmul_sign_zero() {
        let a: u64 = kani::any();
        let b: u32 = kani::any();
        let p = (a as f64) * (b as f64);
        assert!(p >= 0.0 && p.is_finite());
        assert!((p == 0.0) == (a == 0 || b == 0));
    }

    /// ax_mul + ax_score_below_max for the ARC score `frequency as f64 * position_weight as f64` (both factors are converted
    /// u64 values): the product is finite, strictly below f64::MAX, non-negative, and zero iff a factor is zero. No underflow,
    /// no overflow: for this shape of score nothing about the product is left assumed.
    #[kani::proof]
    fn k_arc_score_finite_below_max() {
        let f: u64 = kani::any();
        let w: u64 = kani::any();
        let p = (f as f64) * (w as f64);
        assert!(p.is_finite() && p >= 0.0 && p < f64::MAX);
        assert!((p == 0.0) == (f == 0 || w == 0));
    }

    /// ax_mul, general shape used by the TLRU score: a finite non-negative factor times an age factor in [0, 1] is finite and
    /// non-negative (it can only shrink), and is zero whenever a factor is zero. (That it is zero ONLY if a factor is zero is
    /// not bit-precisely true for subnormal products and stays assumed.)
    #[kani::proof]
    fn k_mul_by_unit_interval() {
        let a: f64 = kani::any();
        let g: f64 = kani::any();
        kani::assume(a.is_finite() && a >= 0.0 && g >= 0.0 && g <= 1.0);
        let p = a * g;
        assert!(p.is_finite() && p >= 0.0 && p <= a);
        if a == 0.0 || g == 0.0 {
            assert!(p == 0.0);
        }
    }

    /// ax_age_factor: clamp(1 - x/t, 0, 1) is finite and within [0, 1] for t >= 1
    #[kani::proof]
    fn k_age_factor_range() {
        let e: u64 = kani::any();
        let t: u64 = kani::any();
        kani::assume(t >= 1);
        let af = (1.0 - ((e as f64) / (t as f64)).min(1.0)).max(0.0);
        assert!(af >= 0.0 && af <= 1.0);
    }

    /// ax_lt_irrefl / ax_lt_trans: `<` is a strict order (NaN compares false with everything)
    #[kani::proof]
    fn k_lt_strict_order() {
        let a: f64 = kani::any();
        let b: f64 = kani::any();
        let c: f64 = kani::any();
        assert!(!(a < a));
        if a < b && b < c {
            assert!(a < c);
        }
    }

    /// ax_zero_least / ax_zero_below_positive: nothing finite non-negative is below zero; zero is below every positive value
    #[kani::proof]
    fn k_zero_least() {
        let a: f64 = kani::any();
        kani::assume(a.is_finite() && a >= 0.0);
        assert!(!(a < 0.0) && !(a < -0.0));
        if a != 0.0 {
            assert!(0.0 < a && -0.0 < a);
        }
    }

    /// ax_consts: 0.0 < f64::MAX, 1.0 is non-negative and non-zero
    #[kani::proof]
    fn k_consts() {
        assert!(0.0 < f64::MAX && 1.0 >= 0.0 && 1.0 != 0.0);
    }
}
mod stats_real;
mod policy_real;
mod estimator_real;
