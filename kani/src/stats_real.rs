//! Kani function-level proofs on the REAL `CacheStats` of /repo (the file is compiled in place through #[path], nothing is
//! copied): the statistics counters behave as the sequential AtomicU64 shim of rule R7 says, for EVERY pair of counter values.
//! Loop-free harnesses over full-domain symbolic u64 inputs: complete proofs, not bounded.

#[path = "/repo/cachelito-core/src/stats.rs"]
#[allow(dead_code)]
mod stats;

#[cfg(kani)]
mod proofs {
    use super::stats::CacheStats;

    /// a CacheStats holding arbitrary counter values (two AtomicU64 fields = two u64 words; which word is which is read back
    /// through the public API, so no field order is assumed)
    fn any_stats() -> (CacheStats, u64, u64) {
        let words: [u64; 2] = [kani::any(), kani::any()];
        assert!(std::mem::size_of::<CacheStats>() == 16);
        let s: CacheStats = unsafe { std::mem::transmute(words) };
        let (h, m) = (s.hits(), s.misses());
        (s, h, m)
    }

    /// C15 / R7: record_hit adds exactly one (wrapping) to hits and leaves misses alone
    #[kani::proof]
    fn k_record_hit() {
        let (s, h, m) = any_stats();
        s.record_hit();
        assert!(s.hits() == h.wrapping_add(1));
        assert!(s.misses() == m);
    }

    /// C15 / R7: record_miss adds exactly one (wrapping) to misses and leaves hits alone
    #[kani::proof]
    fn k_record_miss() {
        let (s, h, m) = any_stats();
        s.record_miss();
        assert!(s.misses() == m.wrapping_add(1));
        assert!(s.hits() == h);
    }

    /// reset zeroes both counters; new starts at zero; clone copies both
    #[kani::proof]
    fn k_reset_new_clone() {
        let (s, h, m) = any_stats();
        let c = s.clone();
        assert!(c.hits() == h && c.misses() == m);
        s.reset();
        assert!(s.hits() == 0 && s.misses() == 0);
        let n = CacheStats::new();
        assert!(n.hits() == 0 && n.misses() == 0);
    }
}
