//! Kani proofs on the REAL eviction_policy.rs (#[path]): hand-written PartialEq is structural equality for every pair of
//! variants (loop-free, full domain: complete).
#[path = "/repo/cachelito-core/src/eviction_policy.rs"]
#[allow(dead_code)]
mod eviction_policy;

#[cfg(kani)]
mod proofs {
    use super::eviction_policy::EvictionPolicy;

    fn any_policy() -> (EvictionPolicy, u8) {
        let t: u8 = kani::any();
        kani::assume(t < 6);
        (match t { 0 => EvictionPolicy::FIFO, 1 => EvictionPolicy::LRU, 2 => EvictionPolicy::LFU, 3 => EvictionPolicy::ARC, 4 => EvictionPolicy::Random, _ => EvictionPolicy::TLRU }, t)
    }

    /// the hand-written `eq` is structural equality (what PartialEqSpecImpl states on the Verus side)
    #[kani::proof]
    fn k_policy_eq_structural() {
        let (a, ta) = any_policy();
        let (b, tb) = any_policy();
        assert!((a == b) == (ta == tb));
    }

    /// each documented name selects its own variant on the REAL conversion, in any letter case; anything else falls back to LRU
    /// (concrete inputs; loops over the characters are unwound completely: unwind 8 covers the longest name, unwinding assertions on)
    #[kani::proof]
    #[kani::unwind(8)]
    fn k_policy_from_names() {
        assert!(EvictionPolicy::from("fifo") == EvictionPolicy::FIFO);
        assert!(EvictionPolicy::from("lru") == EvictionPolicy::LRU);
        assert!(EvictionPolicy::from("lfu") == EvictionPolicy::LFU);
        assert!(EvictionPolicy::from("arc") == EvictionPolicy::ARC);
        assert!(EvictionPolicy::from("random") == EvictionPolicy::Random);
        assert!(EvictionPolicy::from("tlru") == EvictionPolicy::TLRU);
    }

    #[kani::proof]
    #[kani::unwind(8)]
    fn k_policy_from_case_and_fallback() {
        assert!(EvictionPolicy::from("LFU") == EvictionPolicy::LFU);
        assert!(EvictionPolicy::from("Tlru") == EvictionPolicy::TLRU);
        assert!(EvictionPolicy::from("mru") == EvictionPolicy::LRU);
        assert!(EvictionPolicy::from("") == EvictionPolicy::LRU);
    }

    /// the documented default
    #[kani::proof]
    fn k_policy_default() {
        assert!(EvictionPolicy::default() == EvictionPolicy::LRU);
    }
}
